"""C13 - HTM ids are hierarchical and cover circles; pair counts equal brute force.

spec -> code : HtmIdsMC.tla (a) proves the id arithmetic the judgement rests on (digit strings <->
               8*4^d <= id < 16*4^d, parent = id div 4 = prefix, depth 0..20 on 22-bit limbs) and that
               implementation-shaped models of the three mechanisms (name built level by level,
               recursive circle/triangle classification, leaf traversal through the reverse indices of
               Hist.tla with floor binning) refine the property - each with deviating variants as
               self-tests; (b) enumerates every circle (centre, radius, probes) and every pair-count
               problem (p2, p1, bins, scale) of the scope on both exact lattices.  Every exported case
               is concretised (great circle incl. tilted ones, eps, depth, memory layout, way of
               calling) and executed.
code -> spec : what the real code returned - ids as 22-bit limbs, the two intersect lists (or their
               projection onto the probes when long), the counts of every way of calling - plus
               larger seeded cases and ~10^3..10^5 looked-up positions (lattice and random) are judged
               by HtmIdsTrace.tla under TLC, which decodes the ids, evaluates inside/outside of every
               probe and the brute-force bin of every pair with exact lattice arithmetic.
Python never decides a verdict; it maps abstract <-> concrete and records.
"""
import json
import os
import pickle
import random
import signal
from concurrent.futures import ThreadPoolExecutor
from fractions import Fraction as F

import numpy as np

from .. import htmidlat as hl
from .. import tracecheck
from ..core import MachineryError
from ..par import pmap
from ..tlc import cfg

NEEDS_EXT = True

MAXDEPTH = 20
DEPTHS = list(range(0, MAXDEPTH + 1))

BOUNDS = {
    "quick": dict(Scope="q", FullDepth=3, Levels=1, MaxN1=1, MaxN2=2,
                  n_random_pts=1500, n_rs_pts=120, cover_conc=6, cover_rand=160, cover_rs_rand=40, cover_star=400, pairs_star=300, HistN2=1, HistCalls=2, hist_rand=150, hist_rs_rand=50, reps_per_row=2, ScaleSizes={100000, 100001, 250000}, deep_star=180, WorldObj=2, WorldCalls=3, WorldMC=(3, 3), world_conc=2,
                  pairs_rand=500, pairs_rs_rand=200, cap_cover=2e5, cap_pairs=3e4, cap_span=2e4),
    "thorough": dict(Scope="t", FullDepth=5, Levels=2, MaxN1=1, MaxN2=2,
                     n_random_pts=40000, n_rs_pts=414, cover_conc=8, cover_rand=3000, cover_rs_rand=500, cover_star=5000, pairs_star=3000, HistN2=1, HistCalls=3, hist_rand=2500, hist_rs_rand=800, reps_per_row=12, ScaleSizes={65535, 65536, 65537, 100000, 100001, 131073, 200000, 200001, 250000, 300007, 1048577}, deep_star=4000, WorldObj=3, WorldCalls=3, WorldMC=(3, 3), world_conc=3,
                     pairs_rand=6000, pairs_rs_rand=3000, cap_cover=2e6, cap_pairs=6e4, cap_span=6e4),
}
LIST_MAX = 48          # intersect lists up to this length are written out and re-projected by TLC

_H = {}


def htm(depth):
    h = _H.get(depth)
    if h is None:
        import esutil
        h = _H[depth] = esutil.htm.HTM(depth)
    return h


def _ename(e):
    return type(e).__name__


# =====================================================================================
# lookup_id
def lookup_positions(B, seed):
    """concrete positions: every great-circle lattice position on every circle, the rational sphere, the
    poles / octant corners / seam written out, and seeded random ones"""
    rng = random.Random(seed * 7919 + 13)
    out = []
    A = [0, 1, 45, 89, 90, 91, 135, 179, 180, 181, 225, 269, 270, 271, 315, 359]
    for ci, circ in enumerate(hl.CIRCLES):
        for ek in ("1e-3", "1e-7"):
            for a in A:
                for b in (-2, -1, 0, 1, 2):
                    if not (b == 0 or (a + ci) % 3 == 0 or B["Scope"] == "t"):
                        continue
                    out.append(hl.gc_point(circ, hl.EPS[ek], (a, b)))
    pts = hl.pythagorean_points(15)
    rng2 = random.Random(seed * 31 + 5)
    if B["n_rs_pts"] < len(pts):
        keep = [p for p in pts if p[3] <= 3] + rng2.sample(pts, B["n_rs_pts"])
        pts = sorted(set(keep))
    out += [hl.rs_point(p) for p in pts]
    for ra in (0.0, 90.0, 180.0, 270.0, 360.0, 45.0, 5e-324, 359.99999999999994):
        for dec in (0.0, 90.0, -90.0, 5e-324, -5e-324, 89.99999999999999, -89.99999999999999, 35.264389682754654, 45.0):
            out.append((ra, dec))
    for _ in range(B["n_random_pts"]):
        k = rng.random()
        if k < 0.6:
            out.append((rng.uniform(0.0, 360.0), float(np.degrees(np.arcsin(rng.uniform(-1.0, 1.0))))))
        elif k < 0.75:                      # next to an octant boundary
            out.append((90.0 * rng.randrange(4) + rng.choice([-1, 1]) * 10.0 ** rng.uniform(-15, -3) + (360.0 if rng.random() < .1 else 0.0),
                        rng.uniform(-90, 90)))
        elif k < 0.9:                       # next to the equator / a pole
            out.append((rng.uniform(0, 360), rng.choice([0.0, 90.0, -90.0]) + rng.choice([-1, 1]) * 10.0 ** rng.uniform(-15, -3)))
        else:                               # on a trixel edge of the first levels: ra = k*90/2^j on the equator or a boundary meridian
            j = rng.randrange(0, 12)
            t = 90.0 * rng.randrange(0, 4 * 2 ** j) / 2 ** j
            out.append((t, 0.0) if rng.random() < 0.5 else (90.0 * rng.randrange(4), max(-90.0, min(90.0, t - 180.0)) / 2))
    clean = []
    for ra, dec in out:
        ra = min(360.0, max(0.0, ra % 360.0 if not 0.0 <= ra <= 360.0 else ra))
        dec = min(90.0, max(-90.0, dec))
        clean.append((float(ra), float(dec)))
    return clean


def lookup_block(args):
    bi, pts = args
    ra = [p[0] for p in pts]
    dec = [p[1] for p in pts]
    lay = hl.LAYOUTS[bi % len(hl.LAYOUTS)]
    arr = {}
    err = "none"
    reuse = bi % 2 == 0 and len(pts) >= 2
    if reuse:
        # a history on each HTM object: the SAME two ndarray objects carry the first half of the block, are
        # overwritten in place and carry the second half (the object is shared by all calls of this process anyway)
        lay = "reused_buffers"
        m = (len(pts) + 1) // 2
        rbuf, dbuf = np.empty(m), np.empty(m)
    for d in DEPTHS:
        try:
            if reuse:
                parts = []
                for half in (pts[:m], pts[len(pts) - m:]):
                    rbuf[:] = [q[0] for q in half]
                    dbuf[:] = [q[1] for q in half]
                    parts.append(np.array(htm(d).lookup_id(rbuf, dbuf)))
                res = np.concatenate([parts[0], parts[1][m - (len(pts) - m):]])
            else:
                res = htm(d).lookup_id(hl.layout(ra, lay), hl.layout(dec, lay))
            res = np.asarray(res)
            if res.shape != (len(pts),):
                raise ValueError("shape")
            arr[d] = res
        except Exception as e:  # noqa
            err = _ename(e)
            break
    recs = []
    for k, (r, dc) in enumerate(pts):
        rec = {"kind": "lookup", "err": err, "depths": DEPTHS, "ids": [], "sids": []}
        if err == "none":
            rec["ids"] = [hl.limbs(arr[d][k]) for d in DEPTHS]
            try:
                s = []
                for d in DEPTHS:
                    v = np.asarray(htm(d).lookup_id(r, dc)).ravel()
                    s.append(hl.limbs(v[0]) if v.size == 1 else [-1, 0, 0])
                rec["sids"] = s
            except Exception as e:  # noqa
                rec["err"] = _ename(e)
        recs.append((rec, {"ra": r, "dec": dc, "layout": lay}))
    return recs


# =====================================================================================
# intersect
GC_EPS_COVER = ["1e-2", "1e-3", "2e-4", "1e-4", "4e-5"]


def cover_eps_choices(case):
    """eps values for which the radius a + h*eps/2 lies in [1e-4, 180) degrees (the statement has no upper bound;
    above 90 degrees the circle is the complement of a small cap - negative cosine)"""
    if case["lat"] != "gc":
        return ["-"]
    ok = []
    for k in GC_EPS_COVER:
        r = hl.gc_half(case["rad"], hl.EPS[k])
        if F(1, 10 ** 4) <= r < 180:
            ok.append(k)
    return ok


def cover_depths(case, eps, cap):
    r = hl.radius_deg(case["lat"], case["rad"], hl.EPS[eps] if eps != "-" else None)
    return [d for d in range(1, 13) if hl.trixels_in_cap(r, d) <= cap]


def concretise_cover(case, n, rng, cap, star=None):
    """n concretisations (circle, eps, depth) of one abstract circle"""
    out = []
    epss = cover_eps_choices(case)
    if not epss:
        return out
    for k in range(n):
        eps = epss[(k + rng.randrange(len(epss))) % len(epss)]
        ds = cover_depths(case, eps, cap)
        if not ds:
            continue
        depth = ds[-1] if k % 3 == 0 else rng.choice(ds)
        circle = (k + rng.randrange(len(hl.CIRCLES))) % len(hl.CIRCLES) if case["lat"] == "gc" else 0
        out.append({"abs": case, "circle": circle, "eps": eps, "depth": depth, "incl_kw": k % 2 == 0})
        if star is not None:
            out[-1]["star"] = star
    return out


def run_cover(job):
    c = job["abs"]
    lat = c["lat"]
    eps = hl.EPS[job["eps"]] if lat == "gc" else None
    circle = hl.CIRCLES[job["circle"]]
    if job.get("star"):
        cra, cdec = job["star"]["centre"]
        pra, pdec = hl.star_points(job["star"]["centre"], job["star"]["dirs"], c["probes"], eps)
    else:
        (cra,), (cdec,) = hl.points(lat, [c["c"]], circle, eps)
        pra, pdec = hl.points(lat, c["probes"], circle, eps)
    r = hl.radius_deg(lat, c["rad"], eps)
    d = job["depth"]
    rec = {"kind": "cover", "lat": lat, "err": "none", "depth": d, "c": c["c"], "rad": c["rad"], "probes": c["probes"],
           "cid": [-1, 0, 0], "pid": [], "listed": False, "incl": [], "full": [], "cin": False, "pin": [], "pfull": []}
    meta = {"ra": cra, "dec": cdec, "radius": r, "nincl": -1, "nfull": -1}
    try:
        h = htm(d)
        incl = np.asarray(h.intersect(cra, cdec, r, inclusive=True) if job["incl_kw"] else h.intersect(cra, cdec, r))
        full = np.asarray(h.intersect(cra, cdec, r, inclusive=False))
        cid = np.asarray(h.lookup_id(cra, cdec)).ravel()[0]
        pid = np.asarray(h.lookup_id(np.array(pra), np.array(pdec)))
        rec["cid"] = hl.limbs(cid)
        rec["pid"] = [hl.limbs(v) for v in pid]
        want = np.unique(np.append(pid, cid))
        in_incl = set(incl[np.isin(incl, want)].tolist())        # few wanted ids against a long list
        in_full = set(full[np.isin(full, want)].tolist())
        rec["cin"] = int(cid) in in_incl
        rec["pin"] = [int(v) in in_incl for v in pid]
        rec["pfull"] = [int(v) in in_full for v in pid]
        meta["nincl"], meta["nfull"] = int(incl.size), int(full.size)
        if incl.size <= LIST_MAX:
            rec["listed"] = True
            rec["incl"] = [hl.limbs(v) for v in incl]
            rec["full"] = [hl.limbs(v) for v in full]
    except Exception as e:  # noqa
        rec["err"] = _ename(e)
    return rec, meta


def rand_cover_cases(rng, n, lat, rs_pts):
    out = []
    for _ in range(n):
        if lat == "gc":
            c = (rng.choice([0, 1, 44, 45, 89, 90, 91, 179, 180, 270, 359, rng.randrange(360)]), rng.randrange(-3, 4))
            style = rng.random()
            if style < 0.35:
                rad = (0, rng.choice([1, 3, 5, 7, 9, 15, 31]))
            elif style < 0.7:
                rad = (rng.choice([1, 2, 5, 10, 30, 45, 60, 89, rng.randrange(1, 90)]), rng.choice([-5, -3, -1, 1, 3, 5]))
            elif style < 0.87:
                rad = (90, rng.choice([-1, -3, -7, 1, 3]))
            else:
                rad = (rng.choice([91, 100, 120, 135, 150, 170, 179, rng.randrange(91, 180)]), rng.choice([-5, -3, -1, 1, 3, 5]))
            probes = set()
            for s in (-1, 1):
                for t in (-5, -3, -1, 1, 3, 5):
                    probes.add(((c[0] + s * rad[0]) % 360, c[1] + s * ((rad[1] + t) // 2)))
            for _k in range(20):
                probes.add((rng.choice([c[0], (c[0] + rad[0]) % 360, (c[0] - rad[0]) % 360, rng.randrange(360)]), rng.randrange(-9, 10)))
            probes.add(c)
            out.append({"kind": "cover", "lat": "gc", "c": list(c), "rad": list(rad), "probes": [list(p) for p in sorted(probes)]})
        else:
            c = rng.choice(rs_pts)
            q = rng.choice([2, 3, 4, 5, 7, 8, 9, 10, 13, 15, 25, 50, 100, 225])
            p = rng.randrange(0, q)              # cos in [0, 1): radius in (0, 90]
            if rng.random() < 0.3:
                p = q - 1
            elif rng.random() < 0.4:
                p = -rng.randrange(1, q)         # cos in (-1, 0): radius in (90, 180)
            g = np.gcd(p, q)
            out.append({"kind": "cover", "lat": "rs", "c": list(c), "rad": [int(p // g), int(q // g)],
                        "probes": [list(x) for x in rs_pts]})
    return out


def rand_centre(rng):
    """any sky position: general, poles, octant corners and edges, the seam, and next to them"""
    k = rng.random()
    if k < 0.45:
        return [rng.uniform(0.0, 360.0), float(np.degrees(np.arcsin(rng.uniform(-1.0, 1.0))))]
    if k < 0.6:
        return [rng.choice([0.0, 90.0, 180.0, 270.0, 45.0, 360.0]), rng.choice([0.0, 90.0, -90.0, 45.0, 35.264389682754654])]
    if k < 0.8:
        return [(90.0 * rng.randrange(4) + rng.choice([-1, 0, 1]) * 10.0 ** rng.uniform(-9, -2)) % 360.0, rng.uniform(-90.0, 90.0)]
    return [rng.uniform(0.0, 360.0), max(-90.0, min(90.0, rng.choice([0.0, 90.0, -90.0]) + rng.choice([-1, 0, 1]) * 10.0 ** rng.uniform(-9, -2)))]


def rand_star_cover(rng, n):
    """circles around arbitrary centres with probes on rays in every direction: (abstract case, star part).
    Abstractly the centre is arc 0 and a probe the arc <<a,b>> from it (HiGcSep(<<0,0>>, <<a,b>>) = <<a,b>>)."""
    out = []
    for _ in range(n):
        style = rng.random()
        if style < 0.35:
            rad = (0, rng.choice([1, 3, 5, 7, 9, 15, 31, 101]))
        elif style < 0.75:
            rad = (rng.choice([1, 2, 5, 10, 30, 45, 60, 89, rng.randrange(1, 90)]), rng.choice([-5, -3, -1, 1, 3, 5]))
        elif style < 0.9:
            rad = (90, rng.choice([-1, -3, -7, 1, 3]))
        else:
            rad = (rng.choice([91, 100, 120, 135, 150, 170, 179, rng.randrange(91, 180)]), rng.choice([-5, -3, -1, 1, 3, 5]))
        ndir = rng.choice([8, 16, 24])
        phi0 = rng.uniform(0.0, 360.0)
        probes, dirs = [[0, 0]], [0.0]
        for d in range(ndir):
            phi = [0.0, 90.0, 180.0, 270.0][d] if d < 4 and rng.random() < 0.5 else (phi0 + 360.0 * d / ndir + rng.uniform(-3, 3)) % 360.0
            for t in (-3, -1, 1, 3):
                probes.append([rad[0], (rad[1] + t) // 2])
                dirs.append(phi)
            probes.append([rad[0] // 2, rng.randrange(0, 4)] if rad[0] else [0, max(0, (rad[1] - 1) // 4)])
            dirs.append(phi)
            probes.append([min(180, rad[0] + rng.choice([1, 2, 10, 45, 90])), rng.randrange(-3, 4)] if rng.random() < 0.7
                          else [0, (rad[1] + 1) // 2 + rng.randrange(1, 40)] if rad[0] == 0 else [180, 0])
            dirs.append(phi)
        case = {"kind": "cover", "lat": "gc", "c": [0, 0], "rad": list(rad), "probes": probes}
        out.append((case, {"centre": rand_centre(rng), "dirs": dirs}))
    return out


def rand_star_pairs(rng, n):
    """one first-set point anywhere, second-set points on rays around it: every separation that is counted is exact"""
    out = []
    while len(out) < n:
        if rng.random() < 0.5:
            base, rho, nbin = (0, rng.choice([1, 3, 5])), rng.choice([3, 3, 5, 2, 7, 13, 21]), rng.randrange(1, 5)
            mk = lambda: [0, rng.randrange(0, 25)]                                  # noqa
        else:
            base, rho, nbin = (rng.choice([0, 1, 1, 2, 5, 10, 20]), rng.choice([1, 3])), rng.choice([3, 3, 2, 5]), rng.randrange(1, 5)
            A = [0, 1, 2, 3, 5, 7, 10, 20, 30, 45, 90, 120, 135, 150, 179, 180]
            mk = lambda: (lambda a: [a, rng.randrange(0 if a == 0 else -4, 5 if a < 180 else 1)])(rng.choice(A))   # noqa
        edges = [[base[0] * rho ** k, base[1] * rho ** k] for k in range(1, nbin + 2)]
        if tuple(edges[-1]) > (180, 0) or abs(edges[-1][1]) > 30000:
            continue
        n2 = rng.choice([1, 3, 8, 20, 40])
        p2 = [mk() for _ in range(n2)]
        sk = rng.random()
        scale = [] if sk < 0.4 else [rng.choice([1, 2, 3, 4])]
        case = {"kind": "pairs", "lat": "gc", "p1": [[0, 0]], "p2": p2, "edges": edges, "scale": scale}
        out.append((case, {"centre": rand_centre(rng), "dirs": [rng.uniform(0.0, 360.0) for _ in p2]}))
    return out


# =====================================================================================
# bincount
GC_EPS_PAIRS = ["1e-3", "1e-4", "1e-5", "1e-6", "1e-7"]
MIN_SEARCH_DEG = F(1, 10 ** 4)      # the largest search angle rmax/scale stays within the statement's circle radii 1e-4 .. 180


def pairs_eps_choices(case):
    """eps values for which (a) a + b*eps values compare lexicographically, (b) the largest search angle of every
    first-set point is >= 1e-4 degree (below ~1e-6 degree cos(angle) rounds to 1 and the circle degenerates; the
    statement quantifies circle radii from 1e-4 degree), (c) every pair that is not exactly on a bin edge is >= 1e-8
    relative away from it, (d) no pair is within 100 x the angular resolution of the cos(radius) circle test
    (1.1e-16 / sin r) of the outermost edge.  Input selection only - nothing is judged here."""
    if case["lat"] != "gc":
        return ["-"]
    pts = case["p1"] + case["p2"]
    mmax = max(case["scale"]) if case["scale"] else 1
    bmax = max([abs(p[1]) for p in pts] + [1])
    hmax = max(abs(e[1]) for e in case["edges"])
    wide = any(e[0] != 0 for e in case["edges"])
    cluster = (not wide) and len({p[0] for p in pts}) == 1
    last = case["edges"][-1]
    out = []
    for k in GC_EPS_PAIRS:
        eps = hl.EPS[k]
        if not (4 * mmax * bmax + hmax) * eps / 2 < F(1, 2):
            continue
        if hl.gc_half(last, eps) / mmax < MIN_SEARCH_DEG:
            continue
        if wide and eps < F(1, 10 ** 5):
            continue
        far_from_last = cluster and last[1] >= 2 * (4 * mmax * bmax)
        if not (eps / (2 * mmax) >= F(1, 10 ** 6) or far_from_last):
            continue
        out.append(k)
    return out


def concretise_pairs(case, n, rng, B, star=None):
    out = []
    epss = pairs_eps_choices(case)
    if not epss:
        return out
    for k in range(n):
        eps = epss[(k + rng.randrange(len(epss))) % len(epss)]
        circle = (k + rng.randrange(len(hl.CIRCLES))) % len(hl.CIRCLES) if case["lat"] == "gc" else 0
        unit = rng.choice([1, 1, 2, 1024, F(1, 8)])
        out.append({"abs": case, "circle": circle, "eps": eps, "unit": unit, "pick": rng.randrange(1 << 30),
                    "cap_pairs": B["cap_pairs"], "cap_span": B["cap_span"]})
        if star is not None:
            out[-1]["star"] = star
    return out


def _bincount(h, var, rmin, rmax, nbin, a1, d1, a2, d2, sc):
    import esutil.stat
    kw = {}
    if sc is not None:
        kw["scale"] = sc
    if var in ("ids", "ids_rev", "ids_list", "ids_minmax"):
        ids = h.lookup_id(a2, d2)
        kw["htmid2"] = [int(v) for v in ids] if var == "ids_list" else ids
        if var in ("ids_rev", "ids_minmax"):
            kw["minid"], kw["maxid"] = ids.min(), ids.max()
        if var == "ids_rev":
            kw["htmrev2"] = esutil.stat.histogram(ids - ids.min(), rev=True)[1]
    elif var == "rev":
        ids = h.lookup_id(a2, d2)
        kw["htmrev2"] = esutil.stat.histogram(ids - ids.min(), rev=True)[1]
    if var == "nobins":
        return h.bincount(rmin, rmax, nbin, a1, d1, a2, d2, getbins=False, **kw)
    res = h.bincount(rmin, rmax, nbin, a1, d1, a2, d2, **kw)
    return res[2]


VARIANTS = ["plain", "ids", "ids_rev", "rev", "nobins", "ids_list", "ids_minmax"]


def run_pairs(job):
    c = job["abs"]
    lat = c["lat"]
    eps = hl.EPS[job["eps"]] if lat == "gc" else None
    circle = hl.CIRCLES[job["circle"]]
    rng = random.Random(job["pick"])
    if job.get("star"):
        ra1, dec1 = [job["star"]["centre"][0]], [job["star"]["centre"][1]]
        ra2, dec2 = hl.star_points(job["star"]["centre"], job["star"]["dirs"], c["p2"], eps)
    else:
        ra1, dec1 = hl.points(lat, c["p1"], circle, eps)
        ra2, dec2 = hl.points(lat, c["p2"], circle, eps)
    rmin, rmax, nbin, sc = hl.bin_args(lat, c["edges"], c["scale"], eps, job["unit"])
    if sc is not None:
        sc = (sc[0] if rng.random() < 0.5 else np.array(sc)) if len(sc) == 1 else (np.array(sc) if rng.random() < 0.7 else list(sc))
    # depths the budget allows: trixels met by the largest circle, id span handed to the histogram
    ang = hl.max_angle_deg(lat, c["edges"], c["scale"], eps)
    ids12 = np.asarray(htm(12).lookup_id(np.array(ra2), np.array(dec2)))
    ds = []
    for d in range(1, 13):
        sh = 2 * (12 - d)
        span = int(ids12.max() >> sh) - int(ids12.min() >> sh) + 1
        if len(ra1) * hl.trixels_in_cap(ang, d) <= job["cap_pairs"] and span <= job["cap_span"]:
            ds.append(d)
    if not ds:
        ds = [1]
    plan = [("plain", ds[-1]), (rng.choice(VARIANTS[1:4]), ds[-1]), ("plain", rng.choice(ds)),
            (rng.choice(VARIANTS[1:]), rng.choice(ds))]
    obs = []
    lay = hl.LAYOUTS[rng.randrange(len(hl.LAYOUTS))]
    for n, (var, d) in enumerate(plan):
        o = {"var": "%s@%d" % (var, d), "err": "none", "counts": []}
        try:
            if n % 2 == 1 and len(ra1) == 1 and rng.random() < 0.5:
                a1, d1 = ra1[0], dec1[0]                       # scalar first point
                o["var"] += ":scalar_p1"
            else:
                a1, d1 = hl.layout(ra1, lay if n >= 2 else "contig"), hl.layout(dec1, lay if n >= 2 else "contig")
            a2, d2 = hl.layout(ra2, lay if n >= 2 else "contig"), hl.layout(dec2, lay if n >= 2 else "contig")
            cn = np.asarray(_bincount(htm(d), var, rmin, rmax, nbin, a1, d1, a2, d2, sc))
            o["counts"] = [int(v) for v in cn.ravel()]
        except Exception as e:  # noqa
            o["err"] = _ename(e)
        obs.append(o)
    rec = {"kind": "pairs", "lat": lat, "p1": c["p1"], "p2": c["p2"], "edges": c["edges"], "scale": c["scale"], "obs": obs}
    meta = {"rmin": rmin, "rmax": rmax, "nbin": nbin, "scale_arg": None if sc is None else np.asarray(sc).tolist(), "layout": lay}
    return rec, meta


def _allowed_depths(ra1, ra2, dec2, ang, cap_pairs, cap_span):
    ids12 = np.asarray(htm(12).lookup_id(np.array(ra2), np.array(dec2)))
    ds = []
    for d in range(1, 13):
        sh = 2 * (12 - d)
        span = int(ids12.max() >> sh) - int(ids12.min() >> sh) + 1
        if len(ra1) * hl.trixels_in_cap(ang, d) <= cap_pairs and span <= cap_span:
            ds.append(d)
    return ds or [1]


def history_eps_choices(case):
    if case["lat"] != "gc":
        return ["-"]
    ok = None
    for c in case["calls"]:
        ks = set(pairs_eps_choices(dict(c, lat="gc", edges=c.get("edges", case.get("edges")), scale=c.get("scale", case.get("scale")))))
        ok = ks if ok is None else ok & ks
    return [k for k in GC_EPS_PAIRS if k in (ok or set())]


def concretise_history(case, rng, B):
    epss = history_eps_choices(case)
    if not epss:
        return []
    return [{"abs": case, "circle": rng.randrange(len(hl.CIRCLES)) if case["lat"] == "gc" else 0, "eps": rng.choice(epss),
             "unit": rng.choice([1, 1, 2, 1024, F(1, 8)]), "pick": rng.randrange(1 << 30),
             "cap_pairs": B["cap_pairs"], "cap_span": B["cap_span"]}]


def run_history(job):
    """(Overwrite ; Bincount)* on ONE fresh HTM object; ra1/dec1/ra2/dec2/scale/htmid2 are the same ndarray
    objects throughout, their contents replaced in place before every call.  Returns one record whose calls are
    each judged by brute force on their own contents."""
    import esutil
    import esutil.stat
    c = job["abs"]
    lat = c["lat"]
    eps = hl.EPS[job["eps"]] if lat == "gc" else None
    circle = hl.CIRCLES[job["circle"]]
    rng = random.Random(job["pick"])
    calls = [dict(cl, edges=cl.get("edges", c.get("edges")), scale=cl.get("scale", c.get("scale"))) for cl in c["calls"]]
    conc = []
    ds = None
    for cl in calls:
        ra1, dec1 = hl.points(lat, cl["p1"], circle, eps)
        ra2, dec2 = hl.points(lat, cl["p2"], circle, eps)
        rmin, rmax, nbin, sc = hl.bin_args(lat, cl["edges"], cl["scale"], eps, job["unit"])
        conc.append((ra1, dec1, ra2, dec2, rmin, rmax, nbin, sc))
        d1 = set(_allowed_depths(ra1, ra2, dec2, hl.max_angle_deg(lat, cl["edges"], cl["scale"], eps), job["cap_pairs"], job["cap_span"]))
        ds = d1 if ds is None else ds & d1
    depth = rng.choice(sorted(ds)) if ds else 1
    rec = {"kind": "history", "lat": lat, "calls": []}
    meta = {"depth": depth, "calls": []}
    try:
        h = esutil.htm.HTM(depth)
        n1, n2 = len(conc[0][0]), len(conc[0][2])
        b1a, b1d, b2a, b2d = np.empty(n1), np.empty(n1), np.empty(n2), np.empty(n2)
        bsc = np.empty(len(conc[0][7])) if conc[0][7] is not None else None
        bids = np.empty(n2, dtype="i8")
        herr = "none"
    except Exception as e:  # noqa
        herr = _ename(e)
    for k, (cl, (ra1, dec1, ra2, dec2, rmin, rmax, nbin, sc)) in enumerate(zip(calls, conc)):
        obs = []
        if herr == "none":
            b1a[:], b1d[:], b2a[:], b2d[:] = ra1, dec1, ra2, dec2            # Overwrite: same objects, new contents
            scarg = None
            if sc is not None:
                bsc[:] = sc
                scarg = bsc
            for var in ("plain", "ids", "plain", "ids_rev"):
                o = {"var": "%s@%d#%d" % (var, depth, k + 1), "err": "none", "counts": []}
                try:
                    kw = {} if scarg is None else {"scale": scarg}
                    if var != "plain":
                        bids[:] = h.lookup_id(b2a, b2d)
                        kw["htmid2"] = bids
                        if var == "ids_rev":
                            kw["minid"], kw["maxid"] = bids.min(), bids.max()
                            kw["htmrev2"] = esutil.stat.histogram(bids - bids.min(), rev=True)[1]
                    cn = np.asarray(h.bincount(rmin, rmax, nbin, b1a, b1d, b2a, b2d, **kw)[2])
                    o["counts"] = [int(v) for v in cn.ravel()]
                except Exception as e:  # noqa
                    o["err"] = _ename(e)
                obs.append(o)
        else:
            obs.append({"var": "new_object", "err": herr, "counts": []})
        rec["calls"].append({"p1": cl["p1"], "p2": cl["p2"], "edges": cl["edges"], "scale": cl["scale"], "obs": obs})
        meta["calls"].append({"rmin": rmin, "rmax": rmax, "nbin": nbin, "scale_arg": sc})
    return rec, meta


def rand_history_cases(rng, n, lat, rs_pts):
    """histories of 3..5 calls over point sets of one size (the buffers are re-used), bins and scale kind fixed"""
    out = []
    while len(out) < n:
        base = rand_pairs_cases(rng, 1, lat, rs_pts)[0]
        n1, n2 = min(len(base["p1"]), 6), min(len(base["p2"]), 20)
        pool = [list(p) for p in (base["p1"] + base["p2"])]
        if lat == "gc":
            A = sorted({p[0] for p in pool})
            bm = max(abs(p[1]) for p in pool)
            mk = lambda: [rng.choice(A), rng.randrange(-bm, bm + 1)]           # noqa
        else:
            mk = lambda: list(rng.choice(rs_pts))                              # noqa
        calls = []
        for _ in range(rng.choice([3, 4, 5])):
            sc = base["scale"] if len(base["scale"]) <= 1 else [rng.choice(sorted(set(base["scale"]))) for _ in range(n1)]
            calls.append({"p1": [mk() for _ in range(n1)], "p2": [mk() for _ in range(n2)], "edges": base["edges"], "scale": sc})
        out.append({"kind": "history", "lat": lat, "calls": calls})
    return out


_SMALL_FN = None


def _small_call(x):
    return _SMALL_FN(x)


def pmap_small(fn, items):
    """fork-parallel map for a few heavy jobs (vh.par.pmap runs fewer than 64 items serially)"""
    global _SMALL_FN
    import multiprocessing as mp
    nproc = max(1, min(len(items), 16, os.cpu_count() or 1, int(os.environ.get("VH_MAX_WORKERS", "16"))))
    if nproc == 1:
        return [fn(x) for x in items]
    _SMALL_FN = fn
    try:
        with mp.get_context("fork").Pool(nproc) as pool:
            return list(pool.imap(_small_call, items, 1))
    finally:
        _SMALL_FN = None


def concretise_scale(case, rng, B):
    epss = pairs_eps_choices(case)
    if not epss:
        return []
    return [{"abs": case, "circle": rng.randrange(len(hl.CIRCLES)) if case["lat"] == "gc" else 0, "eps": rng.choice(epss),
             "unit": rng.choice([1, 2, F(1, 8)]), "pick": rng.randrange(1 << 30)}]


def run_scale(job):
    """a first list of n = tiles*m + rem points (the small unit tiled, its per-point scale tiled alike) against the same
    implementation on the unit and on the unit's first rem points"""
    c = job["abs"]
    lat = c["lat"]
    eps = hl.EPS[job["eps"]] if lat == "gc" else None
    circle = hl.CIRCLES[job["circle"]]
    ra1, dec1 = hl.points(lat, c["p1"], circle, eps)
    ra2, dec2 = hl.points(lat, c["p2"], circle, eps)
    rmin, rmax, nbin, sc = hl.bin_args(lat, c["edges"], c["scale"], eps, job["unit"])
    m, n, tiles, rem = len(ra1), c["n"], c["tiles"], c["rem"]
    ang = hl.max_angle_deg(lat, c["edges"], c["scale"], eps)
    ds = [d for d in _allowed_depths(ra1, ra2, dec2, ang, 40.0 * m, 1e4)]          # few trixels per point: n points are walked
    depth = ds[job["pick"] % len(ds)]
    h = htm(depth)

    def call(a, d, s):
        o = {"err": "none", "counts": []}
        try:
            kw = {}
            if s is not None:
                kw["scale"] = s[0] if len(c["scale"]) == 1 else np.array(s)
            o["counts"] = [int(v) for v in np.asarray(h.bincount(rmin, rmax, nbin, np.array(a), np.array(d), np.array(ra2), np.array(dec2), **kw)[2]).ravel()]
        except Exception as e:  # noqa
            o["err"] = _ename(e)
        return o

    per_point = sc is not None and len(c["scale"]) > 1
    uobs = call(ra1, dec1, sc)
    robs = call(ra1[:rem], dec1[:rem], (sc[:rem] if per_point else sc)) if rem else {"err": "none", "counts": []}
    tile = lambda v: np.concatenate([np.tile(np.array(v, dtype="f8"), tiles), np.array(v[:rem], dtype="f8")])      # noqa
    bobs = call(tile(ra1), tile(dec1), (tile(sc) if per_point else sc))
    rec = {"kind": "scale", "lat": lat, "p1": c["p1"], "p2": c["p2"], "edges": c["edges"], "scale": c["scale"],
           "n": n, "tiles": tiles, "rem": rem, "uobs": uobs, "robs": robs, "bobs": bobs}
    return rec, {"rmin": rmin, "rmax": rmax, "nbin": nbin, "scale_arg": sc, "depth": depth}


BARY = []
for _a, _b, _c in [(.5, .25, .25), (.4, .4, .2), (.6, .2, .2), (.44, .44, .12), (.46, .46, .08), (.7, .15, .15), (.8, .1, .1), (.34, .33, .33)]:
    BARY += [(_a, _b, _c), (_b, _c, _a), (_c, _a, _b)]
COS_MARGIN = 1.5e-15        # a probe is at least this far (in the cosine) from the circle: ~4x the rounding of cos(r) and of a corner test
EDGE_MARGIN = 1.5e-15       # a targeted probe is this far inside its triangle in (v_i x v_j).p: lookup_id's own tolerance is 1e-15


def deep_cover_jobs(rng, n, cap):
    """circles of about 1..6 leaf sizes at depths 13..24 around arbitrary centres (input selection only):
    radius = h*eps/2 with h odd and eps/2 >= COS_MARGIN/sin(r)"""
    out = []
    tries = 0
    while len(out) < n and tries < 100 * n:
        tries += 1
        depth = rng.choice([13, 14, 15, 16, 17, 18, 19, 20, 21, 22, 22, 23, 23, 23, 24, 24, 24, 24])
        leaf = 90.0 / 2 ** depth
        target = leaf * rng.uniform(1.2, 5.0 if depth < 22 else 3.0)
        hmax = int(target * np.sin(np.radians(target)) / (np.degrees(COS_MARGIN)))
        if hmax < 5:
            continue
        h = (min(int(0.8 * hmax), 2001) - rng.randrange(0, 3)) | 1          # the finest lattice the margin allows
        if h > hmax or h < 5:
            continue
        eps = F(int(round(2 * target / h * 1e12)), 10 ** 12)
        r = float(h * eps / 2)
        if float(eps) / 2 < np.degrees(COS_MARGIN) / np.sin(np.radians(r)) or hl.trixels_in_cap(r, depth) > cap:
            continue
        out.append({"deep": True, "depth": depth, "eps": "%d/%d" % (eps.numerator, eps.denominator), "h": h, "centre": rand_centre(rng),
                    "pick": rng.randrange(1 << 30), "incl_kw": depth % 2 == 0})
    return out


def run_cover_deep(job):
    """rays around the centre (offsets beyond lookup_id's edge tolerance) plus TARGETED probes: lattice positions well inside
    the triangles reported as fully inside, as far from the centre as they go.  Where a probe is looked for is chosen here;
    whether it is inside the circle is decided by TLC from its arc, which triangle it is in by lookup_id."""
    rng = random.Random(job["pick"])
    eps = F(job["eps"])
    h, d = job["h"], job["depth"]
    cra, cdec = job["centre"]
    r = float(h * eps / 2)
    rec = {"kind": "cover", "lat": "gc", "err": "none", "depth": d, "c": [0, 0], "rad": [0, h], "probes": [[0, 0]],
           "cid": [-1, 0, 0], "pid": [], "listed": False, "incl": [], "full": [], "cin": False, "pin": [], "pfull": []}
    meta = {"ra": cra, "dec": cdec, "radius": r, "nincl": -1, "nfull": -1, "targeted": 0}
    try:
        hh = htm(d)
        incl = np.asarray(hh.intersect(cra, cdec, r, inclusive=True) if job["incl_kw"] else hh.intersect(cra, cdec, r))
        full = np.asarray(hh.intersect(cra, cdec, r, inclusive=False))
        cid = int(np.asarray(hh.lookup_id(cra, cdec)).ravel()[0])
        cen = hl.xyz_ld(cra, cdec)
        # rays: a point up to 1e-15/|v_i x v_j| outside a triangle may still be given that triangle's id
        cc = hl.trixel_corners(cid, d)
        mcross = min(float(np.sqrt((n * n).sum())) for n in hl.edge_normals(cc))
        need = 3 * np.degrees(1e-15 / mcross) + np.degrees(COS_MARGIN) / np.sin(np.radians(r))
        tmin = int(np.ceil(need / (float(eps) / 2))) | 1
        probes, dirs = [[0, 0]], [0.0]
        phi0 = rng.uniform(0, 360)
        for k in range(24):
            phi = (phi0 + 15.0 * k + rng.uniform(-3, 3)) % 360.0
            for t in (-tmin - 2, -tmin, tmin, tmin + 2):
                if (h + t) // 2 >= 0:
                    probes.append([0, (h + t) // 2])
                    dirs.append(phi)
        # targeted: the full triangles that reach farthest out
        cand = []
        fl = [int(v) for v in full]
        if len(fl) > 120:
            fl = rng.sample(fl, 120)
        tri = []
        for tid in fl:
            vs = hl.trixel_corners(tid, d)
            tri.append((max(float(hl.sep_ld(cen, v)) for v in vs), tid, vs))
        tri.sort(key=lambda x: (-x[0], x[1]))
        # aimed probes: lattice positions strictly inside a reported-full triangle, next to its corners.  At these depths
        # lookup_id's edge tolerance (1e-15 in (v_i x v_j).p) is up to a tenth of a triangle, so "which triangle contains the
        # position" is taken from the mesh geometry (reconstruction validated each run), with a margin of 0.5 percent of
        # the edge length (>= 50x the rounding of the library's own corners)
        aimed = {}
        for _far, tid, vs in tri[:40]:
            nn = hl.edge_normals(vs)
            nlen = [float(np.sqrt((n * n).sum())) for n in nn]
            geo = max(0.005 * min(nlen), 5e-14)                       # required distance (rad) from every edge
            g = hl._unit(vs[0] + vs[1] + vs[2])
            for v in vs:
                for f in (0.03, 0.07, 0.15, 0.3):
                    pf = hl._unit((1 - f) * v + f * g)
                    t = float(hl.sep_ld(cen, pf))
                    phi = hl.position_angle(cra, cdec, pf)
                    for b in (int(t / float(eps)) + 1, int(t / float(eps)), int(t / float(eps)) - 1):
                        if b < 0 or (tid, b) in aimed:
                            continue
                        q = hl.xyz_ld(*hl.star_point(cra, cdec, phi, (0, b), eps))
                        if min(m / l for m, l in zip(hl.edge_margins(q, vs, nn), nlen)) >= geo:
                            aimed[(tid, b)] = phi
        cand = sorted(((b, phi, tid) for (tid, b), phi in aimed.items()), key=lambda x: (-x[0], x[2], x[1]))[:90]
        aim_ids = []
        for b, phi, tid in cand:
            probes.append([0, b])
            dirs.append(phi)
            aim_ids.append(tid)
        meta["targeted"] = len(cand)
        pra, pdec = hl.star_points([cra, cdec], dirs, probes, eps)
        pid = np.asarray(hh.lookup_id(np.array(pra), np.array(pdec)))
        if aim_ids:
            pid[len(pid) - len(aim_ids):] = aim_ids                  # aimed probes: the triangle that contains them geometrically
        rec["how"] = ["lookup"] * (len(pid) - len(aim_ids)) + ["aimed"] * len(aim_ids)
        want = np.unique(np.append(pid, cid))
        in_incl = set(incl[np.isin(incl, want)].tolist())
        in_full = set(full[np.isin(full, want)].tolist())
        rec.update(probes=probes, cid=hl.limbs(cid), pid=[hl.limbs(v) for v in pid], cin=cid in in_incl,
                   pin=[int(v) in in_incl for v in pid], pfull=[int(v) in in_full for v in pid])
        meta["nincl"], meta["nfull"] = int(incl.size), int(full.size)
        if incl.size <= LIST_MAX:
            rec.update(listed=True, incl=[hl.limbs(v) for v in incl], full=[hl.limbs(v) for v in full])
    except Exception as e:  # noqa
        rec["err"] = _ename(e)
    return rec, meta


def _check_trixel_geometry(seed, n=150):
    """the subdivision used to aim the targeted probes reproduces the library's triangles: the centroid of the
    reconstructed triangle of a looked-up position has that id, and the position is inside it (exit 2 otherwise)"""
    rng = random.Random(seed * 77 + 5)
    for _ in range(n):
        d = rng.randrange(1, 25)
        ra, dec = rand_centre(rng)
        tid = int(np.asarray(htm(d).lookup_id(ra, dec)).ravel()[0])
        if not 8 * 4 ** d <= tid < 16 * 4 ** d:
            raise MachineryError("trixel reconstruction cannot be validated: lookup_id at depth %d returned %d" % (d, tid))
        vs = hl.trixel_corners(tid, d)
        g = hl._unit(vs[0] + vs[1] + vs[2])
        gra = float((np.arctan2(g[1], g[0]) * 180 / np.pi) % 360)
        gdec = float(np.arctan2(g[2], np.sqrt(g[0] * g[0] + g[1] * g[1])) * 180 / np.pi)
        if int(np.asarray(htm(d).lookup_id(gra, gdec)).ravel()[0]) != tid or min(hl.edge_margins(hl.xyz_ld(ra, dec), vs)) < -2e-15:
            raise MachineryError("trixel reconstruction disagrees with lookup_id at depth %d (id %d)" % (d, tid))


def run_cover_any(job):
    return run_cover_deep(job) if job.get("deep") else run_cover(job)


def rand_pairs_cases(rng, n, lat, rs_pts):
    out = []
    while len(out) < n:
        if lat == "gc":
            style = rng.random()
            a0 = rng.choice([0, 90, 180, 270, 359, 45, rng.randrange(360)])
            if style < 0.5:                 # a cluster a few eps wide; bins of a few eps
                A = [a0]
                base, rho, nbin = (0, rng.choice([1, 3, 5])), rng.choice([3, 3, 5, 2, 7, 13, 21]), rng.randrange(1, 5)
                bmax = 12
            else:                           # spread over the circle; bins of degrees
                A = [a0, (a0 + 1) % 360, (a0 + rng.choice([2, 3, 5, 7])) % 360, (a0 + rng.choice([10, 20, 30, 45])) % 360,
                     (a0 + 90) % 360, (a0 + rng.choice([120, 135, 150, 179])) % 360, (a0 + 180) % 360, (a0 + 270) % 360]
                base, rho, nbin = (rng.choice([0, 1, 1, 2, 5, 10, 20]), rng.choice([-3, -1, 1, 3])), rng.choice([3, 3, 2, 5]), rng.randrange(1, 5)
                if base[0] == 0:
                    base = (0, abs(base[1]))
                bmax = 4
            edges = [[base[0] * rho ** k, base[1] * rho ** k] for k in range(1, nbin + 2)]
            if tuple(edges[-1]) > (180, 0) or abs(edges[-1][1]) > 30000:
                continue
            n1, n2 = rng.choice([1, 2, 3, 6, 10]), rng.choice([1, 2, 5, 12, 25])
            mk = lambda: [rng.choice(A), rng.randrange(-bmax, bmax + 1)]          # noqa
            p2 = [mk() for _ in range(n2)]
            p1 = [list(p) for p in p2] if rng.random() < 0.15 else [mk() for _ in range(n1)]
            sk = rng.random()
            scale = [] if sk < 0.34 else [rng.choice([1, 2, 3, 4])] if sk < 0.6 else [rng.choice([1, 2, 3, 5]) for _ in p1]
            out.append({"kind": "pairs", "lat": "gc", "p1": p1, "p2": p2, "edges": edges, "scale": scale})
        else:
            coss = [(224, 225), (99, 100), (24, 25), (12, 13), (8, 9), (4, 5), (2, 3), (3, 5), (1, 2), (1, 3), (1, 5), (0, 1),
                    (-1, 5), (-1, 2), (-3, 5), (-4, 5), (-24, 25), (-1, 1)]
            i = rng.randrange(0, len(coss) - 1)
            j = rng.randrange(i + 1, len(coss))
            edges = [list(coss[i]), list(coss[j])]
            n1, n2 = rng.choice([1, 2, 4, 8]), rng.choice([1, 3, 10, 30])
            p2 = [list(rng.choice(rs_pts)) for _ in range(n2)]
            p1 = [list(p) for p in p2] if rng.random() < 0.15 else [list(rng.choice(rs_pts)) for _ in range(n1)]
            ms = [1]
            lastc = F(*coss[j])
            if lastc >= 0:
                ms.append(2)
            if lastc >= F(1, 2) and all(e[1] <= 25 for e in edges):
                ms.append(3)
            sk = rng.random()
            scale = [] if sk < 0.34 else [rng.choice(ms)] if sk < 0.6 else [rng.choice(ms) for _ in p1]
            out.append({"kind": "pairs", "lat": "rs", "p1": p1, "p2": p2, "edges": edges, "scale": scale})
    return out


# =====================================================================================
# representations of the arguments (HtmIdsMC part "reps": one exported row = who is handed over how)
def isolated(fn, arg):
    """fn(arg) in a forked child.  A crash of the interpreter (the C layer reading an array it did not convert)
    is an observation - ("crash", signal) - not the end of the check."""
    r, w = os.pipe()
    pid = os.fork()
    if pid == 0:
        code = 0
        try:
            os.close(r)
            try:
                out = pickle.dumps(("ok", fn(arg)))
            except BaseException as e:  # noqa
                out = pickle.dumps(("exc", _ename(e)))
            with os.fdopen(w, "wb") as f:
                f.write(out)
        except BaseException:  # noqa
            code = 3
        os._exit(code)
    os.close(w)
    with os.fdopen(r, "rb") as f:
        data = f.read()
    _, status = os.waitpid(pid, 0)
    if os.WIFSIGNALED(status):
        return ("crash", signal.Signals(os.WTERMSIG(status)).name)
    if not data:
        return ("crash", "exit %d" % os.WEXITSTATUS(status))
    return pickle.loads(data)


WHOLE_RA = [0.0, 1.0, 10.0, 37.0, 45.0, 89.0, 90.0, 91.0, 135.0, 180.0, 222.0, 270.0, 300.0, 359.0, 360.0]
WHOLE_DEC = [0.0, 1.0, -1.0, 5.0, -17.0, 30.0, 45.0, -45.0, 60.0, 89.0, -89.0, 90.0, -90.0]


def rep_lookup_positions(row, rng):
    odd = row["odd"][1]
    n = 1 if odd in hl.N1_ONLY else 12
    if odd in hl.NEEDS_WHOLE:
        return [(rng.choice(WHOLE_RA), rng.choice(WHOLE_DEC)) for _ in range(n)]
    out = []
    for _ in range(n):
        k = rng.random()
        if k < 0.5:
            out.append((rng.uniform(0.0, 360.0), float(np.degrees(np.arcsin(rng.uniform(-1.0, 1.0))))))
        elif k < 0.8:
            out.append((rng.choice(WHOLE_RA), rng.choice(WHOLE_DEC)))
        else:
            out.append(hl.gc_point(rng.choice(hl.CIRCLES), hl.EPS["1e-3"], (rng.randrange(360), rng.randrange(-2, 3))))
    return out


def _rep_lookup_child(job):
    reps = dict(map(tuple, job["row"]["row"]))
    ra = hl.represent([q[0] for q in job["pts"]], reps["ra"])
    dec = hl.represent([q[1] for q in job["pts"]], reps["dec"])
    out = []
    for d in DEPTHS:
        res = np.asarray(htm(d).lookup_id(ra, dec)).ravel()
        if res.size != len(job["pts"]):
            raise ValueError("shape")
        out.append([int(v) for v in res])
    return out


def run_rep_lookup(job):
    """array call in the row's representation (isolated) against scalar calls with the very same numbers"""
    pts = job["pts"]
    st, val = isolated(_rep_lookup_child, job)
    err = "none" if st == "ok" else "CRASH" if st == "crash" else val
    out = []
    for k, (r, dc) in enumerate(pts):
        rec = {"kind": "lookup", "err": err, "depths": DEPTHS, "ids": [], "sids": [], "rep": job["row"]["row"]}
        if err == "none":
            rec["ids"] = [hl.limbs(val[i][k]) for i in range(len(DEPTHS))]
            rec["sids"] = [hl.limbs(np.asarray(htm(d).lookup_id(r, dc)).ravel()[0]) for d in DEPTHS]
        out.append((rec, {"ra": r, "dec": dc, "layout": "rep", "crash": val if st == "crash" else None}))
        if err != "none":
            break                       # one record says it all
    return out


def rep_pairs_problem(row, rng, rs_pts):
    """a pair-count problem whose numbers survive the row's representations"""
    arg, x, _ = row["odd"]
    n1 = 1 if (x in hl.N1_ONLY and arg in ("ra1", "dec1", "scale")) else rng.choice([2, 3])
    n2 = 1 if (x in hl.N1_ONLY and arg in ("ra2", "dec2", "htmid2")) else rng.choice([4, 6])
    if arg == "scale" and x in hl.NEEDS_WHOLE:
        edges = rng.choice([[[24, 25], [3, 5]], [[4, 5], [0, 1]], [[24, 25], [1, 2]]])
        c = {"kind": "pairs", "lat": "rs", "p1": [list(rng.choice(rs_pts)) for _ in range(n1)],
             "p2": [list(rng.choice(rs_pts)) for _ in range(n2)], "edges": edges, "scale": [rng.choice([1, 2]) for _ in range(n1)]}
        return c, {"circle": 0, "eps": "-", "unit": 6}
    A = [0, 1, 2, 3, 5, 10, 20, 30, 45, 60, 89, 90]
    base, rho, nbin = rng.choice([((1, 1), 3, 3), ((2, -1), 2, 4), ((1, -1), 5, 2), ((5, 1), 3, 2), ((10, -1), 2, 3)])
    edges = [[base[0] * rho ** k, base[1] * rho ** k] for k in range(1, nbin + 2)]
    c = {"kind": "pairs", "lat": "gc", "p1": [[rng.choice(A), 0] for _ in range(n1)], "p2": [[rng.choice(A), 0] for _ in range(n2)],
         "edges": edges, "scale": [rng.choice([1, 2, 3]) for _ in range(n1)]}
    # circles on which whole arcs are whole coordinates: the equator and the meridians 0 / 90
    return c, {"circle": rng.choice([0, 1, 3]), "eps": "1e-3", "unit": rng.choice([1, 2])}


def _rep_pairs_child(a):
    depth, rmin, rmax, nbin, vals, reps = a
    args = {k: hl.represent(vals[k], reps[k], index=k in ("htmid2", "htmrev2")) for k in vals}
    res = htm(depth).bincount(rmin, rmax, nbin, args["ra1"], args["dec1"], args["ra2"], args["dec2"], scale=args["scale"],
                              htmid2=args["htmid2"], htmrev2=args["htmrev2"], minid=min(vals["htmid2"]), maxid=max(vals["htmid2"]))
    return [int(v) for v in np.asarray(res[2]).ravel()]


def run_rep_pairs(job):
    import esutil.stat
    c, conc, row = job["abs"], job["conc"], job["row"]
    lat = c["lat"]
    eps = hl.EPS[conc["eps"]] if lat == "gc" else None
    ra1, dec1 = hl.points(lat, c["p1"], hl.CIRCLES[conc["circle"]], eps)
    ra2, dec2 = hl.points(lat, c["p2"], hl.CIRCLES[conc["circle"]], eps)
    rmin, rmax, nbin, sc = hl.bin_args(lat, c["edges"], c["scale"], eps, conc["unit"])
    ds = _allowed_depths(ra1, ra2, dec2, hl.max_angle_deg(lat, c["edges"], c["scale"], eps), job["cap_pairs"], job["cap_span"])
    depth = ds[job["pick"] % len(ds)]
    h = htm(depth)
    obs = []
    o = {"var": "plain@%d" % depth, "err": "none", "counts": []}
    try:
        o["counts"] = [int(v) for v in np.asarray(h.bincount(rmin, rmax, nbin, np.array(ra1), np.array(dec1), np.array(ra2), np.array(dec2),
                                                             scale=np.array(sc))[2]).ravel()]
        ids = h.lookup_id(np.array(ra2), np.array(dec2))
        rev = esutil.stat.histogram(ids - ids.min(), rev=True)[1]
    except Exception as e:  # noqa
        o["err"] = _ename(e)
    obs.append(o)
    if o["err"] == "none":
        vals = {"ra1": ra1, "dec1": dec1, "ra2": ra2, "dec2": dec2, "scale": sc, "htmid2": [int(v) for v in ids], "htmrev2": [int(v) for v in rev]}
        st, val = isolated(_rep_pairs_child, (depth, rmin, rmax, nbin, vals, dict(map(tuple, row["row"]))))
        obs.append({"var": "rep@%d" % depth, "err": "none" if st == "ok" else "CRASH" if st == "crash" else val,
                    "counts": val if st == "ok" else [], "rep": row["row"]})
    rec = {"kind": "pairs", "lat": lat, "p1": c["p1"], "p2": c["p2"], "edges": c["edges"], "scale": c["scale"], "obs": obs}
    return rec, {"rmin": rmin, "rmax": rmax, "nbin": nbin, "scale_arg": sc, "layout": "rep"}


def _rep_cover_child(a):
    depth, args = a
    h = htm(depth)
    incl = np.asarray(h.intersect(*args))
    full = np.asarray(h.intersect(*args, inclusive=False))
    return incl, full


def run_rep_cover(job):
    """a star circle around a whole-degree centre, the three doubles of intersect handed over as the row says"""
    c, star, row = job["abs"], job["star"], job["row"]
    eps = hl.EPS[job["eps"]]
    cra, cdec = star["centre"]
    pra, pdec = hl.star_points(star["centre"], star["dirs"], c["probes"], eps)
    r = hl.radius_deg("gc", c["rad"], eps)
    d = job["depth"]
    rec = {"kind": "cover", "lat": "gc", "err": "none", "depth": d, "c": c["c"], "rad": c["rad"], "probes": c["probes"],
           "cid": [-1, 0, 0], "pid": [], "listed": False, "incl": [], "full": [], "cin": False, "pin": [], "pfull": [], "rep": row["row"]}
    meta = {"ra": cra, "dec": cdec, "radius": r, "nincl": -1, "nfull": -1}
    reps = dict(map(tuple, row["row"]))
    try:
        args = (hl.represent_scalar(cra, reps["c_ra"]), hl.represent_scalar(cdec, reps["c_dec"]), hl.represent_scalar(r, reps["c_radius"]))
        st, val = isolated(_rep_cover_child, (d, args))
        if st != "ok":
            rec["err"] = "CRASH" if st == "crash" else val
        else:
            incl, full = val
            h = htm(d)
            cid = np.asarray(h.lookup_id(cra, cdec)).ravel()[0]
            pid = np.asarray(h.lookup_id(np.array(pra), np.array(pdec)))
            want = np.unique(np.append(pid, cid))
            in_incl = set(incl[np.isin(incl, want)].tolist())
            in_full = set(full[np.isin(full, want)].tolist())
            rec.update(cid=hl.limbs(cid), pid=[hl.limbs(v) for v in pid], cin=int(cid) in in_incl,
                       pin=[int(v) in in_incl for v in pid], pfull=[int(v) in in_full for v in pid])
            meta["nincl"], meta["nfull"] = int(incl.size), int(full.size)
    except Exception as e:  # noqa
        rec["err"] = _ename(e)
    return rec, meta


def rep_jobs(rows, per_row, rng, B, rs_pts):
    jl, jp, jc = [], [], []
    for row in rows:
        for _ in range(per_row):
            if row["entry"] == "lookup_id":
                jl.append({"row": row, "pts": rep_lookup_positions(row, rng)})
            elif row["entry"] == "bincount":
                c, conc = rep_pairs_problem(row, rng, rs_pts)
                jp.append({"row": row, "abs": c, "conc": conc, "pick": rng.randrange(1 << 20), "cap_pairs": B["cap_pairs"], "cap_span": B["cap_span"]})
            else:
                (c, star), = rand_star_cover(rng, 1)
                star["centre"] = [rng.choice(WHOLE_RA), rng.choice(WHOLE_DEC)]
                job = {"row": row, "abs": c, "star": star, "eps": "1e-3"}
                ds = cover_depths(c, "1e-3", B["cap_cover"] / 10)
                if hl.gc_half(c["rad"], hl.EPS["1e-3"]) < F(1, 10 ** 4) or not ds:
                    continue
                job["depth"] = rng.choice(ds)
                jc.append(job)
    return jl, jp, jc


def _rep_class(entry, odd, clause):
    """coarse signature parts of a representation failure: what went wrong | which kind of argument = which kind of representation"""
    arg, x = odd[0], odd[1]
    grp = {"ra": "coord", "dec": "coord", "ra1": "coord", "dec1": "coord", "ra2": "coord", "dec2": "coord",
           "c_ra": "centre", "c_dec": "centre", "c_radius": "radius"}.get(arg, arg)
    if x in ("strided", "recfield12", "recfield20", "reversed"):
        x = "non_contiguous"
    elif arg == "htmrev2" and x in ("be", "i4", "u8", "list", "tuple", "twod_row"):
        x = "not_native_int64_1d"
    if clause in ("interpreter_crash", "unexpected_error"):
        what = clause
    elif entry == "lookup_id":
        what = "wrong_ids"
    elif entry == "bincount":
        what = "wrong_counts"
    else:
        what = clause
    return what, "%s=%s" % (grp, x)





# =====================================================================================
# class W: sessions over several live HTM objects in one process (HtmIdsWorldMC.tla; executed by vh/htmworld.py)
WORLD_FORMS = {"scalar": ["pyfloat", "npfloat", "zerod"], "array": ["array1", "list1", "arrayN", "reused"]}
WORLD_SCRIPT = os.path.join(os.path.dirname(os.path.dirname(os.path.abspath(__file__))), "htmworld.py")


def _clean_pos(ra, dec):
    return [float(min(360.0, max(0.0, ra))), float(min(90.0, max(-90.0, dec)))]


def world_sessions(cases, n_conc, rng):
    """concretisations of the exported sessions, DESIGNED to collide: the same position handed to objects of different
    depths (adjacent and far apart), twin positions agreeing to 7 / 12 / all but the last digit, twin objects of one depth"""
    out = []
    for c in cases:
        has_cover = any(st["op"] == "intersect" for st in c["steps"])
        for k in range(n_conc):
            dmax = 12 if has_cover else MAXDEPTH
            gap = rng.choice([1, 1, 2, 3, 7])
            d1 = rng.randrange(0, dmax - gap + 1)
            depths = [d1, d1 + gap, d1 + gap][:c["nobj"]]
            if rng.random() < 0.5:
                depths[0], depths[1] = depths[1], depths[0]          # which object is the deeper one
                if len(depths) == 3:
                    depths[2] = depths[1]                            # object 3 stays the twin of object 2
            P = _clean_pos(*rand_centre(rng))
            tw = rng.random()
            if tw < 0.25:
                Q = _clean_pos(*rand_centre(rng))
            elif tw < 0.5:
                Q = _clean_pos(float(np.nextafter(P[0], 400.0 if P[0] < 180 else -1.0)), P[1])
            else:
                rel = 10.0 ** rng.choice([-7, -8, -9, -12])
                Q = _clean_pos(P[0] * (1 + rel) if P[0] > 1 else P[0] + rel, P[1] * (1 - rel) if abs(P[1]) > 1 else P[1] - rel)
            leaf = 90.0 / 2 ** max(depths)
            radius = max(1.5e-4, leaf * rng.uniform(0.5, 3.0))
            steps = []
            for st in c["steps"]:
                st = dict(st)
                if st["op"] == "lookup":
                    st["form"] = rng.choice(WORLD_FORMS[st["mode"]])
                elif st["op"] == "intersect":
                    st["form"] = "pyfloat"
                steps.append(st)
            out.append({"depths": depths, "pos": [P, Q], "radius": radius, "steps": steps,
                        "filler": [_clean_pos(*rand_centre(rng)) for _ in range(rng.choice([2, 5]))]})
    return out


def _world_worker(sessions):
    import subprocess
    import sys
    if not sessions:
        return []
    r = subprocess.run([sys.executable, WORLD_SCRIPT], input="".join(json.dumps(s) + "\n" for s in sessions),
                       capture_output=True, text=True, timeout=3000)
    lines = [ln for ln in r.stdout.splitlines() if ln.strip()]
    if r.returncode != 0 or len(lines) != len(sessions):
        raise MachineryError("world runner failed (rc %s, %d of %d sessions): %s" % (r.returncode, len(lines), len(sessions), r.stderr[-800:]))
    return [json.loads(ln) for ln in lines]


def run_world(sessions):
    """every session in ONE fresh process (a child forked from a process that imported esutil and called nothing)"""
    w = max(1, min(8, os.cpu_count() or 1, int(os.environ.get("VH_MAX_WORKERS", "16")), (len(sessions) + 49) // 50))
    shares = [sessions[i::w] for i in range(w)]
    with ThreadPoolExecutor(w) as ex:
        res = list(ex.map(_world_worker, shares))
    out = [None] * len(sessions)
    for i, part in enumerate(res):
        out[i::w] = part
    return out


def _world_text(s, rec):
    L = []
    for n, (st, c) in enumerate(zip(s["steps"], rec["calls"]), 1):
        if st["op"] == "scribble":
            L.append("%d: caller overwrites the array returned by step %d" % (n, st["target"]))
        else:
            ra, dec = s["pos"][st["pos"] - 1]
            got = (c["id"][0] << 44) + (c["id"][1] << 22) + c["id"][2] if st["op"] == "lookup" else c["dig"]
            fresh = (c["fid"][0] << 44) + (c["fid"][1] << 22) + c["fid"][2] if st["op"] == "lookup" else c["fdig"]
            L.append("%d: HTM(%d)#%d.%s(%r, %r%s) [%s] -> %s %s (fresh process: %s %s)" % (
                n, s["depths"][st["obj"] - 1], st["obj"], "lookup_id" if st["op"] == "lookup" else "intersect", ra, dec,
                "" if st["op"] == "lookup" else ", %r" % s["radius"], st["form"], c["err"], got, c["ferr"], fresh))
    return "; ".join(L)

# =====================================================================================
# judging
def _cover_class(rec, meta):
    return "radius_" + ("small" if meta["radius"] < 0.01 else "above_90" if meta["radius"] > 90 else "large" if meta["radius"] > 45 else "mid")


def _pairs_class(rec, clause):
    if clause.startswith("extra_in_first_bin_with_pairs_below_rmin"):
        return "any_scale"
    sc = rec["scale"]
    return "scale=" + ("none" if not sc else "scalar" if len(sc) == 1 else "array")


def _pairs_detail(rec):
    ok = [o for o in rec["obs"] if o["err"] == "none"]
    ref = ok[0]["counts"] if ok else None
    return {"deviating_from_first": sorted({o["var"] for o in ok if o["counts"] != ref}),
            "errors": sorted({o["err"] for o in rec["obs"] if o["err"] != "none"})}


def judge(ctx, items, what):
    """items: list of (record, meta, replay-case).  TLC judges; this only files what it rejected."""
    recs = []
    for n, (rec, meta, rp) in enumerate(items, 1):
        rec["id"] = n
        recs.append(rec)
    rejects = tracecheck.validate(ctx, "HtmIdsTrace.tla", recs, what=what)
    for rid, failing in sorted(rejects.items()):
        rec, meta, rp = items[rid - 1]
        mach = [f for f in failing if f.startswith("MACHINERY")]
        if mach:
            raise MachineryError("trace record %d (%s) is malformed: %s %s" % (rid, rec["kind"], mach, str(rp)[:400]))
        for cl in failing:
            if rp.get("part") == "reps":
                odd = rp["job"]["row"]["odd"]
                entry = rp["job"]["row"]["entry"]
                sig = "%s|%s|rep:%s" % ((entry,) + _rep_class(entry, odd, cl))
                msg = ("%s with its arguments handed over as %s (all of them carry exactly the numbers of the plain call): clause %s; %s" % (
                    entry, rp["job"]["row"]["row"], cl,
                    [(o["var"], o["err"], o["counts"]) for o in rec["obs"]] if rec["kind"] == "pairs" else
                    {"err": rec["err"], "ra": meta.get("ra"), "dec": meta.get("dec")}))
            elif rec["kind"] == "lookup":
                sig = "lookup_id|%s|%s" % (cl, hl.pos_class(meta["ra"], meta["dec"]))
                msg = "lookup_id ids over depths 0..20 not allowed by HtmIds.tla: clause %s at ra=%r dec=%r" % (cl, meta["ra"], meta["dec"])
            elif rec["kind"] == "cover":
                sig = "intersect|%s|%s" % (cl, _cover_class(rec, meta))
                msg = "intersect(ra=%r, dec=%r, radius=%r) at depth %d violates clause %s (%d listed, %d full)" % (
                    meta["ra"], meta["dec"], meta["radius"], rec["depth"], cl, meta["nincl"], meta["nfull"])
            elif rec["kind"] == "world":
                sig = "world|%s|%s" % (cl, "caller_overwrote_a_result" if any(c["op"] == "scribble" for c in rec["calls"]) else "calls_only")
                msg = ("session over %d live HTM objects (depths %s) in one process violates clause %s: %s" % (
                    len(rec["depths"]), rec["depths"], cl, _world_text(rp["session"], rec)))
            elif rec["kind"] == "scale":
                sig = "bincount|%s|%s" % (cl, _pairs_class(rec, cl))
                msg = ("bincount with a first list of %d points (a %d-point lattice configuration tiled, scale %s) at depth %d: clause %s; "
                       "on the unit %s, on its first %d points %s, on all %d points %s" % (
                           rec["n"], len(rec["p1"]), "none" if not rec["scale"] else "scalar" if len(rec["scale"]) == 1 else "per point",
                           meta["depth"], cl, rec["uobs"], rec["rem"], rec["robs"], rec["n"], rec["bobs"]))
            elif rec["kind"] == "history":
                k = next((n for n, c in enumerate(rec["calls"]) if n >= (1 if cl.startswith("after_overwrite_") else 0)), 0)
                sig = "bincount|%s|%s" % (cl, _pairs_class(rec["calls"][k], cl.replace("after_overwrite_", "")))
                msg = ("history of %d bincount calls on one HTM(%d) object with the same array objects overwritten in place: clause %s; "
                       "per call (rmin, rmax, nbin, scale) %s observed %s" % (
                           len(rec["calls"]), meta["depth"], cl, [(m["rmin"], m["rmax"], m["nbin"], m["scale_arg"]) for m in meta["calls"]],
                           [[(o["var"], o["err"], o["counts"]) for o in c["obs"]] for c in rec["calls"]]))
            else:
                sig = "bincount|%s|%s" % (cl, _pairs_class(rec, cl))
                msg = "bincount(rmin=%r, rmax=%r, nbin=%d, scale=%s) differs from the brute-force count: clause %s; observed %s %s" % (
                    meta["rmin"], meta["rmax"], meta["nbin"], meta["scale_arg"], cl, [(o["var"], o["err"], o["counts"]) for o in rec["obs"]],
                    _pairs_detail(rec))
            if rec["kind"] == "world":
                ctx.violation(sig, msg, dict(rp, observed=rec["calls"]))
                continue
            ctx.violation(sig, msg, dict(rp, observed=rec.get("obs") or ([c["obs"] for c in rec["calls"]] if "calls" in rec else None) or
                                         ({k: rec[k] for k in ("uobs", "robs", "bobs")} if rec["kind"] == "scale" else None) or {k: rec[k] for k in ("ids", "sids") if k in rec} or
                                         {"cin": rec.get("cin"), "pin": rec.get("pin"), "pfull": rec.get("pfull")}))
    return rejects


def _check_star_mapping(seed, n=400):
    """the refinement mapping of the star concretisation validates itself on every run: the longdouble
    separation between the centre and star_point(centre, phi, t) must be t to 1e-12 degree (exit 2 otherwise)"""
    ld = np.longdouble
    d2r = (ld(4) * np.arctan(ld(1))) / ld(180)
    rng = random.Random(seed * 101 + 3)
    worst = 0.0
    for _ in range(n):
        cen = rand_centre(rng)
        phi = rng.choice([0.0, 90.0, 180.0, 270.0, rng.uniform(0, 360)])
        pos = (rng.choice([0, 0, 1, 30, 89, 90, 91, 179, 180, 181, 270, 359]), rng.randrange(-9, 10))
        eps = hl.EPS[rng.choice(["1e-3", "4e-5", "1e-6"])]
        ra, dec = hl.star_point(cen[0], cen[1], phi, pos, eps)
        t = hl.gc_arc(pos, eps)
        t = float(t if t <= 180 else 360 - t)
        a1, d1, a2, d2 = [ld(x) * d2r for x in (cen[0], cen[1], ra, dec)]
        v1 = np.array([np.cos(d1) * np.cos(a1), np.cos(d1) * np.sin(a1), np.sin(d1)])
        v2 = np.array([np.cos(d2) * np.cos(a2), np.cos(d2) * np.sin(a2), np.sin(d2)])
        cr = np.cross(v1, v2)
        worst = max(worst, abs(float(np.arctan2(np.sqrt((cr * cr).sum()), (v1 * v2).sum()) / d2r) - t))
    if not worst <= 1e-12:
        raise MachineryError("star concretisation is off by %g degree" % worst)
    return worst


def _tlc_batch(ctx, jobs, width=4):
    """several independent TLC runs side by side (each is its own JVM)"""
    n0 = len(ctx.tlc_runs)
    with ThreadPoolExecutor(width) as ex:
        futs = [ex.submit(lambda kw=kw: ctx.tlc(kw.get("module", "HtmIdsMC.tla"), **{k: v for k, v in kw.items() if k != "module"})) for kw in jobs]
        res = [f.result() for f in futs]
    ctx.tlc_runs[n0:] = sorted(ctx.tlc_runs[n0:], key=lambda r: r["what"])      # completion order is not deterministic
    return res


def _consts(B, **kw):
    c = dict(Part="ids", Lat="gc", Scope=B["Scope"], FullDepth=B["FullDepth"], MaxDepth=MAXDEPTH, Levels=B["Levels"],
             MaxN1=B["MaxN1"], MaxN2=B["MaxN2"], Deviation="none", DoExport=False, HistN2=B["HistN2"], HistCalls=B["HistCalls"], ScaleSizes=set(B["ScaleSizes"]))
    c.update(kw)
    return c


# =====================================================================================
def run(ctx):
    B = BOUNDS[ctx.tier]
    only = getattr(ctx, "only", None)
    want = lambda part: (not only) or part in only          # noqa
    rng = random.Random(ctx.seed * 1000003 + 17)
    rs_pts = [list(p) for p in hl.pythagorean_points(15)]

    # ---- 1. design level: theorems + mechanism refinement, exhaustive in the scope -----------------
    small = dict(B, FullDepth=2, Levels=1, MaxN1=1, MaxN2=2, Scope="q", HistN2=1, HistCalls=2)
    histB = dict(B, Scope="q")            # histories: small position catalogue, more calls instead
    jobs = [
        dict(what="ids: digit strings <-> numeric range, parent = div 4, name mechanism (depth 0..20)",
             cfg_text=cfg(constants=_consts(B, Part="ids"), invariants=["IdsTheorems", "IdsSmall", "IdsMechRefines"]),
             workers=4, require=["IdsRoot", "IdsDescend"], timeout=3000),
        dict(what="cover: classification recursion refines the three cover clauses; case catalogue gc",
             cfg_text=cfg(constants=_consts(B, Part="cover", Lat="gc"), invariants=["CoverMechRefines", "CoverCaseSane"]),
             workers=4, require=["CoverChoose", "CoverStep", "CoverDone", "CoverCase"], timeout=3000),
        dict(what="cover: case catalogue rs", cfg_text=cfg(constants=_consts(small, Part="cover", Lat="rs", Scope=B["Scope"]),
                                                          invariants=["CoverCaseSane"]),
             workers=4, require=["CoverCase"], timeout=3000),
        dict(what="pairs gc: cbincount mechanism refines brute force; reference accepted",
             cfg_text=cfg(constants=_consts(B, Part="pairs", Lat="gc"), invariants=["PairMechRefines", "PairRefAccepted", "PairAdditive"]),
             workers=4, require=["ChooseP2", "ChooseP1", "ChooseBins", "ChooseScale", "MechStep", "MechDone"], timeout=3000),
        dict(what="pairs rs: cbincount mechanism refines brute force; reference accepted",
             cfg_text=cfg(constants=_consts(B, Part="pairs", Lat="rs"), invariants=["PairMechRefines", "PairRefAccepted", "PairAdditive"]),
             workers=4, require=["ChooseP2", "ChooseP1", "ChooseBins", "ChooseScale", "MechStep", "MechDone"], timeout=3000),
        dict(what="hist gc: (Overwrite ; Bincount)* on one object, every call equals brute force on its own contents",
             cfg_text=cfg(constants=_consts(histB, Part="hist", Lat="gc"), invariants=["HistMechRefines"]),
             workers=4, require=["HStart", "HOverwrite", "HBincount"], timeout=3000),
        dict(what="hist rs: (Overwrite ; Bincount)* on one object, every call equals brute force on its own contents",
             cfg_text=cfg(constants=_consts(histB, Part="hist", Lat="rs"), invariants=["HistMechRefines"]),
             workers=4, require=["HStart", "HOverwrite", "HBincount"], timeout=3000),
        dict(what="big gc: additivity law on two tiles + remainder of every scale case",
             cfg_text=cfg(constants=_consts(histB, Part="big", Lat="gc", Scope=B["Scope"]), invariants=["ScaleLaw"]),
             workers=4, require=["ChooseScaleCase"], timeout=3000),
        dict(what="big rs: additivity law on two tiles + remainder of every scale case",
             cfg_text=cfg(constants=_consts(histB, Part="big", Lat="rs", Scope=B["Scope"]), invariants=["ScaleLaw"]),
             workers=4, require=["ChooseScaleCase"], timeout=3000),
        dict(what="reps: covering design of argument representations (entry point x argument x representation x partner)",
             cfg_text=cfg(constants=_consts(small, Part="reps"), invariants=["RepDesignOK", "RepRowSane"]),
             workers=2, require=["ChooseRep"], timeout=600),
    ]
    wobj, wcalls = B["WorldMC"]
    jobs.append(dict(module="HtmIdsWorldMC.tla", what="world: sessions over %d live objects x %d steps (scalar/array lookups, intersect, Scribble) = fresh world" % (wobj, wcalls),
                     cfg_text=cfg(constants=dict(NObj=wobj, NCalls=wcalls, Deviation="none", DoExport=False),
                                  invariants=["WorldRefines", "WorldResultsAreCallers", "WorldIdsSane"]),
                     workers=4, require=["Call", "Scribble"], timeout=3000))
    n_main = len(jobs)
    selftests = [("hist", "stale_cache", "HistMechRefines"), ("ids", "miss_level", "IdsMechRefines"), ("cover", "no_inner_test", "CoverMechRefines"),
                 ("cover", "no_hole_test", "CoverMechRefines"), ("pairs", "trunc_toward_zero", "PairMechRefines"),
                 ("pairs", "lossy_cover", "PairMechRefines"), ("pairs", "maxid_exclusive", "PairMechRefines")]
    for part, dev, inv in selftests:
        jobs.append(dict(what="self-test: deviation %s violates %s" % (dev, inv),
                         cfg_text=cfg(constants=_consts(small, Part=part, Deviation=dev, MaxDepth=6), invariants=[inv]),
                         workers=1, allow_violation=True, coverage=False, timeout=600))
    world_selftests = ["memo_without_depth", "memo_own_storage"]
    for dev in world_selftests:
        jobs.append(dict(module="HtmIdsWorldMC.tla", what="self-test: world deviation %s violates WorldRefines" % dev,
                         cfg_text=cfg(constants=dict(NObj=2, NCalls=3, Deviation=dev, DoExport=False), invariants=["WorldRefines"]),
                         workers=1, allow_violation=True, coverage=False, timeout=600))
    exports = [dict(what="export circles %s" % lat,
                    cfg_text=cfg(constants=_consts(B, Part="cover", Lat=lat, DoExport=True), next_="NextExport", constraints=["Export"]),
                    workers=1, coverage=False, timeout=3000) for lat in ("gc", "rs")]
    exports += [dict(what="export pair-count problems %s" % lat,
                     cfg_text=cfg(constants=_consts(B, Part="pairs", Lat=lat, DoExport=True), next_="NextExport", constraints=["Export"]),
                     workers=1, coverage=False, timeout=3000) for lat in ("gc", "rs")]
    exports += [dict(what="export bincount histories %s" % lat,
                     cfg_text=cfg(constants=_consts(histB, Part="hist", Lat=lat, DoExport=True), next_="NextExport", constraints=["Export"]),
                     workers=1, coverage=False, timeout=3000) for lat in ("gc", "rs")]
    exports += [dict(what="export scale cases %s" % lat,
                     cfg_text=cfg(constants=_consts(histB, Part="big", Lat=lat, Scope=B["Scope"], DoExport=True), next_="NextExport", constraints=["Export"]),
                     workers=1, coverage=False, timeout=3000) for lat in ("gc", "rs")]
    exports.append(dict(what="export representation rows", cfg_text=cfg(constants=_consts(small, Part="reps", DoExport=True), next_="NextExport",
                                                                    constraints=["Export"]), workers=1, coverage=False, timeout=600))
    exports.append(dict(module="HtmIdsWorldMC.tla", what="export world sessions",
                        cfg_text=cfg(constants=dict(NObj=B["WorldObj"], NCalls=B["WorldCalls"], Deviation="none", DoExport=True), constraints=["Export"]),
                        workers=1, coverage=False, timeout=3000))
    if want("mc"):
        res = _tlc_batch(ctx, jobs)
        for (part, dev, inv), r in zip(selftests, res[n_main:]):
            if inv not in r.violated:
                raise MachineryError("self-test failed: deviation %s does not violate %s" % (dev, inv))
        for dev, r in zip(world_selftests, res[n_main + len(selftests):]):
            if "WorldRefines" not in r.violated:
                raise MachineryError("self-test failed: world deviation %s does not violate WorldRefines" % dev)
    ex = _tlc_batch(ctx, exports)
    cases = [c for r in ex for c in r.records.get("CASE", [])]
    cover_cases = [c for c in cases if c["kind"] == "cover"]
    pairs_cases = [c for c in cases if c["kind"] == "pairs"]
    hist_cases = [c for c in cases if c["kind"] == "history"]
    rep_rows = [c for c in cases if c["kind"] == "reps"]
    scale_cases = [c for c in cases if c["kind"] == "scale"]
    world_cases = [c for c in cases if c["kind"] == "world"]
    if not world_cases:
        raise MachineryError("no world sessions exported")
    if not cover_cases or not pairs_cases or not hist_cases or not rep_rows or not scale_cases or {c["lat"] for c in cases if "lat" in c} != {"gc", "rs"}:
        raise MachineryError("no cases exported (%d circles, %d pair problems)" % (len(cover_cases), len(pairs_cases)))

    ctx.note(star_mapping_worst_deviation_deg=_check_star_mapping(ctx.seed))
    items_probe = {}        # one accepted record per kind for the binding self-test

    # ---- 2. lookup_id: code -> spec -------------------------------------------------------------
    n_lookup = 0
    if want("lookup"):
        pts = lookup_positions(B, ctx.seed)
        blocks = [(bi, pts[k:k + 97]) for bi, k in enumerate(range(0, len(pts), 97))]
        out = [x for blk in pmap(lookup_block, blocks) for x in blk]
        items = [(rec, meta, {"part": "lookup", "ra": meta["ra"], "dec": meta["dec"]}) for rec, meta in out]
        for rec, meta, rp in items:
            ctx.count(rp)
        ctx.evaluations += len(items) * (2 * len(DEPTHS) - 1)
        ctx.sample({"lookup_id": {"ra": items[0][1]["ra"], "dec": items[0][1]["dec"]}, "ids_depth_0_3_as_limbs": items[0][0]["ids"][:4]})
        rej = judge(ctx, items, "judge lookup_id ladders (HtmIdsTrace)")
        n_lookup = len(items)
        items_probe["lookup"] = next((it for it in items if it[0]["id"] not in rej and it[0]["err"] == "none"), None)

    # ---- 2w. world: sessions over several live HTM objects, each in one fresh process ------------------------------
    n_world = 0
    if want("world") or want("lookup"):
        sess = world_sessions(world_cases, B["world_conc"], rng)
        out = run_world(sess)
        items = [(rec, {"depths": s_["depths"]}, {"part": "world", "session": s_}) for rec, s_ in zip(out, sess)]
        for rec, meta, rp in items:
            ctx.count(rp["session"])
            ctx.evaluations += 2 * sum(1 for c in rec["calls"] if c["op"] != "scribble") - 1
        smp = items[0]
        ctx.sample({"world_session": smp[2]["session"], "observed": smp[0]["calls"]})
        rej = judge(ctx, items, "judge sessions over several HTM objects (HtmIdsTrace)")
        n_world = len(items)

        def collides(rec):
            L = [c for c in rec["calls"] if c["op"] == "lookup" and c["err"] == "none" and c["mode"] == "scalar"]
            return any(a["pos"] == b["pos"] and rec["depths"][a["obj"] - 1] != rec["depths"][b["obj"] - 1] for a in L for b in L)
        if not any(collides(it[0]) for it in items) or not any(c["op"] == "scribble" for it in items for c in it[0]["calls"]) \
                or not any(c["op"] == "intersect" and c["err"] == "none" and c["dig"] and c["dig"][0] > 0 for it in items for c in it[0]["calls"]):
            raise MachineryError("vacuous: world sessions without colliding scalar lookups / scribbles / non-empty intersects")
        ctx.note(world_sessions=n_world, world_exported=len(world_cases))
        items_probe["world"] = next((it for it in items if it[0]["id"] not in rej and collides(it[0])), None)

    # ---- 3. intersect: spec -> code (exported circles) and code -> spec (seeded larger ones) ----------
    n_cover = 0
    if want("cover"):
        jobsC = []
        for c in cover_cases:
            jobsC += concretise_cover(c, B["cover_conc"], rng, B["cap_cover"])
        for c in rand_cover_cases(rng, B["cover_rand"], "gc", rs_pts) + rand_cover_cases(rng, B["cover_rs_rand"], "rs", rs_pts):
            jobsC += concretise_cover(c, 2, rng, B["cap_cover"])
        for c, star in rand_star_cover(rng, B["cover_star"]):
            jobsC += concretise_cover(c, 1, rng, B["cap_cover"], star=star)
        jobsC += deep_cover_jobs(rng, B["deep_star"], B["cap_cover"])
        if not jobsC:
            raise MachineryError("no circle could be concretised")
        _check_trixel_geometry(ctx.seed)
        out = pmap(run_cover_any, jobsC)
        items = [(rec, meta, {"part": "cover", "job": job}) for (rec, meta), job in zip(out, jobsC)]
        for rec, meta, rp in items:
            ctx.count({"c": rec["c"], "rad": rec["rad"], "lat": rec["lat"], "circle": rp["job"].get("circle"), "centre": rp["job"].get("centre"),
                       "eps": rp["job"]["eps"], "depth": rec["depth"]})
        ctx.sample({"intersect": {"ra": items[0][1]["ra"], "dec": items[0][1]["dec"], "radius": items[0][1]["radius"], "depth": items[0][0]["depth"]},
                    "n_listed": items[0][1]["nincl"], "n_full": items[0][1]["nfull"], "probes": len(items[0][0]["probes"])})
        rej = judge(ctx, items, "judge circle covers (HtmIdsTrace)")
        n_cover = len(items)
        depths_seen = sorted({it[0]["depth"] for it in items})
        if not any(it[0]["listed"] for it in items) or not any(not it[0]["listed"] for it in items):
            raise MachineryError("cover records: both written-out and projected lists are required")
        if not any(any(it[0]["pfull"]) for it in items):
            raise MachineryError("vacuous: no probe ever fell into a full triangle")
        ctx.note(cover_depths=depths_seen)
        deep = [it for it in items if it[0]["depth"] >= 13]
        if len({it[0]["depth"] for it in deep}) < 10 or sum(it[1].get("targeted", 0) for it in deep) < len(deep) \
                or not any(any(it[0]["pfull"]) for it in deep):
            raise MachineryError("vacuous: deep circles (depth 13..24) missing, or without targeted probes in full triangles")
        ctx.note(deep_circles=len(deep), targeted_probes=sum(it[1].get("targeted", 0) for it in deep))
        items_probe["cover"] = next((it for it in items if it[0]["id"] not in rej and it[0]["err"] == "none" and it[0]["lat"] == "gc"
                                    and it[0]["c"] in it[0]["probes"] and it[0]["pin"][it[0]["probes"].index(it[0]["c"])]), None)

    # ---- 4. bincount ------------------------------------------------------------------------------------
    n_pairs = 0
    if want("pairs"):
        jobsP = []
        for c in pairs_cases:
            jobsP += concretise_pairs(c, 1, rng, B)
        for c in rand_pairs_cases(rng, B["pairs_rand"], "gc", rs_pts) + rand_pairs_cases(rng, B["pairs_rs_rand"], "rs", rs_pts):
            jobsP += concretise_pairs(c, 1, rng, B)
        for c, star in rand_star_pairs(rng, B["pairs_star"]):
            jobsP += concretise_pairs(c, 1, rng, B, star=star)
        out = pmap(run_pairs, jobsP)
        items = [(rec, meta, {"part": "pairs", "job": job}) for (rec, meta), job in zip(out, jobsP)]
        for rec, meta, rp in items:
            ctx.count({k: rec[k] for k in ("lat", "p1", "p2", "edges", "scale")})
        ctx.evaluations += 3 * len(items)
        smp = next((it for it in items if len(it[0]["p2"]) >= 2 and it[0]["scale"] and any(sum(o["counts"]) > 0 for o in it[0]["obs"])), items[0])
        ctx.sample({"bincount": {k: smp[0][k] for k in ("lat", "p1", "p2", "edges", "scale")}, "concretisation": {k: smp[2]["job"][k] for k in ("circle", "eps", "unit")},
                    "call": {k: smp[1][k] for k in ("rmin", "rmax", "nbin", "scale_arg")}, "observed": smp[0]["obs"]})
        rej = judge(ctx, items, "judge pair counts against brute force (HtmIdsTrace)")
        n_pairs = len(items)
        if not any(sum(o["counts"]) > 0 for it in items for o in it[0]["obs"] if o["err"] == "none"):
            raise MachineryError("vacuous: no pair was ever counted")
        seenv = {o["var"].split("@")[0] for it in items for o in it[0]["obs"]}
        if not set(VARIANTS) <= seenv:
            raise MachineryError("ways of calling never exercised: %s" % (set(VARIANTS) - seenv))
        items_probe["pairs"] = next((it for it in items if it[0]["id"] not in rej and all(o["err"] == "none" for o in it[0]["obs"])
                                     and sum(it[0]["obs"][0]["counts"]) > 0), None)

    # ---- 4b. histories on one HTM object with re-used, overwritten buffers ----------------------------------
    n_hist = 0
    if want("pairs") or want("hist"):
        jobsH = []
        for c in hist_cases + rand_history_cases(rng, B["hist_rand"], "gc", rs_pts) + rand_history_cases(rng, B["hist_rs_rand"], "rs", rs_pts):
            jobsH += concretise_history(c, rng, B)
        out = pmap(run_history, jobsH)
        items = [(rec, meta, {"part": "history", "job": job}) for (rec, meta), job in zip(out, jobsH)]
        for rec, meta, rp in items:
            ctx.count({"lat": rec["lat"], "calls": [{k: cl[k] for k in ("p1", "p2", "edges", "scale")} for cl in rec["calls"]]})
            ctx.evaluations += 4 * len(rec["calls"]) - 1
        rej = judge(ctx, items, "judge bincount histories on one object (HtmIdsTrace)")
        n_hist = len(items)
        if not any(sum(o["counts"]) > 0 for it in items for cl in it[0]["calls"][1:] for o in cl["obs"] if o["err"] == "none"):
            raise MachineryError("vacuous: no call after an overwrite ever counted a pair")
        items_probe["history"] = next((it for it in items if it[0]["id"] not in rej and len(it[0]["calls"]) >= 2
                                       and all(o["err"] == "none" for cl in it[0]["calls"] for o in cl["obs"])), None)

    # ---- 4s. scale: first lists of 10^5 .. 10^6 points, judged through the additivity law ---------------------------
    n_scale = 0
    if want("pairs") or want("scale"):
        jobsS = []
        for c in scale_cases:
            jobsS += concretise_scale(c, rng, B)
        jobsS.sort(key=lambda j: -j["abs"]["n"])
        out = pmap_small(run_scale, jobsS)
        items = [(rec, meta, {"part": "scale", "job": job}) for (rec, meta), job in zip(out, jobsS)]
        for rec, meta, rp in items:
            ctx.count({k: rec[k] for k in ("lat", "p1", "p2", "edges", "scale", "n")})
            ctx.evaluations += 2
        judge(ctx, items, "judge large first lists through the additivity law (HtmIdsTrace)")
        n_scale = len(items)
        if not any(len(it[0]["scale"]) > 1 and sum(it[0]["bobs"]["counts"]) > 0 for it in items):
            raise MachineryError("vacuous: no large first list with a per-point scale counted a pair")
        ctx.note(scale_cases=n_scale, scale_sizes=sorted(B["ScaleSizes"]))

    # ---- 4c. representations: every exported row of the covering design, replayed on a few problems each -------------
    n_reps = 0
    if want("reps"):
        jl, jp, jc = rep_jobs(rep_rows, B["reps_per_row"], rng, B, rs_pts)
        items = []
        for job, out in zip(jl, pmap(run_rep_lookup, jl)):
            items += [(rec, meta, {"part": "reps", "job": job}) for rec, meta in out]
        for job, (rec, meta) in zip(jp, pmap(run_rep_pairs, jp)):
            items.append((rec, meta, {"part": "reps", "job": job}))
        for job, (rec, meta) in zip(jc, pmap(run_rep_cover, jc)):
            items.append((rec, meta, {"part": "reps", "job": job}))
        for rec, meta, rp in items:
            ctx.count({"row": rp["job"]["row"]["row"], "entry": rp["job"]["row"]["entry"], "case": rp["job"].get("pts") or rp["job"].get("abs")})
        n_ok = sum(1 for rec, _, _ in items if (rec.get("err", "none") == "none" and all(o["err"] == "none" for o in rec.get("obs", []))))
        rej = judge(ctx, items, "judge representation rows (HtmIdsTrace)")
        n_reps = len(items)
        seen = {(rp["job"]["row"]["entry"], tuple(rp["job"]["row"]["odd"])) for _, _, rp in items}
        if len(seen) < len(rep_rows) or n_ok < len(items) // 2:
            raise MachineryError("representation rows not exercised: %d of %d rows, %d of %d calls returned" % (len(seen), len(rep_rows), n_ok, len(items)))
        ctx.note(representation_rows=len(rep_rows), representation_records=n_reps, representation_calls_returned=n_ok)

    # ---- 5. binding self-test: one corrupted observation per kind must be rejected, its original accepted ----
    import copy
    probe = []
    expect = {}
    if items_probe.get("lookup"):
        good = copy.deepcopy(items_probe["lookup"][0])
        bad = copy.deepcopy(good)
        bad["ids"][7] = [bad["ids"][7][0], bad["ids"][7][1], bad["ids"][7][2] ^ 1]
        probe += [good, bad]
        expect[len(probe)] = {"not_child_of_parent", "scalar_ne_array"}
    if items_probe.get("cover"):
        good = copy.deepcopy(items_probe["cover"][0])
        bad = copy.deepcopy(good)
        k = bad["probes"].index(bad["c"])          # the centre itself is among the probes: strictly inside
        bad["pin"][k] = False
        bad["listed"] = False
        bad["incl"], bad["full"] = [], []
        probe += [good, bad]
        expect[len(probe)] = {"inside_position_not_listed"}
    if items_probe.get("pairs"):
        good = copy.deepcopy(items_probe["pairs"][0])
        bad = copy.deepcopy(good)
        for o in bad["obs"]:
            o["counts"][-1] += 1
        probe += [good, bad]
        expect[len(probe)] = {"extra_in_first_bin", "extra_in_first_bin_with_pairs_below_rmin", "extra_in_later_bin"}
    if items_probe.get("history"):
        good = copy.deepcopy(items_probe["history"][0])
        bad = copy.deepcopy(good)
        for o in bad["calls"][1]["obs"]:
            o["counts"][-1] += 1
        probe += [good, bad]
        expect[len(probe)] = {"after_overwrite_extra_in_first_bin", "after_overwrite_extra_in_first_bin_with_pairs_below_rmin",
                              "after_overwrite_extra_in_later_bin"}
    if items_probe.get("world"):
        good = copy.deepcopy(items_probe["world"][0])
        bad = copy.deepcopy(good)
        L = [c for c in bad["calls"] if c["op"] == "lookup" and c["mode"] == "scalar"]
        x, y = next((a_, b_) for a_ in L for b_ in L if a_["pos"] == b_["pos"] and bad["depths"][a_["obj"] - 1] != bad["depths"][b_["obj"] - 1])
        y["id"] = list(x["id"])                     # the other object's answer
        probe += [good, bad]
        expect[len(probe)] = {"session_id_out_of_range_for_its_depth"}
    if probe:
        for n, r in enumerate(probe, 1):
            r["id"] = n
        saved = ctx.traces
        rej = tracecheck.validate(ctx, "HtmIdsTrace.tla", probe, what="self-test: corrupted records rejected", workers=1)
        ctx.traces = saved
        for n in range(1, len(probe) + 1):
            if n in expect:
                if n not in rej or not (set(rej[n]) & expect[n]):
                    raise MachineryError("binding self-test failed: corrupted %s record not rejected (%s)" % (probe[n - 1]["kind"], rej))
            elif n in rej:
                raise MachineryError("binding self-test failed: the uncorrupted record was rejected (%s)" % rej)

    ctx.rule = ("ids: every position of the great-circle lattice on %d great circles (equator, meridians, 3 tilted), the rational "
                "sphere (d<=15), poles/octant corners/seam and %d seeded random positions, each looked up at every depth 0..20 as "
                "array element and as scalar (%d positions); circles: every (centre, radius) of the %s catalogue on both lattices "
                "x %d concretisations (circle, eps, depth 1..12 within %.0e trixels) + %d seeded circles (of which %d around arbitrary, "
                "also off-lattice, centres with probes on 8..24 rays), 37..414 probes each (%d circle records); pair counts: every (p2, p1, bins, scale) exported from HtmIdsMC.tla for |p2|<=%d, |p1|<=%d or "
                "p1=p2 on both lattices + %d seeded problems up to 10 x 30 points (of which %d one-to-many around arbitrary centres; %d problems, 4 ways "
                "of calling each); histories: every (Overwrite ; Bincount)^%d of HtmIdsMC.tla part hist + %d seeded histories of 3..5 calls on one "
                "HTM object with the same ndarray objects overwritten in place (%d histories); representations: every row of the covering "
                "design of HtmIdsMC.tla part reps (entry point x argument x 7..16 representations x contiguous/strided partner, %d rows) x %d "
                "problems; world: every colliding session of HtmIdsWorldMC.tla (%d live objects x %d steps: scalar / array lookup_id, "
                "intersect, Scribble) x %d concretisations (depth pairs, twin positions, argument forms), each in one fresh process "
                "(%d sessions); a case "
                "is distinct by its abstract record + concretisation" %
                (len(hl.CIRCLES), B["n_random_pts"], n_lookup, B["Scope"], B["cover_conc"], B["cap_cover"],
                 B["cover_rand"] + B["cover_rs_rand"] + B["cover_star"], B["cover_star"], n_cover, B["MaxN2"], B["MaxN1"],
                 B["pairs_rand"] + B["pairs_rs_rand"] + B["pairs_star"], B["pairs_star"], n_pairs,
                 B["HistCalls"], B["hist_rand"] + B["hist_rs_rand"], n_hist, len(rep_rows), B["reps_per_row"],
                 B["WorldObj"], B["WorldCalls"], B["world_conc"], n_world))
    ctx.exhaustive = True
    ctx.note(bounds={k: v for k, v in B.items()}, exported_circles=len(cover_cases), exported_pair_problems=len(pairs_cases),
             lookup_positions=n_lookup, circle_records=n_cover, pair_records=n_pairs, history_records=n_hist, exported_histories=len(hist_cases))
    ctx.assumptions = [
        "great-circle lattice: a position is a + b*eps degrees along one great circle; coordinates are correctly rounded (equator, "
        "meridians) or carry <= 3e-14 degree (tilted circles); a probe is at least eps/2 >= 2e-5 degree from every circle boundary and "
        "a pair at least 1e-8 relative from every bin edge it is not exactly on, so inside/outside and the bin are decided by integer "
        "arithmetic; positions exactly on a boundary / edge are unconstrained",
        "star cases: the centre is any double (ra, dec); probes / second-set points are placed a + b*eps degrees from it along rays "
        "(longdouble, validated each run to 1e-12 degree); only separations from the centre enter the judged clauses",
        "pair counts: the largest search angle rmax/scale is kept within 1e-4..180 degrees (the statement's circle radii; below ~1e-6 "
        "degree cos(angle) rounds to 1 and the library's circle degenerates - not judged)",
        "rational sphere: cosines of separations and radii are exact rationals (one logarithmic bin there: a geometric progression of "
        "angles with rational cosines does not exist)",
        "intersect lists longer than %d ids are projected onto the probes by numpy.isin; shorter ones are written out and the "
        "projection is re-derived by TLC" % LIST_MAX,
        "depth/radius and depth/angle combinations are limited to %.0e trixels per circle (cover) and %.0e per first-set point (pair "
        "counts); general position off the lattices is not decided (HTM vertices are irrational)" % (B["cap_cover"], B["cap_pairs"]),
    ]
    ctx.trusted_base = ctx.trusted_base + ["longdouble sin/cos/atan2/asin/acos for tilted-circle and rational-sphere coordinates (refinement mapping only)"]


def replay(ctx, case):
    part = case["part"]
    if part == "lookup":
        (rec, meta), = lookup_block((0, [(case["ra"], case["dec"])]))
        items = [(rec, meta, {"part": "lookup", "ra": case["ra"], "dec": case["dec"]})]
    elif part == "cover":
        rec, meta = run_cover_any(case["job"])
        items = [(rec, meta, {"part": "cover", "job": case["job"]})]
    elif part == "scale":
        job = dict(case["job"])
        if isinstance(job["unit"], str):
            job["unit"] = F(job["unit"])
        rec, meta = run_scale(job)
        items = [(rec, meta, {"part": "scale", "job": case["job"]})]
    elif part == "reps":
        job = case["job"]
        e = job["row"]["entry"]
        if e == "lookup_id":
            job = dict(job, pts=[tuple(q) for q in job["pts"]])
            items = [(rec, meta, {"part": "reps", "job": case["job"]}) for rec, meta in run_rep_lookup(job)]
        else:
            rec, meta = (run_rep_pairs if e == "bincount" else run_rep_cover)(job)
            items = [(rec, meta, {"part": "reps", "job": case["job"]})]
    elif part == "world":
        rec, = run_world([case["session"]])
        items = [(rec, {"depths": case["session"]["depths"]}, {"part": "world", "session": case["session"]})]
    elif part == "history":
        job = dict(case["job"])
        if isinstance(job["unit"], str):
            job["unit"] = F(job["unit"])
        rec, meta = run_history(job)
        items = [(rec, meta, {"part": "history", "job": case["job"]})]
    else:
        job = dict(case["job"])
        if isinstance(job["unit"], str):
            job["unit"] = F(job["unit"])
        rec, meta = run_pairs(job)
        items = [(rec, meta, {"part": "pairs", "job": case["job"]})]
    print("replay observed:", {k: v for k, v in items[0][0].items() if k in ("obs", "ids", "sids", "cin", "pin", "pfull", "err", "calls", "uobs", "robs", "bobs")})
    judge(ctx, items, "replay")
