"""C14 - per-bin statistics and equal-occupancy bins equal direct computation.

spec -> code : BinStatsMC.tla enumerates every case of the bounded space (data x bin
               specification with derived second variable / weights; every (x, y, w) triple
               under a few specifications), runs the mechanisms (histogram pass, _hist_by_num,
               _merge_last, the calc_stats loop) as actions against the property-level
               definitions, and exports the cases; each is concretised on a dyadic lattice and
               executed through esutil.stat.histogram(more=True / weights=) and
               esutil.stat.Binner (fresh and re-used objects, dohist + calc_stats), both engines.
code -> spec : what the real code returned (every key of the result dictionary, per bin) is
               written as ndjson and judged by BinStatsTrace.tla (BFailing of BinStats.tla);
               larger seeded arrays go the same way.
Python never judges a statistic: it maps abstract <-> concrete, projects observed floats onto
lattice rationals (vh.ratproj) and records.  The one relation compared directly is
"both engines return bit-identical dictionaries" (two implementation outputs).
"""
import copy
import os
import random
import warnings
from fractions import Fraction as Fr

import numpy as np

from .. import tracecheck
from ..core import MachineryError
from ..par import pmap
from ..ratproj import real, need_den
from ..tlc import cfg

NEEDS_EXT = True

SENTINEL = -9999.0
# development aid: VH_C14_STRICT=1 judges under the other reading of the statement (weighted error estimates of a
# one-member bin constrained to sqrt(1/w) and 0); the registered commands never set it
STRICT = os.environ.get("VH_C14_STRICT") == "1"
# werr2 (sum(w^2 ..)-type estimate) is judged also at weight scales where w^2 leaves binary64 (the estimate is scale invariant;
# the defect the first such run found is repaired in /repo, see known_findings.json); VH_C14_ERR2X=0 switches that judgement off
ERR2X = os.environ.get("VH_C14_ERR2X", "1") == "1"
TRACE_CONSTS = {"StrictOneMember": STRICT, "JudgeErr2Extreme": ERR2X}

# lattice concretisations: value = (x + off) * unit, second variable (y + yoff) * yunit, weight = w * wunit
# (units dyadic); entries: (unit, off, wunit, dtype, yunit, yoff, ydtype)
_BASE = [
    (1.0, 0, 1.0, "f8"), (0.5, -3, 0.25, "f8"), (4.0, 2, 8.0, "f8"), (2.0 ** -10, 0, 2.0 ** -3, "f8"),
    (1, 0, 1, "i8"), (8.0, -6, 1.0, "f8"), (1.0, 5, 2.0 ** 10, "f8"), (1, -2, 1, "i8"), (0.25, 1, 2.0, "f4"),
]
NBASE = len(_BASE)
CONC = [e + (_BASE[(k + 3) % NBASE][0], _BASE[(k + 3) % NBASE][1], _BASE[(k + 3) % NBASE][3]) for k, e in enumerate(_BASE)]
# large-offset lattices: the data sit at |value| up to 2^40 lattice units with order-one scatter (timestamps,
# coordinates); every value, limit and bin size is still exactly representable, differences of data are exact, so the
# binning is the one of the un-offset integers and the exact expectations of BinStats.tla are unchanged: value-type
# quantities are shifted back by the projection, deviation-type quantities are shift invariant.
CONC += [
    (1.0, 2 ** 40, 1.0, "f8", 1.0, 0, "f8"),                        # x large
    (0.5, -3, 0.25, "f8", 1.0, 2 ** 40 - 7, "f8"),                   # y large
    (1.0, 10 ** 8, 2.0, "f8", 1.0, 10 ** 8 + 1, "f8"),               # both ~1e8
    (2.0 ** -6, 2 ** 33 + 5, 1.0, "f8", 0.5, 2 ** 36, "f8"),         # both, other units
    (1, 2 ** 40, 1, "i8", 1, -(2 ** 38), "i8"),                      # integer input, negative large y
    (4.0, -(2 ** 37), 8.0, "f8", 1.0, 5, "f8"),                      # negative large x
]
BIG = 2 ** 20          # |offset| from which the large-offset projection is used
IVL_K = 256            # BinStats.tla: BIvlK
INT31 = 2 ** 31 - 1

BOUNDS = {
    "quick": dict(MaxLen=3, Vals=set(range(1, 6)), BinSizes={1, 2, 3}, NBinSet={1, 2, 3}, NPerSet={1, 2, 3, 4},
                  MinVals={0, 2}, MaxVals={4}, TMaxLen=3, TVals={1, 2, 4}, TYVals={0, 3}, TWts={1, 4}, NanLen=4, NanVals={1, 3, 5}),
    "thorough": dict(MaxLen=4, Vals=set(range(1, 6)), BinSizes={1, 2, 3}, NBinSet={1, 2, 3, 4}, NPerSet={1, 2, 3, 4, 5},
                     MinVals={0, 2}, MaxVals={4, 7}, TMaxLen=4, TVals={1, 2, 4}, TYVals={0, 3}, TWts={1, 4}, NanLen=5, NanVals={1, 2, 3, 5}),
}
INVARIANTS = ["MechRefines", "MergeRefines", "MergeSafe", "ByNumSane", "MomentsSane", "RepDesignCovers", "RepCarriesNoValue",
              "HistMechRefines", "ScaleLaw", "ScaleFormulasDefined", "NanSortRefines", "WScaleLaw"]
ACTIONS = ["ChooseData", "ChooseSpec", "ChooseX", "ChooseYW", "ChooseRepData", "ChooseRep", "HChooseData", "HEvent",
           "ChooseNanData", "ChooseNanSpec", "NanSortIndex",
           "ChooseScalePattern", "ChooseScale", "HistPass", "NumPass", "NumConvert", "NumMerge", "NumKeep",
           "CalcStats", "Assemble"]

PLAIN = ("mean", "var", "err2", "med")
WTD = ("mean", "var", "erri", "err2")
ALLFIELDS = (["low", "high", "center"] + list(PLAIN) + ["y" + f for f in PLAIN] + ["whist"] +
             ["w" + f for f in WTD] + ["wy" + f for f in WTD])


def _su():
    import esutil.stat.util as su
    return su


# ---- abstract <-> concrete -------------------------------------------------------------------
# representations of an array argument (BinStatsMC.tla: RepSeq); none of them changes a value
REPS = ["f8", "f8be", "f4", "f4be", "i4", "i8", "i4be", "u1", "list", "strided", "reversed", "recfield", "scalar"]
_REPDT = {"f8be": ">f8", "f4": "<f4", "f4be": ">f4", "i4": "<i4", "i8": "<i8", "i4be": ">i4", "u1": "u1"}
NATIVE = {"x": "f8", "y": "f8", "w": "f8"}


def represent(a, rep):
    """exact float64 values (1-d) -> the object handed to esutil, or None if `rep` cannot hold the values exactly"""
    if rep == "f8":
        return a.copy()
    if rep in _REPDT:
        with np.errstate(all="ignore"):
            r = a.astype(_REPDT[rep])
        return r if np.array_equal(r.astype("f8"), a, equal_nan=True) else None
    if rep == "list":
        return [float(v) for v in a]
    if rep == "strided":
        return np.repeat(a, 2)[::2]
    if rep == "reversed":
        return a[::-1].copy()[::-1]
    if rep == "recfield":                      # field of a packed record array: itemsize 12, unaligned doubles
        rec = np.zeros(a.size, dtype=[("v", "<f8"), ("t", "<i4")])
        rec["v"] = a
        rec["t"] = 7
        return rec["v"]
    if rep == "scalar":                        # 0-d array for a single value, else a tuple of numpy scalars
        return np.array(a[0]) if a.size == 1 else tuple(np.float64(v) for v in a)
    raise MachineryError("unknown representation %r" % (rep,))


def lattice(c, k):
    """effective lattice of the case: CONC[k], but a variable whose representation cannot hold the lattice values
    exactly (float32 / integers / unsigned with a fractional unit, a negative or a huge offset) falls back to the
    plain integers (unit 1, offset 0), and to float64 if even those do not fit.
    -> dict(unit, off, yunit, yoff, wunit, dt, ydt, rep = the representations actually used)"""
    unit, off, wunit, dt, yunit, yoff, ydt = CONC[k]
    rep = c.get("rep", NATIVE)
    lims = ([c["min"]] if c["hasmin"] else []) + ([c["max"]] if c["hasmax"] else [])
    ok = lambda vals, u, o, r: represent(np.array([(v + o) * u for v in vals], dtype="f8"), r) is not None      # noqa
    rep = dict(rep)
    if not ok(c["x"], unit, off, rep["x"]):
        unit, off, dt = 1.0, 0, "f8"
        if not ok(c["x"], unit, off, rep["x"]):          # not even the plain integers fit (uint8 and a value > 255)
            rep["x"] = "f8"
    if not ok(c["y"], yunit, yoff, rep["y"]):
        yunit, yoff, ydt = 1.0, 0, "f8"
        if not ok(c["y"], yunit, yoff, rep["y"]):
            rep["y"] = "f8"
    if c["w"] and not ok(c["w"], wunit, 0, rep["w"]):
        wunit = 1.0
        if not ok(c["w"], wunit, 0, rep["w"]):
            rep["w"] = "f8"
    wdt = dt
    if c.get("wexp", 0):                       # weight scale 2^wexp (exact); a representation that cannot hold it -> float64
        wunit = wunit * 2.0 ** c["wexp"]
        wdt = "f8"
        if c["w"] and not ok(c["w"], wunit, 0, rep["w"]):
            rep["w"] = "f8"
    if c.get("nan"):                           # NaN needs a floating-point element type
        if rep["x"] in ("i4", "i8", "i4be", "u1"):
            rep["x"] = "f8"
        if np.dtype(dt).kind != "f":
            dt = "f8"
    return dict(wdt=wdt, unit=unit, off=off, wunit=wunit, dt=dt, yunit=yunit, yoff=yoff, ydt=ydt, rep=rep)


def concretise(c, L):
    rep = L["rep"]
    unit, off = L["unit"], L["off"]

    def mk(vals, u, o, dt, r, nan=None):
        a = np.array([(v + o) * u for v in vals], dtype="f8")
        if nan:
            a[np.array(nan) - 1] = np.nan
        if r == "f8":                            # the "native" slot keeps the lattice's own element type (f8 / i8 / f4)
            return a.astype(dt)
        return represent(a, r)
    x = mk(c["x"], unit, off, L["dt"], rep["x"], nan=c.get("nan"))
    y = mk(c["y"], L["yunit"], L["yoff"], L["ydt"], rep["y"])
    w = mk(c["w"], L["wunit"], 0, L["wdt"], rep["w"]) if c["w"] else None
    kw = {}
    if c["mode"] == "binsize":
        kw["binsize"] = c["b"] * unit
    elif c["mode"] == "nbin":
        kw["nbin"] = int(c["b"])
    else:
        kw["nperbin"] = int(c["b"])
        kw["mergelast"] = bool(c["merge"])
    if c["hasmin"]:
        kw["min"] = (c["min"] + off) * unit
    if c["hasmax"]:
        kw["max"] = (c["max"] + off) * unit
    return x, y, w, kw


def warmup_kw(c, L):
    """a different bin specification, run first on a re-used Binner"""
    if c["mode"] == "nperbin":
        return {"binsize": 2 * L["unit"]}
    return {"nperbin": 2, "mergelast": True}


def snapshot(a):
    return a.tobytes() if isinstance(a, np.ndarray) else repr(a)


def variants(c, i):
    """the calls made on one case (parameter records)"""
    e1, e2 = ("c", "py") if i % 2 == 0 else ("py", "c")
    hasw = bool(c["w"])
    vs = [{"entry": "histogram", "engine": e1, "hasy": False, "hasw": False, "rev": True, "split": False, "reuse": False, "both": True},
          {"entry": "Binner", "engine": e2, "hasy": True, "hasw": False, "rev": False, "split": True, "reuse": True, "both": False},
          {"entry": "Binner", "engine": e1, "hasy": False, "hasw": False, "rev": False, "split": False, "reuse": False, "both": False}]
    if hasw:
        vs += [{"entry": "histogram", "engine": e2, "hasy": False, "hasw": True, "rev": False, "split": False, "reuse": False, "both": False},
               {"entry": "Binner", "engine": e1, "hasy": True, "hasw": True, "rev": False, "split": False, "reuse": i % 3 == 0, "both": False}]
    return vs


def raw_call(c, L, p, engine):
    """one call of the real code -> (dictionary | exception, frame_ok)"""
    su = _su()
    x, y, w, kw = concretise(c, L)
    args = [a for a in (x, y, w) if a is not None]
    before = [snapshot(a) for a in args]
    saved = su.have_chist
    su.have_chist = (engine == "c") and saved
    try:
        with warnings.catch_warnings():
            warnings.simplefilter("ignore")
            with np.errstate(all="ignore"):
                if p["entry"] == "histogram":
                    if p["hasw"]:
                        res = su.histogram(x, weights=w, **kw)          # more=True is implied by weights
                    else:
                        res = su.histogram(x, more=True, **kw)
                else:
                    b = su.Binner(x, y=y if p["hasy"] else None, weights=w if p["hasw"] else None)
                    if p["reuse"]:
                        try:
                            b.dohist(**warmup_kw(c, L))
                        except ValueError:
                            pass
                    if p["split"]:
                        b.dohist(rev=p["rev"], calc_stats=False, **kw)
                        b.calc_stats()
                    else:
                        b.dohist(rev=p["rev"], **kw)
                    res = b
    except Exception as e:  # noqa
        res = e
    finally:
        su.have_chist = saved
    return res, all(snapshot(a) == bb for a, bb in zip(args, before))


def caps(c):
    """bounds (lattice units, offset removed) on every expectation of the case: value-type and deviation^2-type"""
    lims = ([c["min"]] if c["hasmin"] else []) + ([c["max"]] if c["hasmax"] else [])
    return dict(xl=2 * max(c["x"] + lims + [1]) + c["b"] + 2, xs=(max(c["x"]) - min(c["x"])) ** 2 + 1,
                yl=max(c["y"] + [1]) + 1, ys=(max(c["y"]) - min(c["y"])) ** 2 + 1 if c["y"] else 1)


def fits_interval(c):
    """the interval observations of the large-offset lattices must stay inside TLC's 32-bit integers:
    (bound of the expectation + 2) * IVL_K * (bound of its denominator) < 2^31"""
    n, W = len(c["x"]), max(sum(c["w"]), 1)
    cp = caps(c)
    dl, ds = max(n, W, 2 * c["b"], 2), max(n ** 3, W ** 4, 2)
    return all((v + 2) * IVL_K * d < INT31 for v, d in ((cp["xl"], dl), (cp["yl"], dl), (cp["xs"], ds), (cp["ys"], ds)))


def effective_conc(c, k):
    """a large-offset lattice is used only where its interval observations fit; else the base lattice k mod NBASE"""
    return k if k < NBASE or fits_interval(c) else k % NBASE


def scales(c, L):
    unit, off, wunit, yunit, yoff = L["unit"], L["off"], L["wunit"], L["yunit"], L["yoff"]
    lims = ([c["min"]] if c["hasmin"] else []) + ([c["max"]] if c["hasmax"] else [])
    s1x = max([abs(v + off) for v in c["x"] + lims] + [1])
    s1y = max([abs(v + yoff) for v in c["y"]] + [1])
    return dict(unit=Fr(unit), off=off, wunit=Fr(wunit), yunit=Fr(yunit), yoff=yoff, s1x=s1x, s1y=s1y,
                se=3 * s1x + c["b"] + 1, xbig=abs(off) >= BIG, ybig=abs(yoff) >= BIG,
                n=len(c["x"]), W=max(sum(c["w"]), 1))


def big_real(obs, S, D, cap, unit, off=0, square=False, sentinel=None):
    """projection of one observed float on a LARGE-OFFSET lattice.

    Tolerance ("to rounding", relative to the operand scale S = max |operand| in lattice units, offset included):
      value-type outputs (mean, median, edges, centres):  |obs - exact| <= delta = 16 ulp * S   (the RELTOL used everywhere);
      deviation-type outputs (std, err, weighted std, werr2): every algorithm has to form differences x_i - m of operands of
      magnitude S, each determined only to ~ulp(S); the deviation is a root mean square of such differences, so it is granted
      the same ABSOLUTE tolerance delta on the deviation itself; recorded through its square: [(s-delta)^2, (s+delta)^2].
      numpy's two-pass std stays within ulp(S) of the exact value (for lattice data even second order), a raw-moment
      formula E[x^2]-E[x]^2 carries an absolute error ~ ulp(S^2) = S*ulp(S) in the VARIANCE (>= 4 lattice units^2 at
      S = 2^27), far outside.
    Recording: if the tolerance interval is narrower than half the gap 1/D^2 between rationals of denominator <= D (D = the
    denominator bound of the quantity), at most one candidate lies inside and the nearest one is recorded ("rat", as on the
    base lattices); otherwise the interval itself, rounded outward to multiples of 1/IVL_K and clamped to the range `cap` any
    expectation of this case can take ("ivl") - BinStats.tla then checks that the exact expectation lies inside."""
    import math
    from ..ratproj import RELTOL, OFF, NAN, SENT
    try:
        f = float(obs)
    except (TypeError, ValueError):
        return dict(OFF)
    if math.isnan(f) or math.isinf(f):
        return dict(NAN)
    if sentinel is not None and f == sentinel:
        return dict(SENT)
    delta = RELTOL * S
    q = Fr(f) / unit
    if square:
        if q < 0:
            return dict(OFF)
        a, lo, hi = q * q, max(q - delta, 0) ** 2, (q + delta) ** 2
    else:
        a = q - off
        lo, hi = a - delta, a + delta
    if 2 * (hi - lo) < Fr(1, D * D):
        r = a.limit_denominator(D)
        if lo <= r <= hi and abs(r.numerator) <= INT31:
            return {"k": "rat", "n": r.numerator, "d": r.denominator}
        return dict(OFF)
    bound = cap + 1
    if lo > bound or hi < -bound:
        return dict(OFF)
    return {"k": "ivl", "n": max(math.floor(lo * IVL_K), -bound * IVL_K), "d": min(math.ceil(hi * IVL_K), bound * IVL_K)}


def project(res, c, L, p, stats=True, Q=None):
    """result dictionary -> observation record (floats projected onto lattice rationals).
    Q (scale cases): overrides of the operand scales and denominator bounds, and `emul`: the error-type outputs are
    recorded multiplied by the replication factor (their expectations then keep small denominators)"""
    base = {"hasy": p["hasy"], "hasw": p["hasw"], "stats": bool(stats),
            "wantrev": bool(p["entry"] == "histogram" or p["hasy"] or p["hasw"] or p["rev"])}
    o = dict(base, err="none", hist=[], hasrev=False, rev=[], **{f: [] for f in ALLFIELDS})
    if isinstance(res, Exception):
        o["err"] = type(res).__name__
        return o
    S = scales(c, L)
    if Q:
        S.update({kk: Q[kk] for kk in ("s1x", "s1y", "se") if kk in Q})
    n, W = S["n"], S["W"]
    D = dict(mean=max(n, 2), med=2, var=max(n * n, 2), err2=max(n ** 3, 2), wmean=max(W, 2), wvar=max(W * W, 2),
             werri=max(W, 2), werr2=max(W ** 4, 2))
    emul = 1
    if Q:
        D.update(Q["D"])
        emul = Q["emul"]
    o["hist"] = [int(v) for v in res["hist"]]
    o["hasrev"] = "rev" in res
    o["rev"] = [int(v) for v in res["rev"]] if o["hasrev"] else []
    pre = "x" if p["hasy"] else ""

    def get(*names):
        for nm in names:
            if nm in res:
                return [float(v) for v in np.atleast_1d(res[nm])]
        return []

    cp = caps(c)
    eden = c["b"] if c["mode"] == "nbin" else 1

    def lin(v, s1, unit, off, big, D, cap, sent=SENTINEL):
        if big:
            return big_real(v, s1, D, cap, unit, off=off, sentinel=sent)
        return real(v, s1, div=unit, off=off, sentinel=sent, den_bound=D)

    def sq(v, s1, unit, big, D, cap, mul=1):
        if big:
            return big_real(v, s1, D, cap, unit, square=True, sentinel=SENTINEL)
        return real(v, 8 * s1 * s1, div=unit ** 2, mul=mul, square=True, sentinel=SENTINEL, den_bound=D)

    for fld in ("low", "high", "center"):
        o[fld] = [lin(v, S["se"], S["unit"], S["off"], S["xbig"], 2 * eden, cp["xl"], sent=None) for v in get(pre + fld, fld)]

    def plain(keypre, outpre, unit, off, s1, big, cl, cs):
        o[outpre + "mean"] = [lin(v, s1, unit, off, big, D["mean"], cl) for v in get(keypre + "mean")]
        o[outpre + "med"] = [lin(v, s1, unit, off, big, D["med"], cl) for v in get(keypre + "median")]
        o[outpre + "var"] = [sq(v, s1, unit, big, D["var"], cs) for v in get(keypre + "std")]
        o[outpre + "err2"] = [sq(v, s1, unit, big, D["err2"], cs, mul=emul) for v in get(keypre + "err")]

    def wtd(keypre, outpre, unit, off, s1, big, cl, cs):
        o[outpre + "mean"] = [lin(v, s1, unit, off, big, D["wmean"], cl) for v in get(keypre + "mean")]
        o[outpre + "var"] = [sq(v, s1, unit, big, D["wvar"], cs) for v in get(keypre + "std")]
        o[outpre + "erri"] = [real(v, 1, mul=S["wunit"] * emul, square=True, sentinel=SENTINEL, den_bound=D["werri"]) for v in get(keypre + "err")]
        o[outpre + "err2"] = [sq(v, s1, unit, big, D["werr2"], cs, mul=emul) for v in get(keypre + "err2")]

    X = (S["unit"], S["off"], S["s1x"], S["xbig"], cp["xl"], cp["xs"])
    Y = (S["yunit"], S["yoff"], S["s1y"], S["ybig"], cp["yl"], cp["ys"])
    plain(pre, "", *X)
    if p["hasy"]:
        plain("y", "y", *Y)
    if p["hasw"]:
        o["whist"] = [real(v, W, div=S["wunit"], sentinel=SENTINEL, den_bound=1) for v in get("whist")]
        wtd("w" + pre, "w", *X)
        if p["hasy"]:
            wtd("wy", "wy", *Y)
    return o


def raw_summary(res):
    if isinstance(res, Exception):
        return {"exc": repr(res)}
    return {kk: np.asarray(v).tolist() for kk, v in res.items() if kk not in ("sort_index", "wsort")}


def same_dict(a, b):
    if isinstance(a, Exception) or isinstance(b, Exception):
        return type(a) is type(b)
    if set(a.keys()) != set(b.keys()):
        return False
    for kk in a:
        va, vb = np.asarray(a[kk]), np.asarray(b[kk])
        if va.shape != vb.shape or va.dtype != vb.dtype or va.tobytes() != vb.tobytes():
            return False
    return True


def run_variant(c, L, p):
    res, frame_ok = raw_call(c, L, p, p["engine"])
    problems = [] if frame_ok else ["argument_modified"]
    if p["both"]:
        other, _ = raw_call(c, L, p, "py" if p["engine"] == "c" else "c")
        if not same_dict(res, other):
            problems.append("engines_differ")
    return {"p": p, "o": project(res, c, L, p), "raw": raw_summary(res), "problems": problems}


def run_case(job):
    i, c, k = job[0], job[1], effective_conc(job[1], job[2])
    ps = job[3] if len(job) > 3 else variants(c, i)
    if c["w"]:
        need_den(sum(c["w"]) ** 4, "total weight")
    need_den(len(c["x"]) ** 3, "array length")
    L = lattice(c, k)
    return {"id": i, "kind": "case", "c": c, "conc": k, "lattice": [L["unit"], L["off"], L["yunit"], L["yoff"], L["wunit"], L["rep"]],
            "runs": [run_variant(c, L, p) for p in ps]}


# ---- histories on one Binner (rejected calls included) ---------------------------------------------------
def ev_case(c, ev):
    return {"x": c["x"], "y": c["y"], "w": c["w"], "mode": ev["mode"], "b": ev["b"], "merge": ev["merge"],
            "hasmin": ev["hasmin"], "min": ev["min"], "hasmax": ev["hasmax"], "max": ev["max"]}


def run_history(job):
    """c = data + h (the calls, exported by BinStatsMC.tla); every call is made on ONE Binner(x, y, weights); what the
    object holds after each call (or the exception) is recorded"""
    i, c, k = job[0], job[1], job[2] % NBASE
    su = _su()
    base = ev_case(c, {"mode": "binsize", "b": 1, "merge": False, "hasmin": False, "min": 0, "hasmax": False, "max": 0})
    L = lattice(base, k)
    x, y, w, _ = concretise(base, L)
    engine = "c" if i % 2 else "py"
    saved = su.have_chist
    su.have_chist = (engine == "c") and saved
    p0 = {"entry": "Binner", "engine": engine, "hasy": True, "hasw": True, "rev": False}
    runs, last_ok = [], base
    try:
        with warnings.catch_warnings():
            warnings.simplefilter("ignore")
            with np.errstate(all="ignore"):
                b = su.Binner(x, y=y, weights=w)
                for ev in c["h"]:
                    cc = ev_case(c, ev)
                    try:
                        if ev["op"] == "dohist":
                            _, _, _, kw = concretise(cc, L)
                            if ev["nokw"]:
                                kw = {kk: v for kk, v in kw.items() if kk in ("min", "max")}
                            b.dohist(calc_stats=bool(ev["cs"]), **kw)
                            last_ok = cc
                            res, stats, pc = dict(b), bool(ev["cs"]), cc
                        else:
                            b.calc_stats()
                            res, stats, pc = dict(b), True, last_ok
                    except Exception as e:  # noqa
                        res, stats, pc = e, True, cc
                    runs.append({"p": dict(p0, ev=ev), "o": project(res, pc, L, p0, stats=stats), "raw": raw_summary(res), "problems": []})
    finally:
        su.have_chist = saved
    return {"id": i, "kind": "history", "c": c, "conc": k, "runs": runs}


# ---- scale cases: bins with hundreds to thousands of members ------------------------------------------------
def run_scale(job):
    """c = pattern case + scale [K, NB, T] (exported by BinStatsMC.tla).  The data handed to the code: NB blocks (shifted along
    x into bins of their own) of K replicas of the pattern, y = y0*T + (replica mod T), in a seeded random order.  The reverse
    indices are compressed per bin into counts per pattern position (cnt), other / out-of-range entries (foreign), repeats (dups)."""
    i, c, k, seed = job[0], job[1], job[2] % NBASE, job[3]
    su = _su()
    K, NB, T = c["scale"]["K"], c["scale"]["NB"], c["scale"]["T"]
    x0, y0, w0 = c["x"], c["y"], c["w"]
    n0 = len(x0)
    if c["mode"] == "nperbin":
        per, step = n0 // c["b"], max(x0) - min(x0) + 1
    else:
        per = (max(x0) - min(x0)) // c["b"] + 1
        step = per * c["b"]
    N = NB * K * n0
    j = np.arange(N)
    p_of, r_of, blk_of = j % n0, (j // n0) % K, j // (n0 * K)
    perm = np.random.RandomState(seed).permutation(N)
    p_of, r_of, blk_of = p_of[perm], r_of[perm], blk_of[perm]
    xl = np.array(x0)[p_of] + blk_of * step
    yl = np.array(y0)[p_of] * T + (r_of % T)
    wl = np.array(w0)[p_of]
    L = lattice(dict(c, rep=dict(NATIVE)), k)
    x = ((xl + L["off"]) * L["unit"]).astype("f8")
    y = ((yl + L["yoff"]) * L["yunit"]).astype("f8")
    w = (wl * L["wunit"]).astype("f8")
    kw = {"binsize": c["b"] * L["unit"]} if c["mode"] == "binsize" else {"nperbin": int(K * c["b"]), "mergelast": True}
    W0 = sum(w0)
    Q = {"s1x": int(max(abs(xl + L["off"]).max(), 1)), "s1y": int(max(abs(yl + L["yoff"]).max(), 1)), "emul": K,
         "D": dict(mean=2 * n0, med=2, var=12 * n0 * n0 * N, err2=12 * n0 ** 3 * N, wmean=2 * W0, wvar=12 * W0 * W0,
                   werri=W0, werr2=12 * W0 ** 4)}
    Q["se"] = 3 * Q["s1x"] + c["b"] + 1

    def compress(res):
        if isinstance(res, Exception) or "rev" not in res:
            return {"cnt": [], "foreign": [], "dups": []}
        rev, nb = np.asarray(res["rev"]), len(res["hist"])
        if rev.size < nb + 1 or rev[0] != nb + 1 or np.any(np.diff(rev[:nb + 1]) < 0) or rev[nb] > rev.size:
            return {"cnt": [], "foreign": [], "dups": []}
        cnt, foreign, dups = [], [], []
        for bi in range(nb):
            idx = rev[rev[bi]:rev[bi + 1]]
            good = idx[(idx >= 0) & (idx < N)]
            mine = good[blk_of[good] == bi // per]
            cnt.append([int(v) for v in np.bincount(p_of[mine], minlength=n0)])
            foreign.append(int(idx.size - mine.size))
            dups.append(int(idx.size - np.unique(idx).size))
        return {"cnt": cnt, "foreign": foreign, "dups": dups}

    def call(entry, engine, hasy, hasw, split=False):
        saved = su.have_chist
        su.have_chist = (engine == "c") and saved
        try:
            with warnings.catch_warnings():
                warnings.simplefilter("ignore")
                with np.errstate(all="ignore"):
                    if entry == "histogram":
                        return su.histogram(x, weights=w, **kw) if hasw else su.histogram(x, more=True, **kw)
                    b = su.Binner(x, y=y if hasy else None, weights=w if hasw else None)
                    if split:
                        b.dohist(calc_stats=False, **kw)
                        b.calc_stats()
                    else:
                        b.dohist(**kw)
                    return b
        except Exception as e:  # noqa
            return e
        finally:
            su.have_chist = saved

    e1, e2 = ("c", "py") if i % 2 == 0 else ("py", "c")
    runs = []
    for entry, engine, hasy, hasw, split, both in (("Binner", e1, True, True, False, False), ("Binner", e2, True, False, True, False),
                                                   ("histogram", "c", False, False, False, True), ("histogram", e2, False, True, False, False)):
        p = {"entry": entry, "engine": engine, "hasy": hasy, "hasw": hasw, "rev": True, "split": split, "both": both}
        res = call(entry, engine, hasy, hasw, split)
        problems = []
        if both and not same_dict(res, call(entry, "py", hasy, hasw, split)):
            problems.append("engines_differ")
        o = project(res, c, L, p, Q=Q)
        o["rev"] = []
        o["comp"] = compress(res)
        raw = {"exc": repr(res)} if isinstance(res, Exception) else {"nbins": len(res["hist"]), "N": N, "seed": seed}
        runs.append({"p": p, "o": o, "raw": raw, "problems": problems})
    return {"id": i, "kind": "scale", "c": c, "conc": k, "seed": seed, "runs": runs}


def tl_record(r):
    """what TLC reads (BinStatsTrace.tla)"""
    if r["kind"] == "history":
        return {"id": r["id"], "kind": "history", "c": {kk: r["c"][kk] for kk in ("x", "y", "w")},
                "evs": [dict(u["p"]["ev"], o=u["o"]) for u in r["runs"]]}
    return {"id": r["id"], "kind": r["kind"], "c": r["c"], "obs": [u["o"] for u in r["runs"]]}


# ---- signatures ----------------------------------------------------------------------------------
def struct_class(c):
    if c["mode"] == "nperbin":
        return "nperbin|mergelast=%s" % ("on" if c["merge"] else "off")
    return c["mode"]


def signature(p, clause, c):
    # bin-level clauses carry the bin class ("whist|one-member-bin"); others get the bin specification
    return "%s|%s" % (p["entry"], clause if "|" in clause else "%s|%s" % (clause, struct_class(c)))


def judge(ctx, recs, what, constants=None, _twin=False):
    big = len(recs) > 21000          # thorough-tier chunks: more, smaller TLC processes
    rejects = tracecheck.validate(ctx, "BinStatsTrace.tla", [tl_record(r) for r in recs],
                                  what=what, constants=constants or TRACE_CONSTS,
                                  shard_size=3200 if big else 5000, max_shards=8 if big else 5, workers=2 if big else None)
    byid = {r["id"]: r for r in recs}
    # a rejected case given in a non-native representation is re-run in the native one (same values, same lattice slot):
    # clauses that then pass are representation dependent and get their own signature class
    foreign = [rid for rid in sorted(rejects) if byid[rid]["kind"] == "case" and
               any(v != "f8" for v in byid[rid]["c"].get("rep", NATIVE).values())][:2000]
    twin_fail = {}
    if foreign and not _twin:
        twins = [run_case((n + 1, dict(byid[rid]["c"], rep=dict(NATIVE)), byid[rid]["conc"], [u["p"] for u in byid[rid]["runs"]]))
                 for n, rid in enumerate(foreign)]
        saved = ctx.traces
        trej = tracecheck.validate(ctx, "BinStatsTrace.tla", [tl_record(r) for r in twins],
                                   what=what + " [native twins of rejected foreign-representation cases]",
                                   constants=TRACE_CONSTS)
        ctx.traces = saved
        twin_fail = {rid: set(trej.get(n + 1, [])) for n, rid in enumerate(foreign)}
    for rid, failing in sorted(rejects.items()):
        r = byid[rid]
        for f in failing:
            ki, clause = f.split(":", 1)
            u = r["runs"][int(ki) - 1]
            if r["kind"] == "history":
                # the calls up to the failing one, by outcome: e.g. ok>rejected>calc
                kinds = ["calc" if q["p"]["ev"]["op"] == "calc" else ("rejected" if q["o"]["err"] != "none" else "ok")
                         for q in r["runs"][:int(ki)]]
                sig = "Binner-history|%s|%s" % (clause, ">".join(kinds[-3:]))
                case = {"kind": "history", "c": r["c"], "conc": r["conc"], "failing_event": int(ki), "raw": [q["raw"] for q in r["runs"]]}
            elif r["kind"] == "scale":
                sig = "%s|%s%s" % (u["p"]["entry"], clause, "" if "|" in clause else "|" + struct_class(r["c"]))
                case = {"kind": "scale", "c": r["c"], "conc": r["conc"], "seed": r["seed"], "ps": [u["p"]], "raw": u["raw"]}
            else:
                sig = signature(u["p"], clause, r["c"])
                if rid in twin_fail and f not in twin_fail[rid]:
                    sig += "|representation-dependent"
                case = {"c": r["c"], "conc": r["conc"], "ps": [u["p"]], "observed": u["o"], "raw": u["raw"]}
            ctx.violation(sig, "esutil.stat.%s result not allowed by BinStats.tla: clause %s" % (u["p"]["entry"], clause), case)
    for r in recs:
        for u in r["runs"]:
            for pb in u["problems"]:
                ctx.violation("%s|%s|%s" % (u["p"]["entry"], pb, struct_class(r["c"])),
                              "call modified an array argument / the two engines returned different dictionaries (%s)" % pb,
                              dict({"c": r["c"], "conc": r["conc"], "ps": [u["p"]], "raw": u["raw"]},
                                   **({"kind": "scale", "seed": r["seed"]} if r["kind"] == "scale" else {})))
    return rejects


# ---- larger seeded cases (code -> spec) -----------------------------------------------------------
def seeded_cases(rng, n, maxlen, heavy):
    """heavy: number of long equal-occupancy cases (nperbin 49 / 98, n up to 101: costly to judge in TLC)"""
    out = []
    for kk in range(n):
        weighted = rng.random() < 0.5
        if kk % 8 == 4 or (kk % 8 == 0 and kk < 8 * heavy):
            # bin arithmetic with inexact reciprocals: equal-occupancy bins whose size has a reciprocal that rounds down
            # (positions k*nperbin must still open bin k), and data exactly on the edges of such bin sizes
            rep = {"x": rng.choice(REPS), "y": rng.choice(REPS), "w": "f8"}
            if kk % 8 == 0:
                b = 49 if maxlen < 60 or rng.random() < 0.5 else 98
                ln = b + rng.randrange(1, 4) if rng.random() < 0.5 else min(2 * b + rng.randrange(0, 3), 101)
                x = [rng.randrange(1, 13) for _ in range(ln)]
                out.append({"x": x, "y": [rng.randrange(0, 13) for _ in range(ln)], "w": [], "mode": "nperbin", "b": b,
                            "merge": rng.random() < 0.5, "hasmin": False, "min": 0, "hasmax": False, "max": 0, "rep": rep})
            else:
                b = rng.choice([3, 7, 49, 98, 103, 107])
                ln = rng.choice([2, 5, 12, 17])
                x = [1 + b * rng.randrange(0, 6) + rng.choice([0, 0, 0, 1, b - 1]) for _ in range(ln)]
                hasmin = rng.random() < 0.3
                out.append({"x": x, "y": [rng.randrange(0, 13) for _ in range(ln)], "w": [], "mode": "binsize", "b": b,
                            "merge": False, "hasmin": hasmin, "min": 1 if hasmin else 0, "hasmax": False, "max": 0, "rep": rep})
            continue
        ln = rng.choice([1, 2, 3, 5, 9, 14]) if weighted else rng.choice([1, 2, 5, 17, maxlen // 2, maxlen])
        nv = rng.choice([1, 2, 4, 12]) if weighted else rng.choice([1, 2, 4, 12, 40])
        x = [rng.randrange(1, nv + 1) for _ in range(ln)]
        y = [rng.randrange(0, 13) for _ in range(ln)]
        w = []
        if weighted:
            w = [rng.choice([1, 1, 1, 2, 4]) for _ in range(ln)]
            while sum(w) > 32:
                w[w.index(max(w))] = 1
        mode = rng.choice(["binsize", "nbin", "nperbin", "nperbin"])
        merge = False
        if mode == "binsize":
            b = rng.choice([1, 2, 3, 5, 7])
        elif mode == "nbin":
            b = rng.choice([1, 2, 3, 4, 6, 8, 10])
        else:
            b = rng.choice([1, 2, 3, max(1, ln // 3), max(1, ln // 2), max(1, ln - 1), ln, ln + 1])
            merge = rng.random() < 0.5
        hasmin, hasmax = rng.random() < 0.3, rng.random() < 0.3
        out.append({"x": x, "y": y, "w": w, "mode": mode, "b": b, "merge": merge,
                    "hasmin": hasmin, "min": rng.randrange(0, nv + 2) if hasmin else 0,
                    "hasmax": hasmax, "max": rng.randrange(0, nv + 2) if hasmax else 0,
                    "rep": {"x": rng.choice(REPS), "y": rng.choice(REPS), "w": rng.choice(REPS)},
                    "wexp": rng.choice([0, 0, -600, -400, 400, 600, 150, -900, 900]) if weighted else 0})
        if hasmin and hasmax and rng.random() < 0.7:          # missing values (NaN) inside the data: in no bin
            cse = out[-1]
            pos = sorted(rng.sample(range(1, ln + 1), rng.randrange(1, max(2, ln // 2 + 1))))
            cse["nan"] = pos
            cse["x"] = [cse["max"] + 1 if j + 1 in pos else v for j, v in enumerate(cse["x"])]
    return out


# ---- the check ------------------------------------------------------------------------------------------
def run(ctx):
    B = BOUNDS[ctx.tier]
    consts = dict(B, Kinds={"bins", "stats", "reps", "hist", "scale", "nan"}, RepFull=not ctx.quick, HistLen=3 if ctx.quick else 4,
                  RestoreOnFail=False, ScaleBig=not ctx.quick, FixedWhist=True, MergeVariant="code", DoExport=False, StrictOneMember=False,
                  JudgeErr2Extreme=False, SortVariant="argsort")
    # 1. design level: the mechanisms refine the property, the definitions are sane, no overflow - the whole space.
    #    Per-action coverage (vacuity guard) costs 3x: in the thorough tier it is taken on the quick bounds and the
    #    large space is explored without it (its state count is checked against the number of cases instead).
    if ctx.quick:
        r1 = ctx.tlc("BinStatsMC.tla", what="mechanisms refine property + definitions sane (exhaustive)",
                     cfg_text=cfg(constants=consts, invariants=INVARIANTS), workers=16, require=ACTIONS, timeout=3000)
    else:
        ctx.tlc("BinStatsMC.tla", what="mechanisms refine property (quick bounds, action coverage)",
                cfg_text=cfg(constants=dict(consts, RepFull=False, HistLen=3, ScaleBig=False, **BOUNDS["quick"]), invariants=INVARIANTS), workers=16, require=ACTIONS, timeout=3000)
        r1 = ctx.tlc("BinStatsMC.tla", what="mechanisms refine property + definitions sane (exhaustive)",
                     cfg_text=cfg(constants=consts, invariants=INVARIANTS), workers=16, coverage=False, timeout=3000)
    # 1b. non-vacuity of MechRefines: deviating mechanisms must violate it
    small = dict(consts, Kinds={"bins"}, MaxLen=3, Vals={1, 2, 3}, BinSizes={2}, NBinSet={2}, NPerSet={2}, MinVals=set(), MaxVals=set())
    for name, dev, inv, nxt in (("pinned one-member whist = datum*weight", {"FixedWhist": False}, "MechRefines", "Next"),
                                ("merge without the pointer decrement", {"MergeVariant": "nodec"}, "MergeRefines", "NextNoStats")):
        rb = ctx.tlc("BinStatsMC.tla", what="self-test: %s violates %s" % (name, inv),
                     cfg_text=cfg(constants=dict(small, **dev), invariants=[inv], next_=nxt),
                     workers=1, allow_violation=True, coverage=False)      # one worker: deterministic state count
        if inv not in rb.violated:
            raise MachineryError("self-test failed: %s not violated by the deviating mechanism (%s)" % (inv, name))
    rb = ctx.tlc("BinStatsMC.tla", what="self-test: 'already sorted (no `<` descent), skip the argsort' violates NanSortRefines",
                 cfg_text=cfg(constants=dict(consts, Kinds={"nan"}, NanLen=3, SortVariant="skip"), invariants=["NanSortRefines"]),
                 workers=1, allow_violation=True, coverage=False)
    if "NanSortRefines" not in rb.violated:
        raise MachineryError("self-test failed: NanSortRefines not violated by the deviating sort-index mechanism")
    rb = ctx.tlc("BinStatsMC.tla", what="self-test: failing dohist that restores the dictionary but not the range violates HistMechRefines",
                 cfg_text=cfg(constants=dict(consts, Kinds={"hist"}, HistLen=3, RestoreOnFail=True), invariants=["HistMechRefines"]),
                 workers=1, allow_violation=True, coverage=False)
    if "HistMechRefines" not in rb.violated:
        raise MachineryError("self-test failed: HistMechRefines not violated by the deviating history mechanism")
    # 2. export every case (spec -> code)
    r2 = ctx.tlc("BinStatsMC.tla", what="export cases",
                 cfg_text=cfg(constants=dict(consts, DoExport=True), next_="NextExport", constraints=["Export"]),
                 workers=1, coverage=False, timeout=3000)
    exported = r2.records.get("CASE", [])
    cases = [cse for cse in exported if "h" not in cse and "scale" not in cse]
    histories = [cse for cse in exported if "h" in cse]
    scalecases = [cse for cse in exported if "scale" in cse]
    if not cases or not histories or not scalecases:
        raise MachineryError("no cases exported (%d cases, %d histories, %d scale cases)" % (len(cases), len(histories), len(scalecases)))
    # 2b. longer histories (beyond the exhaustive depth): tlc -simulate, every complete history it visits is exported
    hl, hn = (12, 10) if ctx.quick else (25, 100)
    r2s = ctx.tlc("BinStatsMC.tla", what="simulate long call histories (%d calls)" % hl,
                  cfg_text=cfg(constants=dict(consts, Kinds={"hist"}, HistLen=hl, DoExport=True), next_="NextExport", constraints=["Export"],
                               invariants=["HistMechRefines"]),
                  workers=1, coverage=False, simulate="num=%d" % hn, extra=["-depth", str(hl + 3), "-seed", str(ctx.seed + 1)], timeout=3000)
    longh, seen_h = [], set()
    for cse in r2s.records.get("CASE", []):
        key = repr(cse)
        if key not in seen_h:
            seen_h.add(key)
            longh.append(cse)
    if not longh:
        raise MachineryError("no long histories exported by the simulation")
    nmode = {}
    for cse in cases:
        nmode[cse["mode"]] = nmode.get(cse["mode"], 0) + 1
    if set(nmode) != {"binsize", "nbin", "nperbin"}:
        raise MachineryError("export incomplete: %s" % nmode)
    if r1.distinct < 3 * len(cases):          # every runnable case adds >= 3 mechanism states
        raise MachineryError("mechanism run too small: %d states for %d cases" % (r1.distinct, len(cases)))
    # replay + judge in chunks (a record carries every projected statistic of every bin: keep memory bounded)
    census, first, reps_seen = {}, {}, set()

    def batch(jobs, what):
        chunk = 25000
        for lo in range(0, len(jobs), chunk):
            recs = pmap(run_job, jobs[lo:lo + chunk])
            for r in recs:
                ctx.count(r["c"], n=len(r["runs"]))
                if r["kind"] == "case":
                    reps_seen.add(tuple(r["c"].get("rep", NATIVE)[a] for a in "xyw"))
            rej = judge(ctx, recs, "%s [%d..%d]" % (what, lo + 1, lo + len(recs)))
            structure_census(recs, census)
            if not first:
                first.update(recs=[r for r in recs if r["kind"] == "case"][:4000], rej=rej)
                for r in recs[:: max(1, len(recs) // 4)][:4]:
                    ctx.sample({"case": r["c"], "call": r["runs"][-1]["p"], "observed": r["runs"][-1]["o"]})
        return len(jobs)

    nrec = batch([("case", i, cse, i % len(CONC)) for i, cse in enumerate(cases, 1)], "judge replayed cases (BinStatsTrace)")
    pairs = {(p, q, t[p], t[q]) for t in reps_seen for p in range(3) for q in range(p + 1, 3)}
    if len(pairs) != 3 * len(REPS) ** 2:
        raise MachineryError("representation design not covered: %d of %d pairs" % (len(pairs), 3 * len(REPS) ** 2))
    nreps_exported = len(reps_seen)
    # 3. larger seeded cases (code -> spec)
    nrand, maxlen = (600, 40) if ctx.quick else (12000, 60)
    sc = seeded_cases(random.Random(ctx.seed), nrand, maxlen, 40 if ctx.quick else 160)
    nseed = batch([("case", nrec + 1 + i, cse, (ctx.seed + i) % len(CONC)) for i, cse in enumerate(sc)],
                  "judge seeded larger cases (BinStatsTrace)")
    # 3b. call histories with rejected calls (exhaustive to depth %d, simulated beyond) and scale cases
    hs_jobs = [("history", i, cse, i + ctx.seed) for i, cse in enumerate(histories + longh, 1)]
    hs_jobs += [("scale", len(hs_jobs) + i, cse, i + ctx.seed, 1000 * ctx.seed + i) for i, cse in enumerate(scalecases, 1)]
    hs_recs = pmap(run_job, hs_jobs)
    for r in hs_recs:
        ctx.count(r["c"], n=len(r["runs"]))
    hs_rej = judge(ctx, hs_recs, "judge call histories and scale cases (BinStatsTrace)")
    structure_census(hs_recs, census)
    selftest_hs(ctx, hs_recs, hs_rej)
    # 4. binding self-test and structure census (vacuity guards)
    selftest(ctx, first["recs"], first["rej"])
    for need in ("empty_bins", "one_member_bins", "multi_member_bins", "merged_last_bins", "short_last_bins", "tied_values",
                 "rejected_no_data", "large_offset_records", "large_offset_interval_records", "histories_calc_after_rejected_call",
                 "large_even_bins_with_distinct_y", "large_odd_bins", "nan_records", "nan_hidden_descent_records",
                 "extreme_weight_scale_records_with_multi_member_bins", "mid_weight_scale_records"):
        # the census is taken from what the code returned: only meaningful (and only enforced) on a run without violations
        if not census.get(need) and not ctx.violations:
            raise MachineryError("vacuous run: no case with %s (%s)" % (need, census))
    ctx.rule = ("[NaN] every arrangement of NaN and finite values (length 1..%d over %s + NaN, at least one NaN: ascending runs separated "
                "by NaN, descents hidden across a NaN, NaN first / last / adjacent) x 4 bin specifications x 2 (min, max) pairs, both limits "
                "given: NaN is in no bin, reverse indices refer to the original array; [weight scale] every weighted case is run with "
                "weights w * 2^wexp, wexp in {0, +-400, +-600} spread over the cases (seeded cases also +-900, 150), judged through the scale "
                "covariance law (theorem WScaleLaw); " % (B["NanLen"], sorted(B["NanVals"])) +
                "[histories] every sequence of %d calls (12 kinds: dohist with 7 specifications x calc_stats on/off, 4 rejected ones - no "
                "data in range / no binning keyword -, calc_stats) on one Binner(x,y,weights) for 2 data arrays, and %d simulated "
                "histories of %d calls, judged after every call; [scale] %d pattern x size cases (K replicas x NB blocks, bins of 128..8194 "
                "members, even / odd, across 256) judged through the replication law; " % (consts["HistLen"], len(longh), hl, len(scalecases)) +
                "[representations] every case is handed to the code in one representation triple (x, y, weights) out of %d^3 - "
                "float64/float32/int32/int64/uint8, non-native byte order, python list, strided / reversed / packed-record-field view, "
                "0-d or tuple of numpy scalars - following a pairwise-covering design (169 triples%s) enumerated by BinStatsMC.tla; "
                % (len(REPS), "" if ctx.quick else "; family 'reps': the full product") +
                "every data array of length 1..%d over %d lattice values x every bin specification (binsize %s | nbin %s | nperbin %s x "
                "mergelast on/off) x min in %s or absent x max in %s or absent, with second variable and weights derived from the data; "
                "every (x, y, w) triple of length 1..%d over %s x %s x %s under 4 bin specifications - all exported from BinStatsMC.tla, "
                "each concretised on one of %d dyadic lattices (6 of them with offsets up to 2^40 on x and/or y) and run through histogram(more=True) [both engines], "
                "histogram(weights=), Binner(x,y) [re-used object, dohist(calc_stats=False)+calc_stats()], Binner(x) without rev and "
                "Binner(x,y,weights); plus %d seeded arrays up to length %d. A case is distinct by its abstract record and counted "
                "once; evaluations count the calls made on it." %
                (B["MaxLen"], len(B["Vals"]), sorted(B["BinSizes"]), sorted(B["NBinSet"]), sorted(B["NPerSet"]), sorted(B["MinVals"]),
                 sorted(B["MaxVals"]), B["TMaxLen"], sorted(B["TVals"]), sorted(B["TYVals"]), sorted(B["TWts"]), len(CONC), nrand, maxlen))
    ctx.exhaustive = True
    ctx.note(bounds={k: sorted(v) if isinstance(v, set) else v for k, v in B.items()}, exported_cases=nmode,
             records=nrec, seeded_records=nseed, histories_exhaustive=len(histories), histories_simulated=len(longh),
             history_lengths=[consts["HistLen"], hl], scale_cases=len(scalecases), structure_census=census, strict_one_member_reading=STRICT,
             representations=REPS, representation_triples_exported=nreps_exported)
    ctx.assumptions = [
        "dyadic lattice: data (x+off)*2^k, weights w*2^j, total weight <= 32; expected values are exact rationals with bounded denominators",
        "large-offset lattices (|off| up to 2^40 lattice units on x and/or y, 6 of the %d concretisations): value-type outputs within "
        "16 ulp of the operand scale (offset included); deviation-type outputs (std, err, wstd, werr2) within the same absolute "
        "tolerance on the deviation itself; recorded as the nearest candidate rational where the tolerance interval isolates one, "
        "else as an interval (outward-rounded to 1/256) that must contain the exact expectation" % len(CONC),
        "real-valued outputs are compared 'to rounding': 16 ulp of the operand scale, by snapping the observed float to the nearest "
        "rational with the denominator bound of the quantity (vh/ratproj.py)",
        "statistics of a bin are judged against the members its returned reverse-index slice lists (after the slice itself was judged)",
        "standard deviation / standard error: divisor n or n-1 both accepted (the statement names neither)",
        "one-member bins: the standard error AND the weighted error estimates are unconstrained (StrictOneMember=FALSE; the statement "
        "exempts 'standard error' of bins with fewer than two members, read as covering every error estimate of such a bin)",
        "empty bins: mean = -9999 (documented); other statistics -9999 or NaN; whist 0 or -9999",
        "equal-occupancy bins: order among equal values is not prescribed; no centre is defined for them",
        "non-positive weights and non-dyadic bin sizes off the lattice are outside the check",
        "histories: after a rejected dohist the statement does not say whether earlier results survive: calc_stats may raise, or "
        "must report quantities that equal direct computation for the last successful specification; a dohist without binning "
        "keyword that does not raise is not judged",
        "scale: large bins are block-structured (K replicas of a small pattern bin, y with a sub-pattern of period T in scrambled "
        "order); membership is judged on per-bin counts per pattern position (digest of the reverse indices), statistics through "
        "the replication law (theorem ScaleLaw, checked by explicit expansion for K <= 4); the order inside a large bin's "
        "reverse-index slice is not judged",
        "NaN in the data: judged only when BOTH limits are given (then the bins are defined on the data within [min, max] and a NaN is "
        "in no bin); without both limits the range itself is undefined and no such case is generated",
        "weight scale 2^wexp: whist / 2^wexp and werr^2 * 2^wexp are recorded (exact transport by the law); at |wexp| >= 450, where "
        "w^2 itself leaves the binary64 range, the sum(w^2 ..)-type estimate werr2 is judged as well (JudgeErr2Extreme=TRUE): the code as "
        "found returned 0 / inf there (repaired: fix: wmom error estimate under/overflowed ...)",
        "representations: a variable whose representation cannot hold its lattice values exactly (float32 / integers / uint8 with a "
        "fractional unit, negative or 2^40 offset) is put on the plain integer lattice instead; the value handed over is always exact",
    ]
    ctx.trusted_base = ctx.trusted_base + ["fractions.Fraction arithmetic and Fraction.limit_denominator in the float->lattice projection"]


def run_job(job):
    return {"case": run_case, "history": run_history, "scale": run_scale}[job[0]](job[1:])


def structure_census(recs, cen):

    def add(kk, v=1):
        cen[kk] = cen.get(kk, 0) + v
    for r in recs:
        c = r["c"]
        if r["kind"] == "history":
            outcome = ["calc" if u["p"]["ev"]["op"] == "calc" else ("rejected" if u["o"]["err"] != "none" else "ok") for u in r["runs"]]
            for a in range(len(outcome) - 2):
                if outcome[a] == "ok" and outcome[a + 1] == "rejected" and outcome[a + 2] == "calc":
                    add("histories_calc_after_rejected_call")
            continue
        if r["kind"] == "scale":
            o = r["runs"][0]["o"]
            for bi, h in enumerate(o["hist"]):
                if h > 256 and h % 2 == 0 and bi < len(o["comp"]["cnt"]) and \
                        len({c["y"][p] for p, v in enumerate(o["comp"]["cnt"][bi]) if v} | ({0, 1} if c["scale"]["T"] > 1 else set())) > 1:
                    add("large_even_bins_with_distinct_y")
                if h > 256 and h % 2 == 1:
                    add("large_odd_bins")
            continue
        if len(set(c["x"])) < len(c["x"]):
            add("tied_values")
        if c.get("nan"):
            add("nan_records")
            isn = [j + 1 in c["nan"] for j in range(len(c["x"]))]
            vis = any(not isn[j] and not isn[j + 1] and c["x"][j + 1] < c["x"][j] for j in range(len(isn) - 1))
            lim = [v for j, v in enumerate(c["x"]) if not isn[j] and c["min"] <= v <= c["max"]]
            if not vis and lim != sorted(lim):
                add("nan_hidden_descent_records")
        if abs(c.get("wexp", 0)) >= 450 and c["w"] and any(u["p"]["hasw"] and any(h > 1 for h in u["o"]["hist"]) for u in r["runs"]):
            add("extreme_weight_scale_records_with_multi_member_bins")
        if 0 < abs(c.get("wexp", 0)) < 450 and c["w"]:
            add("mid_weight_scale_records")
        if r["conc"] >= NBASE:
            add("large_offset_records")
            if any(rr["k"] == "ivl" for u in r["runs"] for rr in u["o"]["var"] + u["o"]["yvar"]):
                add("large_offset_interval_records")
        o = r["runs"][0]["o"]
        if o["err"] != "none":
            add("rejected_no_data")
            continue
        add("empty_bins", sum(1 for h in o["hist"] if h == 0))
        add("one_member_bins", sum(1 for h in o["hist"] if h == 1))
        add("multi_member_bins", sum(1 for h in o["hist"] if h > 1))
        if c["mode"] == "nperbin" and o["hist"]:
            if o["hist"][-1] > c["b"] and len(o["hist"]) >= 1 and c["merge"]:
                add("merged_last_bins")
            if o["hist"][-1] < c["b"] and len(o["hist"]) >= 2:
                add("short_last_bins")
    return cen


def selftest(ctx, recs, rejects):
    """corrupt one recorded field of each kind: exactly the corrupted records must be rejected"""
    saved = ctx.traces
    failed = {(rid, int(f.split(":", 1)[0]) - 1) for rid, fs in rejects.items() for f in fs}     # observations rejected in this run

    def pick(pred):
        for r in recs:
            for ui, u in enumerate(r["runs"]):
                if u["o"]["err"] == "none" and not u["problems"] and (r["id"], ui) not in failed and pred(r["c"], u):
                    return r, ui
        return None

    def corrupt_real(fld):
        def f(o):
            r = o[fld][0]
            if r["k"] == "ivl":           # shift the recorded interval by 3 lattice units
                o[fld][0] = dict(r, n=r["n"] + 3 * IVL_K, d=r["d"] + 3 * IVL_K)
            else:
                o[fld][0] = dict(r, n=r["n"] + 1)
        return f

    def hist_shift(o):
        o["hist"][0] += 1
        o["hist"][-1] -= 1

    def rev_swap(o):
        nb = len(o["hist"])
        o["rev"][nb + 1], o["rev"][-1] = o["rev"][-1], o["rev"][nb + 1]

    full = lambda c, u: u["p"]["hasy"] and u["p"]["hasw"] and u["o"]["hist"] and u["o"]["hist"][0] >= 2     # noqa
    probes = [
        ("mean", lambda c, u: full(c, u), corrupt_real("mean")),
        ("ystd", lambda c, u: full(c, u), corrupt_real("yvar")),
        ("werr2", lambda c, u: full(c, u), corrupt_real("werr2")),
        ("whist", lambda c, u: full(c, u), corrupt_real("whist")),
        ("low", lambda c, u: c["mode"] == "binsize" and u["o"]["low"], corrupt_real("low")),
        ("std_interval", lambda c, u: u["o"]["hist"] and u["o"]["hist"][0] >= 2 and u["o"]["var"] and u["o"]["var"][0]["k"] == "ivl",
         corrupt_real("var")),
        ("ymean_interval", lambda c, u: u["p"]["hasy"] and u["o"]["hist"] and u["o"]["hist"][0] >= 1 and u["o"]["ymean"][0]["k"] == "ivl",
         corrupt_real("ymean")),
        ("nperbin_high", lambda c, u: c["mode"] == "nperbin" and u["o"]["high"], corrupt_real("high")),
        ("nperbin_occupancy", lambda c, u: c["mode"] == "nperbin" and len(u["o"]["hist"]) >= 2, hist_shift),
        ("nperbin_sorted", lambda c, u: c["mode"] == "nperbin" and len(u["o"]["hist"]) >= 2 and len(set(c["x"])) == len(c["x"])
         and not c["hasmin"] and not c["hasmax"], rev_swap),
    ]
    batch, expect = [], {}
    for n, (name, pred, fn) in enumerate(probes):
        got = pick(pred)
        if got is None:
            continue
        r, ui = got
        good = {"id": 2 * n + 1, "kind": "case", "c": r["c"], "obs": [r["runs"][ui]["o"]]}
        bad = copy.deepcopy(good)
        bad["id"] = 2 * n + 2
        fn(bad["obs"][0])
        batch += [good, bad]
        expect[bad["id"]] = name
    # on a tree with many violations some probes may find no accepted record to corrupt
    ctx.note(selftest_probes=sorted(expect.values()))
    if len(expect) < 5:
        if not ctx.violations:
            raise MachineryError("self-test: only %d of %d probes found a record" % (len(expect), len(probes)))
        if not expect:
            return           # a tree on which (nearly) every observation is already rejected
    rej = tracecheck.validate(ctx, "BinStatsTrace.tla", batch, what="self-test: corrupted records rejected", workers=1,
                              constants=TRACE_CONSTS)
    ctx.traces = saved
    bad_accept = set(expect) - set(rej)
    good_reject = set(rej) - set(expect)
    if bad_accept or good_reject:
        raise MachineryError("binding self-test failed: corrupted accepted %s, untouched rejected %s" %
                             (sorted(expect[i] for i in bad_accept), {i: rej[i] for i in good_reject}))


def selftest_hs(ctx, recs, rejects):
    """binding of the history and scale judgements: corrupted records must be rejected, the untouched ones accepted"""
    saved = ctx.traces
    batch, expect = [], {}

    def add(good, mutate, name):
        n = len(batch) // 2
        good = dict(copy.deepcopy(good), id=2 * n + 1)
        bad = dict(copy.deepcopy(good), id=2 * n + 2)
        mutate(bad)
        batch.extend([good, bad])
        expect[bad["id"]] = name

    hist = next((r for r in recs if r["kind"] == "history" and r["id"] not in rejects and
                 any(u["p"]["ev"]["op"] == "calc" and u["o"]["err"] == "none" and u["o"]["low"] for u in r["runs"])), None)
    if hist is not None:
        k = next(n for n, u in enumerate(hist["runs"]) if u["p"]["ev"]["op"] == "calc" and u["o"]["err"] == "none" and u["o"]["low"])

        def shift_low(t):
            t["evs"][k]["o"]["low"] = [dict(r, n=r["n"] + r["d"]) for r in t["evs"][k]["o"]["low"]]      # edges from another minimum
        add(tl_record(hist), shift_low, "history_edges")
    sc = next((r for r in recs if r["kind"] == "scale" and r["id"] not in rejects and r["runs"][0]["o"]["err"] == "none"
               and r["runs"][0]["o"]["hist"] and r["runs"][0]["o"]["hist"][0] > 256), None)
    if sc is not None:
        def med(t):
            r = t["obs"][0]["ymed"][0]
            t["obs"][0]["ymed"][0] = dict(r, n=r["n"] + 1)

        def members(t):
            row = t["obs"][0]["comp"]["cnt"][0]
            pz = next(n for n, v in enumerate(row) if v)
            row[pz] -= 1
            t["obs"][0]["comp"]["foreign"][0] += 1
        add(tl_record(sc), med, "scale_median")
        add(tl_record(sc), members, "scale_members")
    if len(expect) < 3:
        if not ctx.violations:
            raise MachineryError("self-test: no accepted history / scale record to probe (%s)" % sorted(expect.values()))
        if not expect:
            return
    rej = tracecheck.validate(ctx, "BinStatsTrace.tla", batch, what="self-test: corrupted history / scale records rejected", workers=1,
                              constants=TRACE_CONSTS)
    ctx.traces = saved
    bad_accept, good_reject = set(expect) - set(rej), set(rej) - set(expect)
    if bad_accept or good_reject:
        raise MachineryError("binding self-test (histories / scale) failed: corrupted accepted %s, untouched rejected %s" %
                             (sorted(expect[i] for i in bad_accept), {i: rej[i] for i in good_reject}))


def replay(ctx, case):
    if case.get("kind") == "history":
        rec = run_history((1, case["c"], case.get("conc", 0)))
        print("replay observed:", [(u["p"]["ev"]["op"], u["o"]["err"], u["raw"]) for u in rec["runs"]])
        judge(ctx, [rec], "replay")
        return
    if case.get("kind") == "scale":
        rec = run_scale((1, case["c"], case.get("conc", 0), case.get("seed", 0)))
        print("replay observed:", [(u["p"], u["raw"], u["problems"]) for u in rec["runs"]])
        judge(ctx, [rec], "replay")
        return
    rec = run_case((1, case["c"], case.get("conc", 0), case["ps"]))
    print("replay observed:", [(u["p"], u["raw"], u["problems"]) for u in rec["runs"]])
    judge(ctx, [rec], "replay")
