"""C15 - non-in-place calls never modify the arrays passed to them.

spec -> code : FrameMC.tla enumerates the catalogue of Frame.tla (one record per public
               array-taking entry point of the families the property lists) x dimensionality x
               option x (layout assignment, value-class assignment).  Every exported invocation is
               executed on the real function with each argument built in exactly that layout (byte
               order, contiguity, element kind, 0-d..2-d) and holding values of exactly that class
               (ordinary / NaN / +-inf / zeros / negative / all equal / duplicates / extreme magnitude /
               empty; the special elements at the same positions in every argument, so that e.g.
               (data: nan, weights: zero) is "NaN exactly where the weight is zero").  The value classes
               drive the data-dependent branches of a callee (clipping, masking, wrapping, sentinel
               replacement, sorting, weight normalisation).  Further dimensions: element kinds whose
               values are NOT exactly convertible to float64 and back (longdouble with non-double values,
               uint64 above 2^63, int64 above 2^53, float16, complex128, object arrays of python numbers);
               a size class per argument (6 elements, or just over 2^25 bytes for the cheap entry points:
               all arguments large, or one large and the others small); and DELIBERATE rejections - option
               values, value classes and size mismatches on which the callee is documented to raise, also
               with large arguments (a rejected call is a stutter step on its arguments).  OPTION SPACE: the keyword
               options of an entry point are independent axes (Frame.tla FrOptAxes: units x stomp x dtype, projection x
               distort x find, delimiter x header x append, ...); besides the named single settings every option VECTOR
               of a strength-2 covering design (at most two axes off their default; the full product up to three axes)
               is run as option "ax:v1,v2,.." with every parameter in its base layout (the caller's own representation,
               where nothing forces a copy) and with all of them byte-swapped and strided.
code -> spec : every argument is snapshotted before and after the call (digest of its bytes, digest
               of the whole buffer it lives in, dtype incl. byte order, flags + strides + shape);
               the recorded invocations are judged by FrameTrace.tla: whatever the call returned
               or raised, it must be an Invoke step, i.e. UNCHANGED on every argument that is not
               documented as in-place.
Python never judges; it builds arguments, calls, and records opaque tokens.
"""
import contextlib
import hashlib
import io
import os
import shutil
import tempfile
import warnings

import numpy as np

from .. import tracecheck
from ..core import MachineryError
from ..par import pmap
from ..tlc import cfg

NEEDS_EXT = True

ALL_FAMILIES = ["recfile", "fields", "byteorder", "match", "hist", "stats", "coords", "wcs", "cosmo", "htm"]

# ---- logical values by role (float kinds, integer kinds) ------------------------------------
ROLE_VALUES = {
    "lon":       ([10.5, 200.25, 250.0, 45.0, 180.0, 90.75], [10, 200, 250, 45, 180, 90]),
    "dlon":      ([10.5, 200.25, -250.0, 45.0, 180.0, -190.75], [10, 200, -250, 45, 180, -190]),
    "lat":       ([5.5, -30.25, 60.0, 45.0, -10.0, 80.5], [5, 30, 60, 45, 10, 80]),
    "data":      ([1.5, 2.5, 0.5, 3.5, 2.0, 1.0], [1, 2, 0, 3, 2, 1]),
    "weight":    ([1.0, 2.0, 1.0, 4.0, 2.0, 0.5], [1, 2, 1, 4, 2, 1]),
    "ids":       ([3.0, 1.0, 4.0, 7.0, 5.0, 9.0], [3, 1, 4, 7, 5, 9]),
    "ids2":      ([1.0, 9.0, 2.0, 3.0, 3.0, 7.0], [1, 9, 2, 3, 3, 7]),
    "dups":      ([3.0, 1.0, 3.0, 2.0, 1.0, 3.0], [3, 1, 3, 2, 1, 3]),
    "flag":      ([0.0, 1.0, 2.0, 0.0, 1.0, 0.0], [0, 1, 2, 0, 1, 0]),
    "ascending": ([0.0, 1.0, 2.0, 3.0, 4.0, 5.0], [0, 1, 2, 3, 4, 5]),
    "query":     ([0.5, 1.5, 2.5, 3.5, 4.5, 0.25], [0, 1, 2, 3, 4, 5]),
    "zlo":       ([0.1, 0.2, 0.3, 0.4, 0.5, 0.25], [1, 2, 1, 2, 1, 2]),
    "zhi":       ([0.6, 0.7, 0.8, 0.9, 1.0, 0.75], [3, 4, 5, 3, 4, 5]),
    "unitx":     ([1.0, 0.0, 0.0, 0.6, 0.0, 0.8], None),
    "unity":     ([0.0, 1.0, 0.0, 0.8, 0.6, 0.0], None),
    "unitz":     ([0.0, 0.0, 1.0, 0.0, 0.8, 0.6], None),
    "clambda":   ([-30.5, 10.0, 40.25, 0.0, 20.0, -10.0], [30, 10, 40, 0, 20, 10]),
    "ceta":      ([-20.0, 0.5, 30.0, 10.0, 20.25, 5.0], [20, 0, 30, 10, 20, 5]),
    "pixx":      ([10.5, 100.0, 500.25, 250.0, 750.0, 20.0], [10, 100, 200, 250, 150, 20]),
    "pixy":      ([700.5, 30.0, 510.25, 200.0, 50.0, 900.0], [70, 30, 210, 200, 50, 90]),
    "skylon":    ([150.01, 149.99, 150.0, 150.02, 149.98, 150.005], None),
    "skylat":    ([20.01, 19.99, 20.0, 19.98, 20.02, 20.005], None),
    "radius":    ([0.5, 0.5, 0.25, 1.0, 0.5, 0.75], None),
    "dz":        ([0.5, 0.5, 0.5, 0.5, 0.5, 0.5], None),
    "scale":     ([1.0, 2.0, 1.0, 1.5, 1.0, 1.0], [1, 2, 1, 1, 1, 1]),
    "htmid2":    (None, None),      # derived from (ra2, dec2) by the binding
}
FIXED_SHAPE = {     # roles whose dimensionality does not follow the call's
    "cov": np.array([[4.0, 1.0, 0.0], [1.0, 9.0, 2.0], [0.0, 2.0, 16.0]]),
    "cor": np.array([[1.0, 0.5, 0.0], [0.5, 1.0, 0.25], [0.0, 0.25, 1.0]]),
    "diagerr": np.array([2.0, 3.0, 4.0]),
}
STR_VALUES = [b"cc", b"aa", b"dd", b"gg", b"ee", b"ii"]
STR_VALUES2 = [b"aa", b"ii", b"bb", b"cc", b"cc", b"gg"]
STR_DUPS = [b"cc", b"aa", b"cc", b"bb", b"aa", b"cc"]

TABLE_DESCR = [("id", "i8"), ("x", "f8"), ("f", "f4"), ("n", "i4"), ("h", "i2"), ("b", "u1"), ("s", "S4"), ("v", "f8", (2,))]
TABLE2_DESCR = [("q", "f8"), ("w", "i4"), ("t", "S2")]
SHAPES = {0: (), 1: (6,), 2: (2, 3)}


# ---- value classes (Frame.tla FrVals): the special elements sit at flat positions 2 and 4 of every
# parameter (position 0 of a one-element argument), so that two classes in one call coincide element by element
_EXT = {"f8": (1e300, -1e300), "f4": (3e38, -3e38), "i8": (2 ** 62, -2 ** 62), "i2": (32767, -32768), "u1": (255, 255)}


def _inject(a, val):
    """a: native 1-d array (rows) of a simple dtype or one field of a table; modified in place"""
    n = a.shape[0]
    pos = [q for q in (2, 4) if q < n] or [0]
    k = a.dtype.kind
    code = "%s%d" % (k, a.dtype.itemsize)
    if val == "equal":
        a[...] = a[0].copy()
    elif val == "dup":
        if n > 2:
            a[2] = a[0]
        if n > 4:
            a[4] = a[1]
    elif k == "S":
        if val == "zero":
            a[pos] = b""
        elif val == "ext":
            a[pos] = b"\xff,\t\xff"[:a.dtype.itemsize]
    elif val == "nan":
        if k == "f":
            a[pos] = np.nan
    elif val == "inf":
        if k == "f":
            a[pos[0]] = np.inf
            a[pos[-1]] = -np.inf if len(pos) > 1 else np.inf
    elif val == "zero":
        a[pos] = 0
    elif val == "neg":
        if k in "fi":
            a[pos] = -(np.abs(a[pos]) + 1)
    elif val == "ext":
        if code == "i4":
            # every element next to the largest value (large offset, small scatter): two int32 extremes of
            # opposite sign would ask the histogram functions for 2**32 bins of 8 bytes
            a[...] = (2 ** 31 - 1) - np.abs(a)
        else:
            hi, lo = _EXT[code]
            a[pos[0]] = hi
            a[pos[-1]] = lo if len(pos) > 1 else hi
    elif val not in ("ord", "empty"):
        raise MachineryError("unknown value class %r" % val)


def with_values(a, val):
    """the logical (native, C-contiguous) array a with its values changed to the class val"""
    if val == "ord":
        return a
    if val == "empty":
        if a.ndim != 1:
            raise MachineryError("empty arguments are 1-d")
        return a[:0].copy()
    shape = a.shape
    rows = a.reshape(-1).copy()
    if a.dtype.names is None:
        _inject(rows, val)
    else:
        for nm in a.dtype.names:
            f = rows[nm]                      # a view of the field: (n,) or (n, 2)
            _inject(f, val)
    return rows.reshape(shape)


LARGE_BYTES = 2 ** 25
UNIQUE_ROLES = ("ids", "ids2", "ascending")      # roles whose large form must not repeat values


def large_n(itemsize):
    """elements of a large argument: just over 2^25 bytes"""
    return LARGE_BYTES // itemsize + 1


def _enlarge(a, role, n):
    """the 1-d small array a repeated up to n elements (distinct values for the roles that need them)"""
    big = np.take(a, np.arange(n) % a.shape[0])
    if a.dtype.names is not None:
        if "id" in a.dtype.names:
            big["id"] = np.arange(1, n + 1)
    elif role in UNIQUE_ROLES and a.dtype.kind in "iuf":
        j = np.arange(n)
        big = ({"ids": 3 * j[::-1] + 1, "ids2": 2 * j, "ascending": j}[role]).astype(a.dtype)
    return big


def logical(role, kind, nd, val="ord", size="small", nlarge=None):
    """native, C-contiguous array holding values of class val for the role; nlarge = elements of a large argument"""
    a = _logical(role, kind, nd)
    if size == "large":
        if a.ndim != 1 or role in FIXED_SHAPE:
            raise MachineryError("large arguments are 1-d")
        a = _enlarge(a, role, nlarge or large_n(a.dtype.itemsize))
    if val == "short":
        if a.ndim != 1:
            raise MachineryError("short arguments are 1-d")
        return a[:-1].copy()
    return with_values(a, val)


# ---- exotic element kinds (Frame.tla EXO): the VALUES are not exactly convertible to float64 and back
EXOTIC = ("g", "u8", "I8", "f2", "c16", "O")


def _exotic(fl, it, kind):
    import fractions
    ints = [int(round(v)) for v in (it if it is not None else fl)]
    eps = np.longdouble(2) ** -60
    inexact = [np.longdouble(v) * (1 + eps) if v else np.longdouble(2) ** -70 for v in fl]
    if kind == "g":
        return np.array(inexact, dtype=np.longdouble)
    if kind == "u8":
        return np.array([2 ** 63 + 2049 + 2 * abs(v) for v in ints], dtype="u8")
    if kind == "I8":
        return np.array([2 ** 53 + 1 + 2 * abs(v) for v in ints], dtype="i8")
    if kind == "f2":
        return np.array(fl, dtype="f2")
    if kind == "c16":
        return np.array([complex(v, 0.5 + v / 7.0) for v in fl], dtype="c16")
    out = np.empty(len(fl), dtype=object)
    for j, v in enumerate(fl):
        out[j] = (float(v), inexact[j], fractions.Fraction(v) + fractions.Fraction(1, 3 ** 40))[j % 3]
    return out


def _logical(role, kind, nd):
    shape = SHAPES[nd]
    n = int(np.prod(shape, dtype=int)) if shape else 1
    if role in ("table", "table_target", "table2"):
        descr = TABLE2_DESCR if role == "table2" else TABLE_DESCR
        t = np.zeros(n, dtype=descr)
        for j in range(n):
            if role == "table2":
                t[j] = (0.5 + j, 7 - j, b"t%d" % j)
            else:
                t[j] = (j + 1, 1.5 + j, 0.25 * (j + 1), -3 + j, 300 + j, 200 + j, b"r%d" % j if j % 2 else b"ab c", (0.5 * j, -1.0 * j))
        if role == "table_target":
            t = np.zeros(n, dtype=descr)
        return t.reshape(shape)
    if role in FIXED_SHAPE:
        if kind in EXOTIC:
            return _exotic([float(v) for v in FIXED_SHAPE[role].ravel()], None, kind).reshape(FIXED_SHAPE[role].shape)
        return FIXED_SHAPE[role].astype(kind)
    if kind == "S":
        vals = {"ids": STR_VALUES, "ids2": STR_VALUES2, "dups": STR_DUPS}.get(role, STR_VALUES)
        return np.array(vals[:n], dtype="S2").reshape(shape)
    fl, it = ROLE_VALUES[role]
    if kind in EXOTIC:
        return _exotic(fl[:n], it[:n] if it is not None else None, kind).reshape(shape)
    vals = fl if (kind in ("f8", "f4") or it is None) else it
    if kind == "u1":
        vals = [abs(int(v)) for v in vals]
    return np.array(vals[:n], dtype=kind).reshape(shape)


def apply_layout(a, lay):
    """the same values in the requested byte order / memory layout; returns the argument"""
    if lay["order"] == "swapped":
        a = a.astype(a.dtype.newbyteorder("S"))
    g = lay["contig"]
    if g == "c":
        return np.array(a, copy=True, order="C")
    if a.ndim == 0:
        if g != "strided":
            raise MachineryError("0-d arrays have no reversed layout")
        base = np.empty(3, dtype=a.dtype)
        base[...] = a
        base[1] = a
        return base[1:2].reshape(())                      # a 0-d window into a larger buffer
    shp = list(a.shape)
    shp[-1] *= 2
    base = np.empty(shp, dtype=a.dtype)
    base[..., 0::2] = a
    base[..., 1::2] = a                                   # neighbours hold real values too
    if g == "strided":
        return base[..., ::2]
    # reversed: negative stride on the last axis; the view is taken from the FIRST half of the buffer so
    # that code which ignores strides and reads forward from the data pointer stays inside the buffer
    n = a.shape[-1]
    base[..., :n] = a[..., ::-1]
    return base[..., n - 1::-1] if n > 1 else base[..., 0:1]


def _root(x):
    while isinstance(getattr(x, "base", None), np.ndarray):
        x = x.base
    return x


def _dg(b):
    return hashlib.blake2b(b, digest_size=6).hexdigest()


def _bytes_of(x):
    if x.dtype.kind == "O":          # the elements themselves (type and value), not their addresses
        return repr([(type(e).__name__, repr(e)) for e in x.ravel().tolist()]).encode()
    return x.tobytes()


def snapshot(x):
    f = x.flags
    return {"data": _dg(_bytes_of(x)), "base": _dg(_bytes_of(_root(x))),
            "dtype": "%s|%s" % (x.dtype.str, x.dtype.descr),
            "flags": "C%dF%dW%dA%dO%d|%s|%s" % (f.c_contiguous, f.f_contiguous, f.writeable, f.aligned, f.owndata,
                                               x.strides, x.shape)}


# ---- bindings: catalogue name -> real call ------------------------------------------------------
_WCS_HEADERS = {}


def _wcs(kind):
    from esutil import wcsutil
    if kind not in _WCS_HEADERS:
        h = {"naxis": 2, "naxis1": 1024, "naxis2": 1024, "crpix1": 512.0, "crpix2": 512.0, "crval1": 150.0, "crval2": 20.0,
             "cd1_1": -7.0e-5, "cd1_2": 1.0e-6, "cd2_1": 1.0e-6, "cd2_2": 7.0e-5, "cunit1": "deg", "cunit2": "deg"}
        if kind == "tan":
            h.update(ctype1="RA---TAN", ctype2="DEC--TAN")
        elif kind == "tpv":
            h.update(ctype1="RA---TPV", ctype2="DEC--TPV", pv1_0=1e-4, pv1_1=1.001, pv1_2=1e-3, pv1_4=2e-2, pv1_5=1e-2, pv1_6=-1e-2,
                     pv2_0=-1e-4, pv2_1=0.999, pv2_2=-1e-3, pv2_4=-1e-2, pv2_5=2e-2, pv2_6=1e-2)
        else:
            h.update(ctype1="RA---TAN-SIP", ctype2="DEC--TAN-SIP", a_order=2, b_order=2, a_2_0=1e-7, a_1_1=2e-7, a_0_2=-1e-7,
                     b_2_0=-2e-7, b_1_1=1e-7, b_0_2=1e-7, ap_order=2, bp_order=2, ap_2_0=-1e-7, ap_1_1=-2e-7, ap_0_2=1e-7,
                     bp_2_0=2e-7, bp_1_1=-1e-7, bp_0_2=-1e-7)
        _WCS_HEADERS[kind] = wcsutil.WCS(h)
    return _WCS_HEADERS[kind]


_COSMO = {}


def _cosmo(curved):
    import esutil
    if curved not in _COSMO:
        _COSMO[curved] = (esutil.cosmology.Cosmo(omega_m=0.3, omega_l=0.6, omega_k=0.1, flat=False) if curved
                          else esutil.cosmology.Cosmo())
    return _COSMO[curved]


_HTM = {}
BINCOUNT_DEPTH = 6
MATCH_DEPTH = 7


def _htm(depth=10):
    import esutil
    if depth not in _HTM:
        _HTM[depth] = esutil.htm.HTM(depth)
    return _HTM[depth]


def _scalar(x):
    return float(np.asarray(x).ravel()[0])


def bind_axes(name, ax, A, tmp):
    """the real call for an option VECTOR (Frame.tla FrOptAxes): ax = dict axis name -> value name"""
    import esutil
    from esutil import coords, stat
    on = lambda a: ax[a] == "on"   # noqa
    short = name.split(".")[1] if "." in name else name
    if name in ("coords.eq2gal", "coords.gal2eq", "coords.eq2ec", "coords.ec2eq", "coords.ec2gal", "coords.gal2ec"):
        fn = getattr(coords, short)
        return lambda: fn(A["lon"], A["lat"], b1950=on("b1950"), dtype=ax["dtype"])
    if name == "coords.euler":
        return lambda: coords.euler(A["ai"], A["bi"], int(ax["select"]), b1950=on("b1950"), dtype=ax["dtype"])
    if name == "coords.eq2xyz":
        return lambda: coords.eq2xyz(A["ra"], A["dec"], dtype=ax["dtype"], units=ax["units"], stomp=on("stomp"))
    if name == "coords.xyz2eq":
        return lambda: coords.xyz2eq(A["x"], A["y"], A["z"], units=ax["units"], stomp=on("stomp"))
    if name in ("coords.shiftlon", "coords.shiftra"):
        fn = getattr(coords, short)
        shift = {"none": None, "pos": 30.0, "neg": -30.0}[ax["shift"]]
        return lambda: fn(A["lon"] if "lon" in A else A["ra"], shift=shift, wrap=on("wrap"))
    if name == "WCS.image2sky":
        w = _wcs(ax["proj"])
        return lambda: w.image2sky(A["x"], A["y"], distort=on("distort"))
    if name == "WCS.sky2image":
        w = _wcs(ax["proj"])
        return lambda: w.sky2image(A["longitude"], A["latitude"], distort=on("distort"), find=on("find"))
    if name == "WCS.get_jacobian":
        w = _wcs(ax["proj"])
        return lambda: w.get_jacobian(A["x"], A["y"], distort=on("distort"), step={"1": 1.0, "half": 0.5}[ax["step"]])
    if name == "WCS.Distort":
        w = _wcs(ax["proj"])
        return lambda: w.Distort(A["x"], A["y"], inverse=on("inverse"))
    if name == "WCS.Rotate":
        w = _wcs("tan")
        return lambda: w.Rotate(A["lon"], A["lat"], reverse=on("reverse"), origin=on("origin"))
    if name == "stat.wmom":
        kw = dict(calcerr=on("calcerr"), sdev=on("sdev"))
        if ax["inputmean"] == "given":
            kw["inputmean"] = 1.5
        return lambda: stat.wmom(A["arr"], A["weights"], **kw)
    if name in ("stat.sigma_clip", "stat.sigma_clip+weights"):
        kw = dict(nsig=float(ax["nsig"]), niter=int(ax["niter"]), get_err=on("get_err"), get_indices=on("get_indices"))
        return lambda: stat.sigma_clip(A["arr"], weights=A.get("weights"), silent=True, **kw)
    if name in ("stat.get_stats", "stat.get_stats+weights"):
        kw = dict(doprint=on("doprint"))
        if ax["nsig"] != "none":
            kw["nsig"] = float(ax["nsig"])
        return lambda: stat.get_stats(A["arr"], weights=A.get("weights"), **kw)
    if name in ("stat.histogram", "stat.histogram+weights"):
        kw = {"binsize": dict(binsize=1.0), "nbin": dict(nbin=3), "nperbin": dict(nperbin=2)}[ax["bins"]]
        if ax["range"] == "minmax":
            kw.update(min=0.5, max=3.0)
        kw.update(rev=on("rev"), more=on("more"))
        if "weights" in A:
            kw["weights"] = A["weights"]
        return lambda: stat.histogram(A["data"], **kw)
    if name.startswith("Cosmo."):
        fn = getattr(_cosmo(ax["curv"] == "curved"), short)
        if ax["form"] == "aa":
            return lambda: fn(A["zmin"], A["zmax"])
        if ax["form"] == "as":
            return lambda: fn(A["zmin"], _scalar(A["zmax"]))
        return lambda: fn(_scalar(A["zmin"]), A["zmax"])
    if name == "HTM.match":
        kw = dict(maxmatch=int(ax["maxmatch"]))
        if on("file"):
            kw["file"] = os.path.join(tmp, "pairs.dat")
        rad = (lambda: _scalar(A["radius"])) if ax["radius"] == "scalar" else (lambda: A["radius"])
        return lambda: _htm(MATCH_DEPTH).match(A["ra1"], A["dec1"], A["ra2"], A["dec2"], rad(), **kw)
    delims = {"csv": ",", "tab": "\t", "space": " "}
    fam_path = os.path.join(tmp, "f.rec")
    if name in ("sfile.write", "io.write", "recfile.write", "Recfile.write", "SFile.write"):
        from esutil import sfile, recfile
        kw = {"delim": delims[ax["delim"]]} if ax["delim"] in delims else {}
        data = A["data"]
        first = logical("table", "tbl", 1)
        if name in ("sfile.write", "io.write"):
            if on("header"):
                kw["header"] = {"date": "2007-05-12", "n": 3}
            wr = (lambda d, **k: esutil.io.write(fam_path, d, type="rec", **k)) if name == "io.write" else (lambda d, **k: sfile.write(d, fam_path, **k))

            def f():
                if on("append"):
                    wr(first, **kw)
                    return wr(data, append=True, **kw)
                return wr(data, **kw)
            return f
        if name == "recfile.write":
            def f():
                if on("append"):
                    recfile.write(fam_path, first, **kw)
                    return recfile.write(fam_path, data, mode="r+", **kw)
                return recfile.write(fam_path, data, **kw)
            return f
        if name == "Recfile.write":
            kw.update(bracket_arrays=on("bracket"), padnull=on("padnull"), ignorenull=on("ignorenull"))

            def f():
                with recfile.Recfile(fam_path, mode="w", **kw) as r:
                    r.write(data)
            return f

        def f():
            if ax["mode"] == "rplus":
                sfile.write(first, fam_path, **kw)
            with sfile.SFile(fam_path, mode={"w": "w", "rplus": "r+"}[ax["mode"]], **kw) as sf:
                sf.write(data)
                if on("twice"):
                    sf.write(data)
        return f
    if name == "stat.histogram2d":
        kw = {"nx_ny": dict(nx=2, ny=3), "xbin_ybin": dict(xbin=1.0, ybin=1.0)}[ax["bins"]]
        return lambda: stat.histogram2d(A["x"], A["y"], rev=on("rev"), more=on("more"), **kw)
    if name == "numpy_util.extract_fields":
        import esutil.numpy_util as nu
        names = {"one": ["x"], "two": ["s", "id"], "sub_array_field": ["v", "n"]}[ax["names"]]
        return lambda: nu.extract_fields(A["arr"], names, strict=on("strict"))
    if name == "HTM.bincount":
        kw = dict(getbins=on("getbins"))
        if ax["scale"] == "scalar":
            kw["scale"] = 2.0
        return lambda: _htm(BINCOUNT_DEPTH).bincount(0.01, 1.0, 3, A["ra1"], A["dec1"], A["ra2"], A["dec2"], **kw)
    if name == "Matcher.match":
        kw = dict(maxmatch=int(ax["maxmatch"]))
        if on("file"):
            kw["file"] = os.path.join(tmp, "pairs.dat")
        m = esutil.htm.Matcher(MATCH_DEPTH, np.array(ROLE_VALUES["lon"][0]), np.array(ROLE_VALUES["lat"][0]))
        return lambda: m.match(A["ra"], A["dec"], A["radius"], **kw)
    raise MachineryError("no binding for the option axes of catalogue entry %r" % name)


def bind(name, opt, A, tmp, axn=()):
    """returns a thunk that performs the real call on the arguments A (dict parameter -> array)"""
    if opt.startswith("ax:"):
        vals = opt[3:].split(",")
        if len(vals) != len(axn):
            raise MachineryError("option vector %r does not fit the axes %r of %s" % (opt, axn, name))
        return bind_axes(name, dict(zip(axn, vals)), A, tmp)
    import esutil
    import esutil.numpy_util as nu
    from esutil import sfile, recfile, coords, stat
    fam_path = os.path.join(tmp, "f.rec")

    # ---- record files ----------------------------------------------------------------------
    delims = {"csv": ",", "tab": "\t", "space": " ", "colon": ":"}
    if name == "io.write_rec":
        kw = {"delim": delims[opt]} if opt in delims else {}
        return lambda: esutil.io.write_rec(fam_path, A["data"], **kw)
    if name in ("sfile.write", "io.write"):
        o = opt[4:] if name == "io.write" else opt
        parts = o.split("_")
        kw = {}
        if parts[0] in delims:
            kw["delim"] = delims[parts[0]]
        if "header" in parts:
            kw["header"] = {"date": "2007-05-12", "n": 3}
        data = A["data"]

        def f():
            if "append" in parts:
                first = logical("table", "tbl", 1)
                if name == "io.write":
                    esutil.io.write(fam_path, first, type="rec", **kw)
                else:
                    sfile.write(first, fam_path, **kw)
                kw["append"] = True
            if name == "io.write":
                return esutil.io.write(fam_path, data, type="rec", **kw)
            return sfile.write(data, fam_path, **kw)
        return f
    if name == "SFile.write":
        parts = opt.split("_")
        kw = {"delim": delims[parts[0]]} if parts[0] in delims else {}
        data = A["data"]

        def f():
            if opt == "reject_closed":
                sf = sfile.SFile(fam_path, mode="w")
                sf.close()
                return sf.write(data)               # documented: the file must be open for writing
            if "rplus" in parts:
                sfile.write(logical("table", "tbl", 1), fam_path, **kw)
                with sfile.SFile(fam_path, mode="r+", **kw) as sf:
                    sf.write(data)
                return
            with sfile.SFile(fam_path, mode="w", **kw) as sf:
                sf.write(data)
                if "twice" in parts:
                    sf.write(data)
        return f
    if name in ("recfile.write", "Recfile.write"):
        parts = opt.split("_")
        kw = {"delim": delims[parts[0]]} if parts[0] in delims else {}
        for k in ("bracket", "padnull", "ignorenull"):
            if k in parts:
                kw[{"bracket": "bracket_arrays"}.get(k, k)] = True
        data = A["data"]

        def f():
            if opt == "reject_closed":
                r = recfile.Recfile(fam_path, mode="w")
                r.close()
                return r.write(data)                # ValueError: You have not yet opened a file
            if name == "recfile.write":
                if "append" in parts:
                    recfile.write(fam_path, logical("table", "tbl", 1), **kw)
                    return recfile.write(fam_path, data, mode="r+", **kw)
                return recfile.write(fam_path, data, **kw)
            with recfile.Recfile(fam_path, mode="w", **kw) as r:
                r.write(data)
                if "twice" in parts:
                    r.write(data)
        return f

    # ---- field operations ----------------------------------------------------------------------
    if name == "numpy_util.extract_fields":
        names = {"one": ["x"], "two": ["s", "id"], "sub_array_field": ["v", "n"], "nonstrict": ["x", "nosuch"], "reject_missing": ["x", "nosuch"]}[opt]
        return lambda: nu.extract_fields(A["arr"], names, strict=(opt != "nonstrict"))
    if name == "numpy_util.remove_fields":
        names = {"one": ["x"], "two": ["s", "v"], "scalar_name": "f"}[opt]
        return lambda: nu.remove_fields(A["arr"], names)
    if name == "numpy_util.add_fields":
        if opt == "descr":
            return lambda: nu.add_fields(A["arr"], [("new1", "f8"), ("new2", "S3")])
        if opt == "dtype":
            return lambda: nu.add_fields(A["arr"], np.dtype([("new1", ">i4")]))
        return lambda: nu.add_fields(A["arr"], [("new1", "f8"), ("new2", "i4")], defaults=[-9999.0, 7])
    if name == "numpy_util.reorder_fields":
        names = {"front": ["s", "x"], "all": ["v", "s", "b", "h", "n", "f", "x", "id"], "nonstrict": ["nosuch", "x"], "reject_missing": ["nosuch", "x"]}[opt]
        return lambda: nu.reorder_fields(A["arr"], names, strict=(opt != "nonstrict"))
    if name == "numpy_util.combine_fields":
        return (lambda: nu.combine_fields([A["arr1"], A["arr2"]])) if opt == "two" else (lambda: nu.combine_fields([A["arr1"]]))
    if name == "numpy_util.copy_fields":
        return lambda: nu.copy_fields(A["arr1"], A["arr2"])
    if name in ("numpy_util.split_fields", "sfile.split_fields", "recfile.split_fields"):
        fn = {"numpy_util": nu.split_fields, "sfile": sfile.split_fields, "recfile": recfile.Util.split_fields}[name.split(".")[0]]
        if opt == "all":
            return lambda: fn(A["data"])
        if opt == "some":
            return lambda: fn(A["data"], fields=["x", "v"])
        if opt == "reject_missing":
            return lambda: fn(A["data"], fields=["x", "nosuch"])
        return lambda: fn(A["data"], fields=["s"], getnames=True)
    if name == "numpy_util.copy_fields_by_name":
        if opt == "one":
            return lambda: nu.copy_fields_by_name(A["arr"], "x", [A["vals"]])
        return lambda: nu.copy_fields_by_name(A["arr"], ["f", "n"], [A["vals"], A["vals"]])
    if name == "numpy_util.combine_arrlist":
        return lambda: nu.combine_arrlist([A["arr1"], A["arr2"]], keep=(opt == "keep"))

    # ---- byte order, inplace off ----------------------------------------------------------------
    if name in ("numpy_util.to_native", "numpy_util.to_big_endian", "numpy_util.to_little_endian", "numpy_util.byteswap"):
        fn = getattr(nu, name.split(".")[1])
        return lambda: fn(A["array"], inplace=False, keep_dtype=(opt == "keep_dtype_on"))

    # ---- match / unique ---------------------------------------------------------------------------
    if name == "numpy_util.match":
        if opt == "presorted":
            return lambda: nu.match(A["arr1"], A["arr2"], presorted=True)
        return lambda: nu.match(A["arr1"], A["arr2"])
    if name == "numpy_util.match_multi":
        return lambda: nu.match_multi(A["arr1"], A["arr2"])
    if name == "numpy_util.unique":
        return lambda: nu.unique(A["arr"], values=(opt == "values"))
    if name == "numpy_util.strmatch":
        return lambda: nu.strmatch(A["arr"], b"c.*" if opt == "prefix" else b".*")
    if name == "numpy_util.rem_dup":
        return lambda: nu.rem_dup(A["arr"], A["flag"], values=(opt == "values"))

    # ---- histograms ---------------------------------------------------------------------------------
    hkw = {"binsize": dict(binsize=1.0), "nbin": dict(nbin=3), "nperbin": dict(nperbin=2), "binsize_rev": dict(binsize=0.5, rev=True),
           "nbin_minmax": dict(nbin=2, min=0.5, max=3.0), "more": dict(binsize=1.0, more=True),
           "nperbin_nomerge": dict(nperbin=4, mergelast=False), "reject_nodata": dict(nbin=3, min=1000.0, max=2000.0)}
    if name == "stat.histogram":
        return lambda: stat.histogram(A["data"], **hkw[opt])
    if name == "stat.histogram+weights":
        return lambda: stat.histogram(A["data"], weights=A["weights"], **hkw[opt])
    if name.startswith("stat.Binner("):
        def f():
            b = stat.Binner(A["x"], y=A.get("y"), weights=A.get("weights"))
            b.dohist(**hkw[opt])
            b.calc_stats()
            return b
        return f
    h2 = {"nx_ny": dict(nx=2, ny=3), "xbin_ybin": dict(xbin=1.0, ybin=1.0), "rev": dict(nx=2, ny=2, rev=True), "more": dict(nx=2, ny=2, more=True),
          "reject_nodata": dict(nx=2, ny=2, xmin=1000.0, xmax=2000.0)}
    if name == "stat.histogram2d":
        return lambda: stat.histogram2d(A["x"], A["y"], **h2[opt])
    if name == "stat.histogram2d+z+weights":
        return lambda: stat.histogram2d(A["x"], A["y"], z=A["z"], weights=A["weights"], **h2[opt])

    # ---- statistics helpers -----------------------------------------------------------------------------
    if name == "stat.wmom":
        kw = {"default": {}, "calcerr": dict(calcerr=True), "sdev": dict(sdev=True), "inputmean": dict(inputmean=1.5)}[opt]
        return lambda: stat.wmom(A["arr"], A["weights"], **kw)
    if name == "stat.wmedian":
        return lambda: stat.wmedian(A["arr"], A["weights"])
    if name.startswith("stat.sigma_clip"):
        kw = {"default": {}, "get_err": dict(get_err=True), "get_indices": dict(get_indices=True), "tight": dict(nsig=1.0, niter=3)}[opt]
        return lambda: stat.sigma_clip(A["arr"], weights=A.get("weights"), silent=True, **kw)
    if name.startswith("stat.get_stats"):
        kw = {"default": {}, "nsig": dict(nsig=2.0), "doprint": dict(doprint=True)}[opt]
        return lambda: stat.get_stats(A["arr"], weights=A.get("weights"), **kw)
    if name.startswith("stat.print_stats"):
        kw = {"default": {}, "nsig": dict(nsig=2.0)}[opt]
        if "weights" in A:
            kw["weights"] = A["weights"]
        return lambda: stat.print_stats(A["arr"], **kw)
    if name == "stat.interplin":
        return lambda: stat.interplin(A["v"], A["x"], A["u"])
    if name == "stat.cov2cor":
        return lambda: stat.cov2cor(A["cov"])
    if name == "stat.cor2cov":
        return lambda: stat.cor2cov(A["cor"], A["diagerr"])
    if name == "stat.boxcar_average":
        return lambda: stat.boxcar_average(A["x"], 2 if opt == "n2" else 3)

    # ---- coordinates --------------------------------------------------------------------------------------
    if name in ("coords.eq2gal", "coords.gal2eq", "coords.eq2ec", "coords.ec2eq", "coords.ec2gal", "coords.gal2ec"):
        fn = getattr(coords, name.split(".")[1])
        kw = {"j2000": {}, "b1950": dict(b1950=True), "dtype_f4": dict(dtype="f4")}[opt]
        return lambda: fn(A["lon"], A["lat"], **kw)
    if name == "coords.euler":
        return lambda: coords.euler(A["ai"], A["bi"], int(opt[-1]))
    if name == "coords.eq2xyz":
        kw = {"deg": {}, "rad": dict(units="rad"), "stomp": dict(stomp=True)}[opt]
        return lambda: coords.eq2xyz(A["ra"], A["dec"], **kw)
    if name == "coords.xyz2eq":
        kw = {"deg": {}, "rad": dict(units="rad"), "stomp": dict(stomp=True)}[opt]
        return lambda: coords.xyz2eq(A["x"], A["y"], A["z"], **kw)
    if name == "coords.sphdist":
        return lambda: coords.sphdist(A["ra1"], A["dec1"], A["ra2"], A["dec2"], units=opt.split("_"))
    if name == "coords.gcirc":
        return lambda: coords.gcirc(A["ra1"], A["dec1"], A["ra2"], A["dec2"], getangle=(opt == "getangle"))
    if name == "coords.eq2sdss":
        return lambda: coords.eq2sdss(A["ra"], A["dec"], **({"dtype": "f4"} if opt == "dtype_f4" else {}))
    if name == "coords.sdss2eq":
        return lambda: coords.sdss2eq(A["clambda"], A["ceta"], **({"dtype": "f4"} if opt == "dtype_f4" else {}))
    if name in ("coords.shiftlon", "coords.shiftra"):
        fn = getattr(coords, name.split(".")[1])
        kw = {"wrap": {}, "nowrap": dict(wrap=False), "shift_pos": dict(shift=30.0), "shift_neg": dict(shift=-30.0)}[opt]
        return lambda: fn(A["lon"] if "lon" in A else A["ra"], **kw)
    if name == "coords.radec2aitoff":
        return lambda: coords.radec2aitoff(A["ra"], A["dec"])
    if name == "coords.rect_area":
        return lambda: coords.rect_area(A["lon_min"], A["lon_max"], A["lat_min"], A["lat_max"])
    if name == "coords.rotate":
        return lambda: coords.rotate(10.0, 20.0, 30.0, A["ra"], A["dec"])

    # ---- WCS ------------------------------------------------------------------------------------------------
    if name == "WCS.image2sky":
        w = _wcs(opt.split("_")[0])
        return lambda: w.image2sky(A["x"], A["y"], distort=("nodistort" not in opt))
    if name == "WCS.sky2image":
        w = _wcs(opt.split("_")[0])
        return lambda: w.sky2image(A["longitude"], A["latitude"], distort=("nodistort" not in opt), find=("nofind" not in opt))
    if name == "WCS.get_jacobian":
        w = _wcs(opt.split("_")[0])
        return lambda: w.get_jacobian(A["x"], A["y"], distort=("nodistort" not in opt))

    if name in ("WCS.image2sph", "WCS.sph2image"):
        w = _wcs(opt)
        if name == "WCS.image2sph":
            return lambda: w.image2sph(A["x"], A["y"])
        return lambda: w.sph2image(A["longitude"], A["latitude"])
    if name == "WCS.Rotate":
        w = _wcs("tan")
        return lambda: w.Rotate(A["lon"], A["lat"], reverse=(opt == "reverse"))
    if name == "WCS.ApplyCDMatrix":
        w = _wcs("tan")
        return lambda: w.ApplyCDMatrix(A["x"], A["y"], inverse=(opt == "inverse"))
    if name == "WCS.Distort":
        w = _wcs(opt.split("_")[0])
        return lambda: w.Distort(A["x"], A["y"], inverse=("inverse" in opt))
    if name == "wcsutil.wrap_ra_diff":
        from esutil import wcsutil
        return lambda: wcsutil.wrap_ra_diff(A["dra"])

    # ---- cosmology ----------------------------------------------------------------------------------------------
    if name.startswith("Cosmo."):
        meth = name.split(".")[1]
        c = _cosmo("curved" in opt)
        fn = getattr(c, meth)
        if "z" in A:
            return lambda: fn(A["z"])
        if opt.startswith("array_array"):
            return lambda: fn(A["zmin"], A["zmax"])
        if opt == "array_scalar":
            return lambda: fn(A["zmin"], _scalar(A["zmax"]))
        return lambda: fn(_scalar(A["zmin"]), A["zmax"])

    # ---- HTM ------------------------------------------------------------------------------------------------------
    if name == "HTM.lookup_id":
        h = _htm(10 if opt == "depth10" else 4)
        return lambda: h.lookup_id(A["ra"], A["dec"])
    if name in ("HTM.match", "Matcher.match"):
        # depth 7 (triangles of ~0.7 degree) for the 0.25 - 1 degree search radii: the argument handling is that of any
        # depth; at depth 10 each search circle covers hundreds of triangles (90 ms per invocation)
        kw = {"maxmatch1": {}, "maxmatch0": dict(maxmatch=0), "file": dict(file=os.path.join(tmp, "pairs.dat")), "radius_scalar": {}}[opt]
        if name == "HTM.match":
            rad = (lambda: _scalar(A["radius"])) if opt == "radius_scalar" else (lambda: A["radius"])
            return lambda: _htm(MATCH_DEPTH).match(A["ra1"], A["dec1"], A["ra2"], A["dec2"], rad(), **kw)
        m = esutil.htm.Matcher(MATCH_DEPTH, np.array(ROLE_VALUES["lon"][0]), np.array(ROLE_VALUES["lat"][0]))
        return lambda: m.match(A["ra"], A["dec"], A["radius"], **kw)
    if name == "Matcher()":
        return lambda: esutil.htm.Matcher(MATCH_DEPTH, A["ra"], A["dec"])
    if name.startswith("HTM.bincount"):
        kw = {"default": {}, "scale_scalar": dict(scale=2.0), "nobins": dict(getbins=False)}[opt]
        if "scale" in A:
            kw["scale"] = A["scale"]
        if "htmid2" in A:
            kw["htmid2"] = A["htmid2"]
        # depth 6 and a 1 degree outer radius: the cost of a pair count grows with (radius / triangle size)^2
        # (depth 10 with 10 degrees took 1.5 - 4 s per invocation); the argument handling is the same
        return lambda: _htm(BINCOUNT_DEPTH).bincount(0.01, 1.0, 3, A["ra1"], A["dec1"], A["ra2"], A["dec2"], **kw)
    if name == "HTM.cylmatch":
        return lambda: _htm(MATCH_DEPTH).cylmatch(A["ra1"], A["dec1"], A["z1"], A["ra2"], A["dec2"], A["z2"], A["radius"], A["dz"],
                                       unique=(opt == "unique"))
    raise MachineryError("no binding for catalogue entry %r" % name)


def build_args(case):
    A = {}
    nd = int(case["nd"])
    # the large arguments of one call have one number of elements: that of the smallest element among them reaches 2^25 bytes
    nlarge = None
    for prm in case["params"]:
        if prm.get("size") == "large":
            k = prm["lay"]["kind"]
            role = "table" if (k == "tbl" and prm["role"] not in ("table", "table2", "table_target")) else prm["role"]
            nlarge = max(nlarge or 0, large_n(_logical(role, k, 1).dtype.itemsize))
    for prm in case["params"]:
        lay = prm["lay"]
        kind = lay["kind"]
        if prm["role"] == "htmid2":
            ids = _htm(BINCOUNT_DEPTH).lookup_id(np.array(ROLE_VALUES["lon"][0]), np.array(ROLE_VALUES["lat"][0]))
            base = ids.astype(kind).reshape(SHAPES[nd])
        elif kind == "tbl" and prm["role"] not in ("table", "table2", "table_target"):
            base = logical("table", "tbl", nd, prm.get("val", "ord"), prm.get("size", "small"), nlarge)   # byte-order conversion of a table
        else:
            base = logical(prm["role"], kind, nd, prm.get("val", "ord"), prm.get("size", "small"), nlarge)
        A[prm["p"]] = apply_layout(base, lay)
    return A


_TMP = None
AS_LIMIT = 12 << 30     # address-space cap while a catalogue call runs: an absurd allocation (a histogram of an astronomically
                        # wide range) must fail as MemoryError in the callee instead of exhausting the machine


CALL_TIMEOUT = 120      # seconds; a catalogue call that does not come back is a failure of the machinery (the catalogue
                        # offers a callee only the value classes it accepts), never a verdict


def _hung(*_):
    raise MachineryError("a catalogue call did not return within %d s" % CALL_TIMEOUT)


@contextlib.contextmanager
def _capped():
    import resource
    import signal
    soft, hard = resource.getrlimit(resource.RLIMIT_AS)
    cap = AS_LIMIT if hard == resource.RLIM_INFINITY else min(AS_LIMIT, hard)
    resource.setrlimit(resource.RLIMIT_AS, (cap, hard))
    old = signal.signal(signal.SIGALRM, _hung)
    signal.alarm(CALL_TIMEOUT)
    try:
        yield
    finally:
        signal.alarm(0)
        signal.signal(signal.SIGALRM, old)
        resource.setrlimit(resource.RLIMIT_AS, (soft, hard))


def run_case(args):
    rid, case = args
    tmp = os.path.join(_TMP, "c%d" % rid)
    os.makedirs(tmp, exist_ok=True)
    try:
        A = build_args(case)
        order = [p["p"] for p in case["params"]]
        thunk = bind(case["call"], case["opt"], A, tmp, case.get("axn", ()))
        pre = [snapshot(A[p]) for p in order]
        outcome, err = "returned", ""
        with warnings.catch_warnings():
            warnings.simplefilter("ignore")
            with np.errstate(all="ignore"), contextlib.redirect_stdout(io.StringIO()), contextlib.redirect_stderr(io.StringIO()):
                try:
                    with _capped():
                        thunk()
                except MachineryError:
                    raise
                except Exception as e:  # noqa   exceptions are fine - the frame condition still applies
                    outcome, err = "raised", "%s: %s" % (type(e).__name__, str(e)[:80])
        post = [snapshot(A[p]) for p in order]
    finally:
        shutil.rmtree(tmp, ignore_errors=True)
    return {"id": rid, "call": case["call"], "opt": case["opt"], "nd": case["nd"], "lay": [p["lay"] for p in case["params"]],
            "val": [p.get("val", "ord") for p in case["params"]], "size": [p.get("size", "small") for p in case["params"]],
            "expect": case.get("expect", "any"), "outcome": outcome, "err": err, "pre": pre, "post": post, "pnames": order}


# ---- judging -----------------------------------------------------------------------------------------
def layout_class(lay):
    return lay["order"]


def judge(ctx, recs, cases, what):
    rejects = tracecheck.validate(ctx, "FrameTrace.tla",
                                  [{k: r[k] for k in ("id", "call", "opt", "nd", "lay", "val", "size", "outcome", "pre", "post")} for r in recs], what=what)
    byid = {r["id"]: r for r in recs}
    for rid in sorted(rejects):
        r = byid[rid]
        for item in rejects[rid]:
            i, whatch = item.split(":", 1)
            i = int(i)
            if whatch == "not_in_catalogue":
                raise MachineryError("recorded invocation is not a point of the catalogue: %s" % {k: r[k] for k in ("call", "opt", "nd", "lay", "val", "size")})
            pname = r["pnames"][i - 1]
            ctx.violation("%s|%s|%s|%s" % (r["call"], pname, whatch, layout_class(r["lay"][i - 1])),
                          "%s (option %s) changed the %s of its argument %r (layout %s, %d-d, value classes %s and sizes %s of the arguments; call %s%s)"
                          % (r["call"], r["opt"], whatch, pname, r["lay"][i - 1], r["nd"], dict(zip(r["pnames"], r["val"])),
                             dict(zip(r["pnames"], r["size"])), r["outcome"],
                             " " + r["err"] if r["err"] else ""),
                          {"kind": "invocation", "case": cases[rid], "changed": whatch, "param": pname})
    return rejects


BOUNDS = {
    "quick":    dict(NDims={0, 1, 2}, Pairwise=False, ValNDims={1}),
    "thorough": dict(NDims={0, 1, 2}, Pairwise=True, ValNDims={0, 1, 2}),
}


def run(ctx):
    global _TMP
    B = BOUNDS[ctx.tier]
    fams = set(ALL_FAMILIES)
    consts = dict(Families=fams, NDims=B["NDims"], Pairwise=B["Pairwise"], ValNDims=B["ValNDims"], FixedTextWrite=True, FixedWrap=True,
                  FixedOptCopy=True, DoExport=False)
    # 1. the model: frame condition as invariant + action property, catalogue well-formed, mechanism paths refine Invoke
    ctx.tlc("FrameMC.tla", what="frame condition + argument-path mechanism refines Invoke (exhaustive)",
            cfg_text=cfg(constants=consts, invariants=["FrameHolds", "MechRefines", "CatalogueOK", "LayoutsOK"], properties=["FrameAction"]),
            workers=16, require=["ChooseCall", "ChooseLayouts", "Invoke", "MAcquire", "MWork", "MReturn"], timeout=3000)
    # 1b. non-vacuity: the pinned text-output path (in-place native conversion of a view) violates MechRefines
    rb = ctx.tlc("FrameMC.tla", what="self-test: in-place native conversion for text output violates MechRefines",
                 cfg_text=cfg(constants=dict(consts, Families={"recfile"}, NDims={1}, Pairwise=False, FixedTextWrite=False),
                              invariants=["MechRefines"]), workers=4, allow_violation=True, coverage=False)
    if "MechRefines" not in rb.violated:
        raise MachineryError("self-test failed: MechRefines not violated by the deviating mechanism")
    # 1c. the same for a data-dependent write: wrapping out-of-range values into the caller's array
    rb = ctx.tlc("FrameMC.tla", what="self-test: wrapping values by assignment into the argument violates MechRefines",
                 cfg_text=cfg(constants=dict(consts, Families={"wcs"}, NDims={1}, Pairwise=False, FixedWrap=False),
                              invariants=["MechRefines"]), workers=4, allow_violation=True, coverage=False)
    if "MechRefines" not in rb.violated:
        raise MachineryError("self-test failed: MechRefines not violated by the data-dependent in-place write")
    # 1d. and for an option-guarded private copy: the write under a second option lands in the caller's array
    rb = ctx.tlc("FrameMC.tla", what="self-test: a private copy made only under the default of one option violates MechRefines",
                 cfg_text=cfg(constants=dict(consts, Families={"coords"}, NDims={1}, Pairwise=False, FixedOptCopy=False),
                              invariants=["MechRefines"]), workers=4, allow_violation=True, coverage=False)
    if "MechRefines" not in rb.violated:
        raise MachineryError("self-test failed: MechRefines not violated by the option-guarded copy")
    # 2. export catalogue x layouts x options (spec -> code)
    r = ctx.tlc("FrameMC.tla", what="export invocations", cfg_text=cfg(constants=dict(consts, DoExport=True), next_="NextExport",
                                                                         constraints=["Export"]), workers=1, coverage=False, timeout=3000)
    cases = r.records.get("CASE", [])
    if not cases:
        raise MachineryError("no invocations exported")
    jobs = list(enumerate(cases, 1))
    byid = dict(jobs)
    _TMP = tempfile.mkdtemp(prefix="vh-c15-")
    try:
        # warm the objects that are shared by the forked workers
        import esutil  # noqa
        is_large = lambda c: any(p.get("size") == "large" for p in c["params"])   # noqa
        small = [j for j in jobs if not is_large(j[1])]
        large = [j for j in jobs if is_large(j[1])]
        recs = pmap(run_case, small)
        # the large invocations one by one over fewer processes (each holds a few buffers of 32 - 64 MiB)
        recs += pmap(run_case, large, nproc=8, chunk=1)
        recs.sort(key=lambda r_: r_["id"])
    finally:
        shutil.rmtree(_TMP, ignore_errors=True)
    # vacuity: every catalogue entry must have completed normally at least once (else the binding is wrong)
    completed = {}
    for rec in recs:
        completed.setdefault(rec["call"], [0, 0, ""])
        completed[rec["call"]][0 if rec["outcome"] == "returned" else 1] += 1
        if rec["outcome"] == "raised" and not completed[rec["call"]][2]:
            completed[rec["call"]][2] = rec["err"]
    # the deliberate rejections (Frame.tla FrExpectReject) are meant to end in an exception: say how many did, and insist that the
    # dimension is not empty (the verdict does not depend on it: the statement does not say when a call must raise)
    delib = [rec for rec in recs if rec["expect"] == "reject"]
    delib_raised = sum(1 for rec in delib if rec["outcome"] == "raised")
    nlarge = sum(1 for rec in recs if "large" in rec["size"])
    nlarge_raised = sum(1 for rec in recs if "large" in rec["size"] and rec["outcome"] == "raised")
    if not delib_raised or not nlarge or not nlarge_raised:
        raise MachineryError("vacuity: %d deliberate rejections raised, %d large invocations, %d of them raised"
                             % (delib_raised, nlarge, nlarge_raised))
    ctx.note(deliberate_rejections=len(delib), deliberate_rejections_raised=delib_raised,
             deliberate_rejections_that_returned=sorted({"%s|%s" % (rec["call"], rec["opt"]) for rec in delib if rec["outcome"] != "raised"})[:40],
             large_invocations=nlarge, large_invocations_raised=nlarge_raised,
             option_vector_invocations=sum(1 for rec in recs if rec["opt"].startswith("ax:")),
             option_vector_invocations_raised=sorted({"%s|%s|%s" % (rec["call"], rec["opt"], rec["err"][:50]) for rec in recs
                                                      if rec["opt"].startswith("ax:") and rec["outcome"] == "raised"})[:60],
             exotic_kind_invocations=sum(1 for rec in recs if any(l["kind"] in EXOTIC for l in rec["lay"])))
    never = sorted(k for k, v in completed.items() if v[0] == 0)
    if never:
        raise MachineryError("catalogue entries that never completed normally (binding wrong?): %s" %
                             [(k, completed[k][2]) for k in never])
    for rec in recs:
        ctx.count({"call": rec["call"], "opt": rec["opt"], "nd": rec["nd"], "lay": rec["lay"], "val": rec["val"], "size": rec["size"]})
    for rec in recs[:: max(1, len(recs) // 4)][:4]:
        ctx.sample({"call": rec["call"], "opt": rec["opt"], "nd": rec["nd"], "layouts": rec["lay"], "values": rec["val"], "sizes": rec["size"], "outcome": rec["outcome"],
                    "before": rec["pre"], "after": rec["post"]})
    chunk = 50000
    rejected = set()
    for i in range(0, len(recs), chunk):
        rejected |= set(judge(ctx, recs[i:i + chunk], byid, "judge invocations %d.. (FrameTrace)" % (i + 1)))
    # 3. binding self-test: one argument byte flipped after the call / dtype replaced must be rejected, exactly there
    selftest(ctx, [r_ for r_ in recs if r_["id"] not in rejected])
    nraised = sum(1 for rec in recs if rec["outcome"] == "raised")
    ctx.rule = ("every invocation exported from FrameMC.tla: %d catalogue entries x admissible dimensionalities %s x option values x "
                "layout assignments (every admissible [order, contiguity, kind] of one parameter with the others in base layout; one "
                "order/contiguity for all parameters%s) with ordinary values, plus value-class assignments in %s-d (classes nan, inf, zero, "
                "neg, equal, dup, ext, empty as far as the role and element kind admit them: %s); each argument built in that layout with "
                "such values and snapshotted before/after; an invocation is distinct by (call, option, ndim, layouts, value classes, sizes) and "
                "non-trivial always (%d of %d raised, the frame condition applies to them too); plus one parameter in each exotic element "
                "kind (longdouble / uint64 > 2^63 / int64 > 2^53 / float16 / complex128 / object, values not exactly convertible to "
                "float64); plus large arguments (> 2^25 bytes, all or one of them, non-native) for the cheap entry points, with ordinary "
                "values and with the documented rejections (duplicate first array, missing field, closed file, empty range, size mismatch); "
                "plus, for the entry points with several keyword options, every option vector of a strength-2 covering design over "
                "their option axes (<= 2 axes off the default; full product up to 3 axes) in the base layout of all parameters and "
                "in the swapped + strided one"
                % (len(completed), sorted(B["NDims"]), "; every order/contiguity pair for two parameters" if B["Pairwise"] else "",
                   sorted(B["ValNDims"]),
                   "each class of one parameter in every order x contiguity and in every element kind, the same class in all parameters, every "
                   "pair of classes for two parameters" if B["Pairwise"] else
                   "each class of one parameter in its base layout, the same class in all parameters, NaN/inf against zero/negative and NaN "
                   "against inf for every two parameters",
                   nraised, len(recs)))
    ctx.exhaustive = True
    ctx.note(invocations=len(recs), raised=nraised, catalogue_entries=len(completed),
             invocations_with_special_values=sum(1 for rec in recs if any(v != "ord" for v in rec["val"])),
             per_call={k: {"returned": v[0], "raised": v[1]} for k, v in sorted(completed.items())})
    ctx.assumptions = [
        "the catalogue (Frame.tla FrCalls) is the set of public array-taking entry points of the families the statement lists; undocumented in-place helpers (coords.atbound/atbound2, numpy_util.copy_fields_by_name's target) are not claimed",
        "arguments documented as written (copy_fields' second array) are marked mut and exempt",
        "reversed views are taken from the first half of a twice-as-large buffer so that C code that ignores strides cannot read outside it",
        "parameters handed to C code without any conversion (HTM.bincount htmrev2) are not varied",
        "value classes are offered to a role only where the callee accepts them: search radii, dz and scale factors are never NaN, infinite, negative or of extreme magnitude (a pair search over the whole mesh), a right-ascension difference handed to wrap_ra_diff is not of extreme magnitude (it is wrapped 360 degrees at a time and 1e300 never gets there), NaN/inf need a floating kind, negative values a signed one; int32 'extreme' data are all next to 2**31 rather than of both signs (a unit-bin histogram of the full int32 range would need 2**32 bins)",
        "exotic element kinds are offered to every parameter that takes all numeric kinds (the floating ones to float-only parameters); integers beyond 2^53 not to the role that excludes extreme magnitudes; they carry ordinary values only; object arrays are snapshotted by the type and repr of their elements",
        "large arguments (one element more than 2^25 bytes of the smallest element among them) only for entry points without a python loop over the elements, per-element root finding or pair search (Frame.tla FrBig; quick: FrBigQuick)",
        "option axes (Frame.tla FrOptAxes) are declared for the entry points that have more than one keyword option affecting the array path; an option vector is run with ordinary values only",
        "which invocations are deliberate rejections is declared in the catalogue (FrExpectReject); the verdict does not depend on whether they raise - the statement does not say when a call must raise - the counts are reported in the notes",
        "while a catalogue call runs the address space is capped at 12 GiB and a 120 s alarm is armed: an absurd allocation ends as MemoryError in the callee (an accepted outcome), a call that never returns as a machinery error",
    ]


def selftest(ctx, good):
    import copy
    base = next(r for r in good if len(r["pre"]) >= 2)
    keys = ("id", "call", "opt", "nd", "lay", "val", "size", "outcome", "pre", "post")
    a = copy.deepcopy({k: base[k] for k in keys}); a["id"] = 1; a["post"][1]["data"] = "0" * 12
    b = copy.deepcopy({k: base[k] for k in keys}); b["id"] = 2; b["post"][0]["dtype"] = ">f8|swapped"
    c = copy.deepcopy({k: base[k] for k in keys}); c["id"] = 3; c["post"][0]["flags"] = "C0F0W1A1O0|(-8,)|(6,)"
    d = copy.deepcopy({k: base[k] for k in keys}); d["id"] = 4
    saved = ctx.traces
    rej = tracecheck.validate(ctx, "FrameTrace.tla", [a, b, c, d], what="self-test: corrupted snapshots rejected", workers=1)
    ctx.traces = saved
    if rej != {1: ["2:data"], 2: ["1:dtype"], 3: ["1:flags"]}:
        raise MachineryError("binding self-test failed: %s" % rej)
    # and on the real path: flip one byte of a real argument after a real call
    global _TMP
    _TMP = tempfile.mkdtemp(prefix="vh-c15-")
    try:
        case = {"call": "coords.eq2gal", "fam": "coords", "nd": 1, "opt": "j2000",
                "params": [{"p": "lon", "role": "lon", "mut": False, "lay": {"order": "swapped", "contig": "strided", "kind": "f4"}},
                           {"p": "lat", "role": "lat", "mut": False, "lay": {"order": "native", "contig": "c", "kind": "f8"}}]}
        A = build_args(case)
        pre = [snapshot(A["lon"]), snapshot(A["lat"])]
        bind("coords.eq2gal", "j2000", A, _TMP)()
        _root(A["lon"]).view("u1")[5] ^= 1            # a neighbour byte in the base buffer, not in the view
        post = [snapshot(A["lon"]), snapshot(A["lat"])]
    finally:
        shutil.rmtree(_TMP, ignore_errors=True)
    rec = {"id": 1, "call": case["call"], "opt": case["opt"], "nd": 1, "lay": [p["lay"] for p in case["params"]],
           "val": ["ord", "ord"], "size": ["small", "small"], "outcome": "returned", "pre": pre, "post": post}
    saved = ctx.traces
    rej = tracecheck.validate(ctx, "FrameTrace.tla", [rec], what="self-test: flipped base-buffer byte rejected", workers=1)
    ctx.traces = saved
    if rej != {1: ["1:data"]}:
        raise MachineryError("binding self-test failed: a flipped byte in the base buffer was not rejected (%s)" % rej)


def replay(ctx, case):
    global _TMP
    _TMP = tempfile.mkdtemp(prefix="vh-c15-")
    try:
        rec = run_case((1, case["case"]))
    finally:
        shutil.rmtree(_TMP, ignore_errors=True)
    for p, a, b in zip(rec["pnames"], rec["pre"], rec["post"]):
        print("replay %s.%s: %s\n   before %s\n   after  %s" % (rec["call"], p, rec["outcome"] + " " + rec["err"], a, b))
    judge(ctx, [rec], {1: case["case"]}, "replay")
