"""C16 - byte-order conversion preserves values and declares the requested order.

spec -> code : ByteOrderMC.tla enumerates every abstract array (plain / structured, every
               sequence of field kinds incl. nested records, every order spelling, every
               memory layout: owning C-contiguous, contiguous slice, strided, reversed,
               column of a higher-dimensional array, F-ordered 2-d, 0-d window, field(s) of
               a larger record) and every chain of conversions of the bounded depth; each
               chain is executed on real numpy arrays built in that layout inside a parent
               buffer whose other bytes carry a noise pattern.
code -> spec : after every step the real arrays are projected onto the spec's variables
               (declared order character per field, physical order per field - found by
               comparing the field's bytes with the two encodings of its known logical
               values -, buffer identity via np.shares_memory / `is`, structure token, byte
               digest, and the frame: the parent buffer's bytes that are not elements of the
               array and the parent's dtype) and the recorded chains - plus longer seeded
               chains on wider tables in every layout - are judged by ByteOrderTrace.tla
               (clauses of ByteOrder.tla).
the world     : a process executes a SESSION of chains and the library's module-level state is part of the
               world (ByteOrder.tla / ByteOrderMC.tla: NewChain, Fill, SessionThm).  Every record carries the
               process it was executed in and its position there; a step that TLC rejects is executed again,
               its chain alone, in a fresh process: if it is accepted there the violation is history-dependent
               and the case reported (and replayed) is the session - the chains that process executed before,
               shrunk - judged on its last chain.  Sessions  <caller steps / refused call> ; K new distinct
               dtypes converted ; probe chains  exported from the model are run in pristine processes.
Python never judges a result; it only maps abstract <-> concrete and records.
"""
import hashlib
import json
import os
import random
import shutil
import subprocess
import sys
import tempfile
import warnings

import numpy as np

from .. import tracecheck
from ..core import MachineryError
from ..par import pmap
from ..tlc import cfg

NEEDS_EXT = True   # `import esutil` imports recfile, which needs its extension

MACHINE_LE = sys.byteorder == "little"

# concrete catalogue --------------------------------------------------------------------
MULTI = ["i2", "i4", "i8", "u2", "u4", "u8", "f2", "f4", "f8", "f16", "c8", "c16", "c32"]
SINGLE = ["i1", "u1"]
STRS = ["S1", "S3", "S8"]
UNIS = ["U1", "U2", "U5"]                                    # unicode strings: 4-byte code points, they HAVE a byte order
TYPES = {"M": MULTI, "B": SINGLE, "S": STRS, "N": MULTI, "U": UNIS}     # N: nested record [('p', multi-byte), ('q', 'S2')]
SUBSHAPES = [(), (2,), (2, 2), (1,)]
SHAPES = [(3,), (), (2, 2), (1,), (1, 3), (4,)]
NAMES = ["a", "b", "c", "d", "e", "f", "g", "h"]

# memory layouts: array shapes each admits (a strided / reversed axis needs >= 2 elements, F-order needs 2 x 2)
# and the number of concrete variants (see Concrete._embed)
LAYOUTS = ["contig", "slice", "strided", "reversed", "column", "fortran", "zerod", "recview"]
LSHAPES = {
    "contig": SHAPES,
    "slice": [(3,), (2, 2), (1,), (1, 3)],
    "strided": [(3,), (2, 2), (2,), (2, 3)],
    "reversed": [(3,), (2, 2), (2,), (4,)],
    "column": [(3,), (2, 2), (2,)],
    "fortran": [(2, 2), (2, 3), (3, 2)],
    "zerod": [()],
    "recview": [(3,), (), (2, 2), (1, 3)],
}
NVAR = {"contig": 1, "slice": 2, "strided": 3, "reversed": 3, "column": 3, "fortran": 3, "zerod": 2, "recview": 3}
NONCONTIG = {"strided", "reversed", "column"}        # + recview of a plain array (BOLayContiguous in ByteOrder.tla)

FN = {"native": "to_native", "big": "to_big_endian", "little": "to_little_endian", "swap": "byteswap",
      "rnative": "to_native_inplace"}
ENTRY = {"native": "numpy_util.to_native", "big": "numpy_util.to_big_endian", "little": "numpy_util.to_little_endian",
         "swap": "numpy_util.byteswap", "rnative": "recfile.Util.to_native_inplace"}


def _spell(t, sp):
    return sp + t


def concretise(init, conc):
    """abstract array (plain, kinds, spell, layout) + concretisation number -> field list
    [(name, base type, subshape, kind)], array shape, layout variant"""
    kinds = init["kinds"]
    layout = init.get("layout", "contig")
    shapes = LSHAPES[layout]
    shape = shapes[conc % len(shapes)]
    q = conc // len(shapes)
    var = (q // 13) % NVAR[layout]
    fields = []
    for i, k in enumerate(kinds):
        cat = TYPES[k]
        t = cat[(q + 5 * i) % len(cat)]
        sub = () if init["plain"] else SUBSHAPES[(q // len(cat) + i) % len(SUBSHAPES)]
        # field names: a tag makes the dtype distinct from every other table's; upper = the spelling mut_names leaves
        name = NAMES[i] + str(init.get("tag") or "")
        fields.append((name.upper() if init.get("upper") else name, t, sub, k))
    return fields, shape, var


def logical_values(t, m):
    """m logical values of base type t (native order); no value is a byte palindrome"""
    dt = np.dtype(t)
    e = np.arange(m)
    if dt.kind in "iu":
        if dt.itemsize == 1:
            return (e + 1).astype(dt)
        raw = bytes(((1 + b + 3 * int(j)) % 256) for j in e for b in range(dt.itemsize))
        return np.frombuffer(raw, dtype=dt.newbyteorder(">")).astype(dt)
    if dt.kind == "f":
        return (1.5 + e).astype(dt)
    if dt.kind == "c":
        return ((1.5 + e) + 1j * (2.5 + e)).astype(dt)
    if dt.kind == "S":
        return np.array([bytes(97 + (int(j) + b) % 26 for b in range(dt.itemsize)) for j in e], dtype=dt)
    if dt.kind == "U":
        return np.array(["".join(chr(97 + (int(j) + b) % 26) for b in range(dt.itemsize // 4)) for j in e], dtype=dt)
    raise MachineryError("no logical values for " + t)


def _cover(addr0, v, mask):
    """mark the bytes of the buffer starting at address addr0 that are elements of the (leaf fields of the) view v"""
    if v.dtype.names is not None:
        for n in v.dtype.names:
            _cover(addr0, v[n], mask)
        return
    off = np.array([v.__array_interface__["data"][0] - addr0], dtype=np.int64)
    for dim, st in zip(v.shape, v.strides):
        off = (off[:, None] + np.arange(dim, dtype=np.int64) * st).reshape(-1)
    if off.size:
        mask[(off[:, None] + np.arange(v.dtype.itemsize)).reshape(-1)] = True


class Concrete:
    """a real array built for an abstract case, with what the projection needs"""

    def __init__(self, init, conc):
        self.init = init
        self.plain = bool(init["plain"])
        self.layout = init.get("layout", "contig")
        self.wr = init.get("wr", "w")
        self.conc = conc
        self._raw = None
        self.fields, self.shape, self.var = concretise(init, conc)
        sp = init["spell"]
        shape = self.shape
        nelem = int(np.prod(shape, dtype=int)) if shape else 1
        self.enc = []        # per field: (little-endian bytes, big-endian bytes[, bytes of the string member]) of the logical values
        if self.plain:
            name, t, _, _ = self.fields[0]
            logical = logical_values(t, nelem).reshape(shape)
            self.parent, self.a0 = self._embed(np.dtype(_spell(t, sp)), shape)
            self.a0[...] = logical                               # value-preserving assignment
            self.enc.append(self._encodings(logical))
        else:
            def descr(order):
                out = []
                for n, t, s, k in self.fields:
                    ft = [("p", _spell(t, order)), ("q", "S2")] if k == "N" else _spell(t, order)
                    out.append((n, ft, s) if s else (n, ft))
                return out
            nat = np.dtype(descr(""))
            logical = np.zeros(shape, dtype=nat)
            self._descr = descr(sp)
            self.parent, self.a0 = self._embed(np.dtype(self._descr), shape)
            for n, t, s, k in self.fields:
                per = int(np.prod(s, dtype=int)) if s else 1
                if k == "N":
                    logical[n]["p"][...] = logical_values(t, nelem * per).reshape(shape + s)
                    logical[n]["q"][...] = logical_values("S2", nelem * per).reshape(shape + s)
                    self.a0[n]["p"][...] = logical[n]["p"]
                    self.a0[n]["q"][...] = logical[n]["q"]
                    self.enc.append(self._encodings(logical[n]["p"]) + (logical[n]["q"].tobytes(),))
                else:
                    logical[n][...] = logical_values(t, nelem * per).reshape(shape + s)
                    self.a0[n][...] = logical[n]
                    self.enc.append(self._encodings(logical[n]))
        if self.a0.shape != tuple(shape):
            raise MachineryError("layout %s/%d built shape %s for %s" % (self.layout, self.var, self.a0.shape, shape))
        self._frame(noise=True)
        # writeability of the array handed to the conversions
        if self.wr == "ro":                                  # locked by its owner
            self.a0.setflags(write=False)
        elif self.wr == "roview":                            # a read-only view of a writable array
            self.writable_base = self.a0
            self.a0 = self.a0.view()
            self.a0.flags.writeable = False
        elif self.wr == "frombuf":                           # immutable memory: bytes (np.frombuffer) / a mode='r' memmap
            self._raw = self.mem.tobytes() + b"\0"             # (+1: CPython shares one object between equal 1-byte strings)
            dt = self.a0.dtype
            self.parent, self.a0 = self._embed(dt, shape)
            self._frame(noise=False)
            if self.a0.flags.writeable or not np.array_equal(self.mem, np.frombuffer(self._raw, dtype=np.uint8)[:-1]):
                raise MachineryError("read-only rebuild of layout %s/%d failed" % (self.layout, self.var))
        elif self.wr != "w":
            raise MachineryError("unknown writeability " + self.wr)

    def _frame(self, noise):
        """the parent buffer as raw memory; the bytes that are not elements of a0 get a noise pattern and must stay"""
        p = self.parent
        self.mem = (p if p.flags.c_contiguous else p.T).reshape(-1).view(np.uint8)
        if not np.shares_memory(self.mem, p) or self.mem.size != p.nbytes:
            raise MachineryError("no raw view of the parent buffer")
        mask = np.zeros(self.mem.size, dtype=bool)
        _cover(self.mem.__array_interface__["data"][0], self.a0, mask)
        self.outside = np.flatnonzero(~mask)
        if noise:
            self.mem[self.outside] = ((self.outside * 7 + 3) % 251 + 1).astype(np.uint8)
        self.rest0 = self.mem[self.outside].copy()
        self.pdtype0 = self.parent.dtype

    def _alloc(self, shape, dt, order="C"):
        """a zeroed parent buffer - or, for the read-only rebuild, the same array over the immutable copy of its memory"""
        if self._raw is None:
            return np.zeros(shape, dt, order=order)
        if self.conc % 3 == 2 and tuple(shape) != ():
            import os
            import tempfile
            fd, path = tempfile.mkstemp(prefix="C16-mm-", dir="/tmp")
            try:
                with os.fdopen(fd, "wb") as f:
                    f.write(self._raw)
                return np.memmap(path, dtype=dt, mode="r", shape=tuple(shape), order=order)
            finally:
                os.unlink(path)                              # the mapping stays valid
        return np.ndarray(shape, dt, buffer=self._raw, order=order)     # = np.frombuffer(raw, dt).reshape(shape)

    def _embed(self, dt, S):
        """(parent, a0): a zeroed parent buffer and the array of dtype dt and shape S laid out in it as the layout says"""
        lay, var = self.layout, self.var
        z = self._alloc
        if lay == "contig":
            p = z(S, dt)
            return p, p
        if lay == "slice":                                   # contiguous window of a longer buffer
            lead = 2 if var == 0 else 0
            p = z((S[0] + 3,) + S[1:], dt)
            return p, p[lead:lead + S[0]]
        if lay == "strided":                                 # a[1::2], a[1::3], b[1::2, ::2]
            if var == 2 and len(S) == 2:
                p = z((1 + 2 * S[0], 2 * S[1]), dt)
                return p, p[1::2, ::2]
            step = 2 + (var % 2)
            p = z((1 + step * S[0],) + S[1:], dt)
            return p, p[1::step]
        if lay == "reversed":                                # a[::-1], a[::-2], b[:, ::-1] / a[-2::-3]
            if var == 0:
                p = z(S, dt)
                return p, p[::-1]
            if var == 1:
                p = z((2 * S[0],) + S[1:], dt)
                return p, p[::-2]
            if len(S) == 2 and S[1] >= 2:
                p = z(S, dt)
                return p, p[:, ::-1]
            p = z((3 * S[0],) + S[1:], dt)
            return p, p[-2::-3]
        if lay == "column":                                  # b[..., k] of an array one dimension up
            p = z(S + (3,), dt)
            return p, p[..., var]
        if lay == "fortran":                                 # F-ordered owner, transpose of a C array, window of an F buffer
            if var == 0:
                p = z(S, dt, "F")
                return p, p
            if var == 1:
                p = z(S[::-1], dt)
                return p, p.T
            p = z((S[0], S[1] + 2), dt, "F")
            return p, p[:, 1:1 + S[1]]
        if lay == "zerod":                                   # 0-d window of a 1-d / 2-d buffer
            if var == 0:
                p = z((3,), dt)
                return p, p[1, ...]
            p = z((2, 2), dt)
            return p, p[1, 0, ...]
        if lay == "recview":                                 # field(s) of a larger record
            if self.plain:
                if var == 2 and len(S) >= 1:                 # a sub-array column
                    p = z(S[:-1], np.dtype([("pre", "u1"), ("x", dt, (S[-1],)), ("post", "<i4")]))
                elif var == 1:
                    p = z(S, np.dtype([("pre", "<f4"), ("x", dt), ("post", "u1")]))
                else:
                    p = z(S, np.dtype([("pre", "S3"), ("x", dt), ("post", ">i2")]))
                return p, p["x"]
            d = list(self._descr)
            if var == 0:
                d = [("pre", "S3")] + d + [("post", ">i2")]
            elif var == 1:
                d = [("pre", "<f4")] + d[:1] + [("mid", ">u2")] + d[1:]
            else:
                d = d + [("post", "<i8")]
            p = z(S, np.dtype(d))
            return p, p[list(dt.names)]
        raise MachineryError("unknown layout " + lay)

    @staticmethod
    def _encodings(x):
        b = x.dtype.base
        if b.itemsize == 1 or b.kind == "S":
            raw = x.tobytes()
            return raw, raw
        return x.astype(b.newbyteorder("<")).tobytes(), x.astype(b.newbyteorder(">")).tobytes()

    def leaf(self, x, i):
        """the array holding the byte-ordered data of abstract field i of x (None if the structure is gone)"""
        if self.plain:
            return x
        if x.dtype.names is None or i >= len(x.dtype.names):
            return None
        v = x[x.dtype.names[i]]
        if i < len(self.fields) and self.fields[i][3] == "N":
            return v["p"] if v.dtype.names == ("p", "q") else None
        return v

    def field_views(self, x):
        if self.plain:
            return [x]
        if x.dtype.names is None:
            return []
        return [v for v in (self.leaf(x, i) for i in range(len(x.dtype.names))) if v is not None]

    def project_array(self, x):
        """one real array -> [decl, phys, sig, shp] of the spec"""
        if not isinstance(x, np.ndarray):
            return {"decl": [], "phys": [], "sig": "not-an-array:" + type(x).__name__, "shp": ""}
        if self.plain != (x.dtype.names is None):
            return {"decl": [], "phys": [], "sig": "plain/structured changed", "shp": str(x.shape)}
        nf = 1 if self.plain else len(x.dtype.names)
        decl, phys, sig = [], [], []
        for i in range(nf):
            v = self.leaf(x, i)
            name = "" if self.plain else x.dtype.names[i]
            sub = "" if self.plain else str(x.dtype.fields[name][0].shape)
            if v is None:
                decl.append("?")
                phys.append("corrupt")
                sig.append("%s:?:%s" % (name, sub))
                continue
            b = v.dtype.base
            nested = (not self.plain) and x.dtype.fields[name][0].base.names is not None
            decl.append(b.byteorder)
            sig.append("%s:%s%s%d:%s" % (name, "N/" if nested else "", b.kind, b.itemsize, sub))
            if i < len(self.enc):
                raw = v.tobytes()
                e = self.enc[i]
                if b.itemsize == 1 or b.kind == "S":
                    phys.append("|" if raw == e[0] else "changed")
                elif len(e) == 3 and x[name]["q"].tobytes() != e[2]:
                    phys.append("corrupt")
                else:
                    phys.append("<" if raw == e[0] else ">" if raw == e[1] else "corrupt")
            else:
                phys.append("corrupt")
        return {"decl": decl, "phys": phys, "sig": ";".join(sig), "shp": str(tuple(x.shape))}

    def rest(self):
        """the bytes of the parent buffer outside the initial array, and the parent's dtype"""
        if self.parent is not self.a0 and (self.parent.dtype != self.pdtype0 or str(self.parent.dtype) != str(self.pdtype0)):
            return "changed"
        return "intact" if np.array_equal(self.mem[self.outside], self.rest0) else "changed"

    def lay(self):
        a = self.a0
        return {"cc": bool(a.flags.c_contiguous), "fc": bool(a.flags.f_contiguous), "owns": bool(a.flags.owndata),
                "neg": bool(any(st < 0 for st in a.strides)), "nd": int(a.ndim)}


def _leaf_bytes(x, out):
    if x.dtype.names is None:
        out.append(x.tobytes())
    else:
        for n in x.dtype.names:          # field by field: padding of a record view is not data
            _leaf_bytes(x[n], out)


def _digest(x):
    try:
        out = []
        _leaf_bytes(x, out)
        return hashlib.blake2b(b"".join(out), digest_size=6).hexdigest()
    except Exception:  # noqa
        return "?"


def observe_state(tables, objs, lins, res, err="none", first=False):
    """project every array object alive onto the spec's variables.  tables: the Concrete of every table the caller
    built (they all hold the same logical values), lins[j]: lineage of objs[j] (1-based index of its table's array)"""
    import esutil.numpy_util as nu
    import esutil.recfile.Util as ru
    cc = tables[0]
    roots = [j for j in range(len(objs)) if lins[j] == j + 1]
    arrs = []
    for j, x in enumerate(objs):
        # judged against the encodings of its own table's values (padding bytes of long double differ between builds)
        p = tables[roots.index(lins[j] - 1)].project_array(x)
        grp = j
        for i in range(j):
            if isinstance(x, np.ndarray) and isinstance(objs[i], np.ndarray) and np.shares_memory(objs[i], x):
                grp = i
                break
        else:
            if isinstance(x, np.ndarray) and lins[j] != j + 1:
                for t, root in zip(tables, roots):
                    if np.shares_memory(t.parent, x):
                        grp = root                     # somewhere else in a table's parent buffer
                        break
        p["grp"] = grp + 1
        p["hash"] = _digest(x) if isinstance(x, np.ndarray) else "?"
        p["w"] = bool(x.flags.writeable) if isinstance(x, np.ndarray) else False
        p["lin"] = lins[j]
        arrs.append(p)
    cur = objs[res]
    pred = {"err": "none", "big": [], "little": [], "rlittle": []}
    dn = []
    if isinstance(cur, np.ndarray):
        try:
            for v in cc.field_views(cur):
                pred["big"].append(bool(nu.is_big_endian(v)))
                pred["little"].append(bool(nu.is_little_endian(v)))
                pred["rlittle"].append(bool(ru.is_little_endian(v.dtype)))
        except Exception as e:  # noqa
            pred = {"err": type(e).__name__, "big": [], "little": [], "rlittle": []}
        # descriptor strippers: flat descriptors only (a nested record's or a padded record view's descr is outside
        # what the helpers are documented for, and the statement is silent on them)
        if cur.dtype.names is not None and cc.layout != "recview" and not any(f[3] == "N" for f in cc.fields):
            for fn, call in (("numpy_util.descr_to_native", lambda: nu.descr_to_native(cur.dtype.descr)),
                             ("recfile.Util.remove_dtype_byteorder", lambda: ru.remove_dtype_byteorder(cur.dtype))):
                try:
                    d = np.dtype(call())
                    decl = [d.fields[n][0].base.byteorder for n in d.names]
                    sig = ";".join("%s:%s%d:%s" % (n, d.fields[n][0].base.kind, d.fields[n][0].base.itemsize,
                                                    str(d.fields[n][0].shape)) for n in d.names)
                    dn.append({"fn": fn, "err": "none", "decl": decl, "sig": sig})
                except Exception as e:  # noqa
                    dn.append({"fn": fn, "err": type(e).__name__, "decl": [], "sig": ""})
    st = {"res": res + 1, "err": err, "arrs": arrs,
          "rest": "intact" if all(t.rest() == "intact" for t in tables) else "changed", "pred": pred, "dn": dn}
    if first:
        st["lay"] = cc.lay()
    return st


CALLER = ("fresh", "mut_names", "mut_shape", "mut_lock")


# the chains this process has executed (its session): every record says where in it the chain ran
_PROC = {"tag": "P", "n": 0, "main": os.getpid(), "epoch": 0}


def run_chain(args):
    """execute one history on real arrays; returns the trace record"""
    rid, init, ops, conc = args
    _PROC["n"] += 1
    import esutil.numpy_util as nu
    import esutil.recfile.Util as ru
    cc = Concrete(init, conc)
    dtype0 = str(cc.a0.dtype)
    tables = [cc]
    objs = [cc.a0]
    lins = [1]
    res = 0
    st = [observe_state(tables, objs, lins, res, first=True)]
    with warnings.catch_warnings():
        warnings.simplefilter("ignore")
        for op in ops:
            arg = objs[res]
            err = "none"
            fn = op["fn"]
            if fn in CALLER:                       # a step of the caller between conversions
                try:
                    if fn == "fresh":              # another table of the same dtype: own dtype object, own buffer
                        t = Concrete(init, conc)
                        tables.append(t)
                        objs.append(t.a0)
                        lins.append(len(objs))
                        res = len(objs) - 1
                    elif fn == "mut_names":        # numpy's in-place rename (esutil.io.read_fits(lower=True) does this)
                        arg.dtype.names = tuple(n.upper() for n in arg.dtype.names)
                    elif fn == "mut_shape":
                        arg.shape = tuple(arg.shape) + (1,)
                    else:
                        arg.setflags(write=False)
                except Exception as e:  # noqa
                    err = "caller:" + type(e).__name__
                st.append(observe_state(tables, objs, lins, res, err))
                continue
            try:
                if fn == "rnative":
                    ru.to_native_inplace(arg)
                    out = arg                      # documented to work in place; nothing is returned
                else:
                    out = getattr(nu, FN[fn])(arg, inplace=bool(op["inplace"]), keep_dtype=bool(op["keep"]))
                if not isinstance(out, np.ndarray):
                    err = "result_not_an_array"
            except Exception as e:  # noqa
                err = type(e).__name__
            if err == "none":
                for j, o in enumerate(objs):
                    if o is out:
                        res = j
                        break
                else:
                    objs.append(out)
                    lins.append(lins[res])
                    res = len(objs) - 1
            st.append(observe_state(tables, objs, lins, res, err))
    return {"id": rid, "kinds": init["kinds"], "spell": init["spell"], "plain": cc.plain, "layout": cc.layout, "wr": cc.wr,
            "ops": ops, "st": st, "conc": conc, "dtype": dtype0, "shape": list(cc.shape), "variant": cc.var,
            "tag": init.get("tag") or "", "upper": bool(init.get("upper")),
            "proc": ("%s%d" if os.getpid() == _PROC["main"] else "%s%d." + str(_PROC["epoch"])) % (_PROC["tag"], os.getpid()),
            "seq": _PROC["n"]}


def init_of(r):
    """the abstract array of a record (what run_chain needs to build it again)"""
    init = {"plain": r["plain"], "kinds": r["kinds"], "spell": r["spell"], "layout": r["layout"], "wr": r["wr"]}
    if r.get("tag"):
        init["tag"] = r["tag"]
    if r.get("upper"):
        init["upper"] = True
    return init


# ---- sessions in pristine processes --------------------------------------------------------
HARNESS = os.path.dirname(os.path.dirname(os.path.dirname(os.path.abspath(__file__))))


def fresh_sessions(ctx, sessions, last_only=False):
    """execute every session (a list of jobs (id, init, ops, conc)) in a process of its own, forked from a freshly
    started interpreter that has imported esutil and executed nothing.  Returns the records, session by session
    (last_only: only the record of each session's last chain)."""
    sessions = [[list(j) for j in s] for s in sessions]
    if not sessions:
        return []
    d = tempfile.mkdtemp(prefix="C16-fresh-", dir="/tmp")
    try:
        nproc = max(1, min(16, os.cpu_count() or 1, int(os.environ.get("VH_MAX_WORKERS", "16"))))
        with open(os.path.join(d, "in.json"), "w") as f:
            json.dump({"tree": ctx.tree, "sessions": sessions, "last_only": bool(last_only), "nproc": nproc}, f)
        env = dict(os.environ)
        env["PYTHONPATH"] = os.pathsep.join([ctx.tree, HARNESS] + ([env["PYTHONPATH"]] if env.get("PYTHONPATH") else []))
        r = subprocess.run([sys.executable, "-c", "from vh.adapters import c16; c16._fresh_main(%r)" % d], env=env,
                           stdout=subprocess.PIPE, stderr=subprocess.PIPE, text=True, timeout=7200)
        out = os.path.join(d, "out.json")
        if r.returncode != 0 or not os.path.exists(out):
            raise MachineryError("fresh-process runner failed (rc %s): %s" % (r.returncode, (r.stderr or r.stdout)[-1500:]))
        with open(out) as f:
            res = json.load(f)
        if len(res) != len(sessions) or any(len(x) != (1 if last_only else len(s)) for x, s in zip(res, sessions)):
            raise MachineryError("fresh-process runner returned %d sessions for %d" % (len(res), len(sessions)))
        return res
    finally:
        shutil.rmtree(d, ignore_errors=True)


def _run_session(arg):
    i, jobs, last_only = arg
    _PROC["tag"] = "S%d:" % i
    recs = [run_chain(tuple(j)) for j in jobs]
    return recs[-1:] if last_only else recs


def _fresh_main(d):
    """entry point of the fresh interpreter (see fresh_sessions)"""
    import multiprocessing as mp
    from ..core import jsonable
    with open(os.path.join(d, "in.json")) as f:
        req = json.load(f)
    import esutil
    if not os.path.realpath(esutil.__file__).startswith(os.path.realpath(req["tree"])):
        sys.exit("esutil imported from %s, not from %s" % (esutil.__file__, req["tree"]))
    if _PROC["n"]:
        sys.exit("the fresh interpreter has already executed a chain")
    args = [(i, s, req["last_only"]) for i, s in enumerate(req["sessions"])]
    with mp.get_context("fork").Pool(max(1, min(req["nproc"], len(args))), maxtasksperchild=1) as pool:
        res = pool.map(_run_session, args, chunksize=1)
    with open(os.path.join(d, "out.json.tmp"), "w") as f:
        json.dump(res, f, default=jsonable)
    os.replace(os.path.join(d, "out.json.tmp"), os.path.join(d, "out.json"))


# ---- classification of rejected steps (signatures) ---------------------------------------
def layout_class(rec, k=None, clause=""):
    """'' for a writable array owning its C-contiguous buffer converted without the caller stepping in; else whether
    numpy flags the window contiguous, whether the initial array is read-only, whether the caller acted before step k.
    Clauses that are about a refused call / a caller step name just that."""
    if clause == "rejected_call_changes_nothing":
        return "@refused_call"
    if clause.startswith("caller_mutation"):
        return "@caller_steps"
    lay = rec.get("layout", "contig")
    c = ""
    if lay != "contig":
        c = "@noncontiguous_view" if lay in NONCONTIG or (lay == "recview" and rec["plain"]) else "@contiguous_view"
    if rec.get("wr", "w") != "w":
        c += "@readonly"
    if any(op["fn"] in CALLER for op in rec["ops"][:k]):
        c += "@caller_steps"
    return c


def struct_class(rec):
    kinds = rec["kinds"]
    if rec["plain"]:
        return "plain:" + kinds[0]
    nm = sum(1 for k in kinds if k in ("M", "U"))
    if "U" in kinds and "M" not in kinds and "N" not in kinds:
        c = "struct:byte_order_only_in_unicode_fields"
    elif "N" in kinds:
        c = "struct:nested_record+multibyte" if nm else "struct:multibyte_only_in_nested_record"
    elif nm == len(kinds):
        c = "struct:all_multibyte"
    elif nm == 0:
        c = "struct:no_multibyte"
    else:
        c = "struct:multibyte+nobyteorder_field"
    return c


TRACE_KEYS = ("id", "kinds", "spell", "layout", "wr", "plain", "ops", "st")


def classify(r, item):
    """a failing item "<step>:<clause>" of the trace module on record r -> (step, entry point, clause)"""
    k, clause = item.split(":", 1)
    k = int(k)
    if clause == "init_mismatch":
        raise MachineryError("harness built an initial array that is not the abstract one: %s" % (r,))
    if ":" in clause:                       # descriptor strippers:  "<fn>:<clause>"
        entry, clause = clause.split(":", 1)
    elif clause in ("is_big_endian", "is_little_endian"):
        entry, clause = "numpy_util." + clause, "agrees_with_declared_order"
    elif clause == "recfile_is_little_endian":
        entry, clause = "recfile.Util.is_little_endian", "agrees_with_declared_order"
    elif clause == "predicate_error":
        entry = "numpy_util.is_big_endian/is_little_endian"
    elif k >= 1 and r["ops"][k - 1]["fn"] in CALLER:
        # a caller step shows on an unrelated array: the entry point is the conversion that made them related
        convs = [op["fn"] for op in r["ops"][:k] if op["fn"] in ENTRY]
        entry = ENTRY[convs[-1]] if convs else "caller"
    else:
        entry = ENTRY[r["ops"][k - 1]["fn"]] if k >= 1 else "initial"
    return k, entry, clause


def validate(ctx, recs, what, **kw):
    return tracecheck.validate(ctx, "ByteOrderTrace.tla", [{k: r[k] for k in TRACE_KEYS} for r in recs],
                               what=what, constants={"MachineLE": MACHINE_LE}, **kw)


def judge(ctx, recs, what, pending=None):
    """TLC judges the records; rejected steps become violations (collected in `pending` so that the
    shortest failing chain of each signature is reported first)"""
    emit = pending if pending is not None else []
    rejects = validate(ctx, recs, what)
    byid = {r["id"]: r for r in recs}
    for rid in sorted(rejects):
        r = byid[rid]
        for item in rejects[rid]:
            k, entry, clause = classify(r, item)
            case = {"kind": "chain", "init": init_of(r),
                    "ops": r["ops"][:k], "conc": r["conc"], "dtype": r["dtype"], "shape": r["shape"],
                    "layout_variant": r["variant"], "failing_step": k, "clause": clause, "entry": entry}
            emit.append((len(case["ops"]), rid, ("%s|%s|%s" % (entry, clause, struct_class(r)), layout_class(r, k, clause),
                                                 "%s|%s|%s" % (entry, clause, "plain" if r["plain"] else "struct")),
                         "byte-order conversion outcome not allowed by ByteOrder.tla: step %d (%s) fails clause %s on %s%s, layout %s/%d"
                         % (k, entry, clause, r["dtype"], tuple(r["shape"]), r["layout"], r["variant"]), case))
    if pending is None:
        flush(ctx, emit)
    return rejects


def flush(ctx, pending, recs=None):
    """the layout class is part of a signature only when the layout is what triggers the failure: i.e. when the same
    (entry point, clause, structure) never fails on an array that owns its C-contiguous buffer.
    recs (all records of the run): rejected steps are first attributed - to their chain, or to the session of the
    process that executed it (attribute)"""
    anywhere = {sig for _, _, (sig, lc, _), _, _ in pending if lc == ""}
    items = [(sig if sig in anywhere else coarse + lc, what, case, rid)
             for _, rid, (sig, lc, coarse), what, case in sorted(pending, key=lambda t: (t[0], t[1]))]
    if recs is None or not items:
        for sig, what, case, _ in items:
            ctx.violation(sig, what, case)
        return
    attribute(ctx, items, recs)


# ---- attribution: the chain, or the session of the process that executed it ---------------------
SESSION_CLAUSE = "result_depends_on_earlier_chains"
MAX_GROUPS, REPS, MAX_TARGETS = 300, 3, 6


def session_signature(entry, clause):
    return "session|%s|%s,%s" % (SESSION_CLAUSE, entry, clause)


def _fails(rec, rejects, rid, k, entry, clause):
    return any(classify(rec, item) == (k, entry, clause) for item in rejects.get(rid, []))


def is_suspect(r):
    """a chain in which something else than successful conversions happened (what may leave module-level state behind)"""
    return any(op["fn"] in CALLER for op in r["ops"]) or any(s["err"] != "none" for s in r["st"])


def attribute(ctx, items, recs):
    """items: (signature, what, case, record id) of every rejected step, shortest chains first.  One to three
    representatives of every signature are executed again, each chain alone in a fresh process, and judged by TLC:
      - rejected there as well: the violation is the chain's, reported as it always was;
      - accepted there: the outcome depends on what the process had executed before.  The case is then the SESSION:
        the chains of that process up to the failing one, shrunk by a few rounds of bisection (every candidate
        executed in a fresh process, its last chain judged by TLC), signature session|result_depends_on_earlier_chains|.."""
    byid = {r["id"]: r for r in recs}
    hist = {}
    for r in recs:
        hist.setdefault(r["proc"], []).append((r["seq"], r["id"]))
    for h in hist.values():
        h.sort()
    groups = {}
    for it in items:
        groups.setdefault(it[0], []).append(it)
    order = list(groups)
    reps = []
    for sig in order[:MAX_GROUPS]:
        g = groups[sig]
        # the shortest chain, then chains of other processes - one of an exported session first (its history is the same in every run)
        chosen, procs = [g[0]], {byid[g[0][3]]["proc"]}
        for it in sorted(g[1:], key=lambda x: not byid[x[3]]["proc"].startswith("S")):
            if len(chosen) >= REPS:
                break
            if byid[it[3]]["proc"] not in procs:
                chosen.append(it)
                procs.add(byid[it[3]]["proc"])
        reps += [(sig, it) for it in chosen]
    alone = fresh_sessions(ctx, [[(i + 1, it[2]["init"], it[2]["ops"], it[2]["conc"])] for i, (_, it) in enumerate(reps)], last_only=True)
    arecs = [x[0] for x in alone]
    saved = ctx.traces
    rej = validate(ctx, arecs, "rejected chains executed alone in fresh processes (%d of %d signatures)" % (len(arecs), len(order)))
    ctx.traces = saved
    fails_alone = {}
    for (sig, it), r in zip(reps, arecs):
        c = it[2]
        fails_alone.setdefault(sig, []).append((it, _fails(r, rej, r["id"], c["failing_step"], c["entry"], c["clause"])))
    dependent = []
    for sig in order:
        g = groups[sig]
        fa = fails_alone.get(sig)
        if fa is None or any(f for _, f in fa):
            # the chain's own violation (or beyond the cap: reported unexamined); a case that fails alone goes first
            first = next((it for it, f in (fa or []) if f), g[0])
            for it in [first] + [x for x in g if x is not first]:
                ctx.violation(it[0], it[1], it[2])
        else:
            dependent.append((sig, g, [it for it, _ in fa]))
    if not dependent:
        return
    targets = {}
    for sig, g, its in dependent:
        for it in its:
            c = it[2]
            ssig = session_signature(c["entry"], c["clause"])
            t = targets.setdefault(ssig, {"n": 0, "best": None, "sigs": set()})
            key = (not byid[it[3]]["proc"].startswith("S"), byid[it[3]]["seq"], it[3])
            if t["best"] is None or key < t["best"][0]:
                t["best"] = (key, it)
        # (all representatives of the group share entry and clause)
        t = targets[session_signature(its[0][2]["entry"], its[0][2]["clause"])]
        t["n"] += len(g)
        t["sigs"].add(sig)
    names = sorted(targets, key=lambda s: (targets[s]["best"][0], s))
    todo = []
    for ssig in names[:MAX_TARGETS]:
        it = targets[ssig]["best"][1]
        r = byid[it[3]]
        H = [byid[rid] for seq, rid in hist[r["proc"]] if seq < r["seq"]]
        todo.append({"ssig": ssig, "item": it, "H": H, "S": [i for i, h in enumerate(H) if is_suspect(h)]})
    ctx.log("history-dependent: %d signature(s) accepted when the chain runs alone in a fresh process; re-executing the sessions"
            % len(names))
    shrink_sessions(ctx, todo)
    for t in todo:
        sig, what, c, rid = t["item"]
        n = targets[t["ssig"]]["n"]
        if t["idx"] is None:
            ctx.violation(sig, what + " [accepted when the chain is executed alone in a fresh process, and not reproduced by executing "
                          "the %d chains its process had executed before it again: not reproducible from a case]" % len(t["H"]), c)
            continue
        chains = [{"init": init_of(t["H"][i]), "ops": t["H"][i]["ops"], "conc": t["H"][i]["conc"]} for i in t["idx"]]
        chains.append({"init": c["init"], "ops": c["ops"], "conc": c["conc"]})
        case = {"kind": "session", "chains": chains, "failing_chain": len(chains), "failing_step": c["failing_step"],
                "entry": c["entry"], "clause": c["clause"], "last_chain_alone_in_fresh_process": "accepted",
                "dtype": c["dtype"], "shape": c["shape"], "chains_before_in_the_observed_process": len(t["H"]),
                "chain_signatures": sorted(targets[t["ssig"]]["sigs"])[:12]}
        ctx.violation(t["ssig"],
                      "the outcome of a chain depends on the chains the same process executed before it: step %d (%s) of the last chain "
                      "fails clause %s on %s%s after the %d chain(s) listed (shrunk from %d), and is accepted when the chain is executed "
                      "alone in a fresh process; %d rejected step(s) of this run are of that kind"
                      % (c["failing_step"], c["entry"], c["clause"], c["dtype"], tuple(c["shape"]), len(chains) - 1, len(t["H"]), n), case)
    if len(names) > MAX_TARGETS:
        ctx.note(history_dependent_signatures_not_reported=names[MAX_TARGETS:])


def _candidate(H, S, m, n):
    """indices into H: the last m suspects before the last n chains, and the last n chains"""
    n = min(n, len(H))
    start = len(H) - n
    sus = [i for i in S if i < start]
    return tuple((sus[-m:] if m else []) + list(range(start, len(H))))


def shrink_sessions(ctx, todo, rounds=3):
    """sets t["idx"] (indices into t["H"] of the chains kept before the failing one; None: not reproduced) for every
    target.  The number of rounds is fixed (no wall-clock decision); all candidates of a round run side by side."""
    def test(cands):
        """cands: [(target, idx)] -> [reproduces?]"""
        sessions, last = [], []
        for t, idx in cands:
            c = t["item"][2]
            sessions.append([(j + 1, init_of(t["H"][i]), t["H"][i]["ops"], t["H"][i]["conc"]) for j, i in enumerate(idx)]
                            + [(len(idx) + 1, c["init"], c["ops"], c["conc"])])
        out = fresh_sessions(ctx, sessions, last_only=True)
        for j, x in enumerate(out):
            x[0]["id"] = j + 1
            last.append(x[0])
        saved = ctx.traces
        rej = validate(ctx, last, "last chains of %d candidate sessions executed in fresh processes" % len(last))
        ctx.traces = saved
        return [_fails(r, rej, r["id"], t["item"][2]["failing_step"], t["item"][2]["entry"], t["item"][2]["clause"])
                for (t, _), r in zip(cands, last)]

    def grid(t, ms, ns, below=None):
        seen, out = set(), []
        for m in ms:
            for n in ns:
                idx = _candidate(t["H"], t["S"], m, n)
                if idx and idx not in seen and (below is None or len(idx) < below):
                    seen.add(idx)
                    out.append((t, idx, (m, n)))
        return out

    def pick(cands, oks):
        for t in todo:
            good = sorted((len(idx), k) for k, ((tt, idx, _), ok) in enumerate(zip(cands, oks)) if tt is t and ok)
            if good:
                _, idx, mn = cands[good[0][1]]
                t["idx"], t["mn"] = list(idx), mn

    for t in todo:
        t["idx"], t["mn"] = None, None
    # round 1: a few suspects + a window of the chains just before
    cands = []
    for t in todo:
        cands += grid(t, [256, 16, 1, 0], [0, 150, 400] + ([len(t["H"])] if len(t["H"]) <= 1500 else []))
    if cands:
        pick(cands, test([(t, idx) for t, idx, _ in cands]))
    # ... else every suspect, and the whole history
    cands = []
    for t in todo:
        if t["idx"] is None:
            cands += grid(t, [len(t["S"])], [150, 1000]) + grid(t, [0], [len(t["H"])])
    if cands:
        pick(cands, test([(t, idx) for t, idx, _ in cands]))
    # further rounds: bisect both numbers
    for t in todo:
        t["fine"] = False
    for _ in range(rounds - 1):
        cands = []
        for t in todo:
            if t["idx"] is not None:
                m, n = t["mn"]
                m = min(m, len(t["S"]))
                # halves and quarters; eighths and sixteenths once those no longer reproduce
                fr = [(15, 16), (7, 8), (3, 4)] if t["fine"] else [(3, 4), (1, 2), (1, 4)]
                cands += grid(t, sorted({m, min(m, 1), 0} | {m * a // b for a, b in fr}), sorted({n, 0} | {n * a // b for a, b in fr}),
                              below=len(t["idx"]))
                t["before"] = len(t["idx"])
        if not cands:
            break
        pick(cands, test([(t, idx) for t, idx, _ in cands]))
        for t in todo:
            if t["idx"] is not None:
                t["fine"] = len(t["idx"]) == t["before"]


# ---- bounds ---------------------------------------------------------------------------
ALLSP = {"<", ">", "=", "|"}
ALLK = {"M", "B", "S", "N"}
ALLKU = ALLK | {"U"}
ORDERLESS_U = {"U", "S", "B"}        # with AloneWithOrderless: a unicode field, in every position, alone with order-less fields
FLAT = {"M", "B", "S"}
VIEWS = set(LAYOUTS) - {"contig"}
ALLFN = {"native", "big", "little", "swap", "rnative"}
RO = {"ro", "roview", "frombuf"}
BASE = dict(WithPlain=True, Kinds=ALLK, Need=set(), Spells=ALLSP, Layouts={"contig"}, Writes={"w"}, Fns=ALLFN, CallerOps=set(),
            InplaceFirst=False, MaxChains=1, ProbeDepth=1, Fills=set(), AloneWithOrderless=False)
FILLS = [0, 1, 127, 128, 129, 300]      # new distinct dtypes converted between the first chain of a session and its probes


def session_run(tier):
    """constants of the export of sessions  <chain in which the caller stepped in / a call was refused> ; Fill(k) ; <probe chain>"""
    return dict(BASE, MinFields=1, MaxFields=1, WithPlain=False, Kinds={"M"} if tier == "quick" else {"M", "S"}, Spells={">"},
                Writes={"w", "ro"}, Fns={"big", "native"}, CallerOps={"mut_names", "mut_shape"}, MaxDepth=2, ProbeDepth=1,
                MaxChains=2, Fills=set(FILLS))


def model_runs(tier):
    """(constants, replication) of the TLC export runs; together they make the bounded space.
    replication: "sweep" = every concrete type x every array shape; "vsweep" = every concrete type, layout variant and
    shape rotating with it ("vsweep*" = type x variant); n = n concretisations rotating through the catalogue"""
    def c(**kw):
        return dict(BASE, **kw)
    if tier == "quick":
        return [
            # one step, one field: every concrete type / shape on owning arrays; every type on every kind of view
            (c(MinFields=1, MaxFields=1, MaxDepth=1, Kinds=ALLKU), "sweep"),
            (c(MinFields=1, MaxFields=1, MaxDepth=1, Kinds=ALLKU, Layouts=VIEWS, Spells={"<", ">"}), "vsweep"),
            # tables whose only field with a byte order is a unicode field, in every position: one step, and two (idempotence)
            (c(MinFields=1, MaxFields=3, MaxDepth=1, WithPlain=False, Kinds=ORDERLESS_U, AloneWithOrderless=True, Spells={"<", ">", "="}), 1),
            (c(MinFields=1, MaxFields=2, MaxDepth=2, WithPlain=False, Kinds=ORDERLESS_U, AloneWithOrderless=True, Spells={"<", ">"}), 1),
            # chains of two conversions: owning arrays of <= 2 fields; views (first step in place, so that the second
            # conversion is applied to the same view)
            (c(MinFields=1, MaxFields=2, MaxDepth=2), 1),
            (c(MinFields=1, MaxFields=1, MaxDepth=2, Layouts=VIEWS, Spells={">", "="}, InplaceFirst=True), 1),
            # wider tables, one step
            (c(MinFields=3, MaxFields=3, MaxDepth=1), 2),
            (c(MinFields=2, MaxFields=3, MaxDepth=1, Kinds={"M", "S", "N"}, Layouts=VIEWS, Spells={"<", ">"}), 1),
            # non-writable arrays (locked, read-only view of a writable array, immutable memory) in every layout: one step;
            # and the fall-back after a refused in-place call
            (c(MinFields=1, MaxFields=1, MaxDepth=1, Layouts=set(LAYOUTS), Writes=RO, Spells={"<", ">"}), 1),
            (c(MinFields=1, MaxFields=1, MaxDepth=2, Kinds={"M"}, Layouts={"contig", "strided"}, Writes=RO, Spells={">", "="},
               InplaceFirst=True), 1),
            # histories in which the caller steps in between conversions (another table of the same dtype, fields renamed
            # in place, shape changed, array locked)
            (c(MinFields=1, MaxFields=1, MaxDepth=4, WithPlain=False, Kinds={"M", "S"}, Spells={">"}, Fns={"swap"},
               CallerOps=set(CALLER)), 1),
        ]
    return [
        (c(MinFields=1, MaxFields=1, MaxDepth=1, Kinds=ALLKU), "sweep"),
        (c(MinFields=1, MaxFields=1, MaxDepth=1, Kinds=ALLKU, Layouts=VIEWS), "vsweep*"),
        (c(MinFields=1, MaxFields=3, MaxDepth=2, WithPlain=False, Kinds=ORDERLESS_U, AloneWithOrderless=True), 1),
        (c(MinFields=2, MaxFields=3, MaxDepth=2, Kinds={"U", "M", "S", "N"}, Need={"U"}, Spells={"<", ">"}), 1),
        (c(MinFields=1, MaxFields=3, MaxDepth=3, Kinds=FLAT, Spells={"<", ">"}), 1),
        (c(MinFields=1, MaxFields=3, MaxDepth=2, Spells={"=", "|"}), 1),
        (c(MinFields=1, MaxFields=2, MaxDepth=3, Need={"N"}, Spells={">"}), 1),
        (c(MinFields=1, MaxFields=1, MaxDepth=3, Layouts=VIEWS, Spells={">"}, InplaceFirst=True), 1),
        (c(MinFields=1, MaxFields=2, MaxDepth=2, Layouts=VIEWS, Spells={"<", ">"}, InplaceFirst=True), 1),
        (c(MinFields=3, MaxFields=3, MaxDepth=1, Layouts=VIEWS), 1),
        (c(MinFields=1, MaxFields=2, MaxDepth=1, Layouts=set(LAYOUTS), Writes=RO), 1),
        (c(MinFields=1, MaxFields=1, MaxDepth=3, Kinds={"M", "N"}, Layouts={"contig", "strided"}, Writes=RO, Spells={">", "="},
           InplaceFirst=True), 1),
        (c(MinFields=1, MaxFields=2, MaxDepth=4, WithPlain=False, Kinds={"M", "S"}, Need={"M"}, Spells={">", "="},
           Fns={"swap", "native"}, CallerOps=set(CALLER)), 1),
    ]


def sim_runs(tier):
    """(constants, number of walks, history length, histories kept) of the tlc -simulate exports: long histories over the
    whole alphabet (every conversion, refusals, caller steps)"""
    def c(**kw):
        return dict(dict(BASE, Layouts=set(LAYOUTS), Writes=set(RO) | {"w"}, CallerOps=set(CALLER)), **kw)
    if tier == "quick":
        return [(c(MinFields=1, MaxFields=3, MaxDepth=10, Spells={"<", ">"}), 600, 10, 2500),
                (c(MinFields=1, MaxFields=2, MaxDepth=20, WithPlain=False, Kinds={"M", "S"}, Spells={">"}, Layouts={"contig"},
                   Writes={"w"}), 200, 20, 800)]
    return [(c(MinFields=1, MaxFields=3, MaxDepth=10), 3000, 10, 30000),
            (c(MinFields=1, MaxFields=2, MaxDepth=30, WithPlain=False, Kinds={"M", "S", "N"}, Spells={">", "="}, Layouts={"contig", "strided"},
               Writes={"w", "ro"}), 600, 30, 6000)]


def describe(c):
    return "fields %d..%d%s kinds %s%s%s spells %s layouts %s%s%s%s depth %d%s" % (
        c["MinFields"], c["MaxFields"], "+plain" if c["WithPlain"] else "", "".join(sorted(c["Kinds"])),
        (" incl. " + "".join(sorted(c["Need"]))) if c["Need"] else "", " (one ordered field)" if c["AloneWithOrderless"] else "",
        "".join(sorted(c["Spells"])),
        "contig" if c["Layouts"] == {"contig"} else "views" if c["Layouts"] == VIEWS else "all" if c["Layouts"] == set(LAYOUTS)
        else ",".join(sorted(c["Layouts"])),
        "" if c["Writes"] == {"w"} else " writeability " + ",".join(sorted(c["Writes"])),
        "" if c["Fns"] == ALLFN else " conversions " + ",".join(sorted(c["Fns"])),
        " caller steps" if c["CallerOps"] else "",
        c["MaxDepth"], " (in place before the last step)" if c["InplaceFirst"] else "") + (
        "" if c["MaxChains"] == 1 else "; sessions of %d chains, %s new dtypes converted in between, probes of depth %d"
        % (c["MaxChains"], "/".join(str(k) for k in sorted(c["Fills"])), c["ProbeDepth"]))


THEOREMS = ["SpecAccepted", "InitAccepted", "ValuePreservedThm", "ValueCorrectThm", "DeclaredThm", "IdempotentThm",
            "SwapTwiceThm", "AliasThm", "RejectThm", "LineageThm", "StructureThm", "UniformInv", "UntouchedThm", "RestThm",
            "MechRefines", "SessionFreshThm", "SessionThm", "MemoSilent"]
ACTIONS = ["ChooseKinds", "ChooseSpell", "ChooseLayout", "ToNative", "ToBig", "ToLittle", "Swap", "RecfileNativeInplace"]
CALLER_ACTIONS = ["Fresh", "MutNames", "MutShape", "MutLock"]
MECH = dict(FixedDetect=True, NestedDetect=True, UnicodeDetect=True, RetypeAlways=True, SwapFirst=True, CacheDtype=False, Memo=False,
            MemoKeep=2)


def sweep_concs(init, mode, salt):
    """concretisation numbers of a one-step case: every concrete type of the kind x every array shape ("sweep"), or every
    type with layout variant and shape rotating ("vsweep"), or every type x layout variant ("vsweep*")"""
    cat = TYPES[init["kinds"][0]]
    lay = init["layout"]
    nsh, nv = len(LSHAPES[lay]), NVAR[lay]
    if mode == "sweep":
        return [s + nsh * (t + 13 * v) for v in range(nv) for t in range(len(cat)) for s in range(nsh)]
    out = []
    for t in range(len(cat)):
        for v in (range(nv) if mode == "vsweep*" else [(t + salt) % nv]):
            q = next(x for x in range(13 * v, 13 * v + 13) if x % len(cat) == t) if len(cat) < 13 else t + 13 * v
            out.append((t + v + salt) % nsh + nsh * q)
    return out


def random_chains(rng, n, start_id):
    """longer chains on wider tables in every layout (code -> spec only)"""
    out = []
    for k in range(n):
        plain = rng.random() < 0.2
        nf = 1 if plain else rng.choice([1, 2, 3, 4, 5, 6, 8])
        kinds = [rng.choice(["M", "M", "B", "S", "U"] if plain else ["M", "M", "B", "S", "N", "U"]) for _ in range(nf)]
        init = {"plain": plain, "kinds": kinds, "spell": rng.choice(["<", ">", "=", "|"]),
                "layout": rng.choice(LAYOUTS + ["contig"]), "wr": rng.choice(["w", "w", "w", "ro", "roview", "frombuf"])}
        ops = []
        caller = rng.random() < 0.3
        for _ in range(rng.choice([1, 2, 4, 6, 8])):
            fn = rng.choice(["native", "big", "little", "swap", "swap", "rnative"])
            if caller and rng.random() < 0.35:
                ops.append({"fn": rng.choice(CALLER if not plain else ["fresh", "mut_shape", "mut_lock"]), "inplace": False, "keep": False})
            elif fn == "rnative":
                ops.append({"fn": fn, "inplace": True, "keep": False})
            else:
                ops.append({"fn": fn, "inplace": rng.random() < 0.6, "keep": rng.random() < 0.3})
        out.append((start_id + k, init, ops, rng.randrange(0, 10 ** 6)))
    return out


# ---- the session family ---------------------------------------------------------------------
FILL_KINDS = [["M"], ["M", "S"], ["M", "M"], ["B", "M"], ["N"], ["S", "M", "B"], ["M", "N"]]
FILL_OPS = [("native", False), ("big", False), ("little", True), ("swap", False), ("rnative", True), ("big", True),
            ("native", True), ("little", False)]


def concrete_session(pres, K, probes, salt):
    """[(init, ops, conc)]: the first chain(s) on tables of their own dtypes (tags p0, p1, ..); K one-step chains on K
    tables of K new distinct dtypes (tags f0..), conversion and options rotating; every probe chain on a table whose dtype
    equals what the first chain's was when it was built / what its in-place rename leaves / a new one"""
    out = []
    for i, pre in enumerate(pres):
        out.append((dict(pre["init"], tag="p%d" % i), pre["ops"], 7 * (salt + i)))
    for j in range(K):
        fn, ip = FILL_OPS[(j + salt) % len(FILL_OPS)]
        out.append(({"plain": False, "kinds": FILL_KINDS[(j + salt) % len(FILL_KINDS)], "spell": "<>=|"[(j // 3 + salt) % 4],
                     "layout": "strided" if j % 5 == 4 else "contig", "wr": "w", "tag": "f%d" % j},
                    [{"fn": fn, "inplace": ip, "keep": j % 11 == 10 and fn != "rnative"}], 13 * j + salt))
    for i, pr in enumerate(probes):
        for v in ([0, 1, 2] if len(probes) == 1 else [i % 3]):
            init = dict(pr["init"], tag="p0" if v < 2 else "q%d" % i)
            if v == 1:
                init["upper"] = True
            out.append((init, pr["ops"], 7 * salt))
    return out


def prefix_class(pre):
    fns = [op["fn"] for op in pre["ops"]]
    return "mut_names" if "mut_names" in fns else "mut_shape" if "mut_shape" in fns else "refused"


def session_family(cases, seed, per, packs):
    """exported sessions (first chain ; Fill(k) ; probe chain) -> concrete sessions: `per` of every (class of the first
    chain, k) stratum, drawn with the seed; and, so that no exported first chain is left to the draw, for every class and
    every k in `packs` one session that starts with ALL first chains of the class and ends with all probe chains"""
    uniq = {}
    for c in cases:
        pre = [e for e in c["sess"] if e["kind"] == "chain"]
        fill = [e for e in c["sess"] if e["kind"] == "fill"]
        if len(pre) != 1 or len(fill) != 1 or len(c["sess"]) != 2:
            raise MachineryError("exported session is not <chain ; fill ; chain>: %s" % (c,))
        pre = {"init": pre[0]["init"], "ops": pre[0]["ops"]}
        probe = {"init": c["init"], "ops": c["ops"]}
        uniq[json.dumps([pre, fill[0]["k"], probe], sort_keys=True)] = (pre, fill[0]["k"], probe)
    strata, pres, probes = {}, {}, {}
    for key in sorted(uniq):
        pre, K, probe = uniq[key]
        strata.setdefault((prefix_class(pre), K), []).append(uniq[key])
        pres.setdefault(prefix_class(pre), {})[json.dumps(pre, sort_keys=True)] = pre
        probes[json.dumps(probe, sort_keys=True)] = probe
    rng = random.Random(seed * 7919 + 11)
    sessions = []
    for st in sorted(strata):
        pool = strata[st]
        for pre, K, probe in (pool if len(pool) <= per else [pool[i] for i in sorted(rng.sample(range(len(pool)), per))]):
            sessions.append(concrete_session([pre], K, [probe], len(sessions)))
    for cl in sorted(pres):
        for K in packs:
            sessions.append(concrete_session([pres[cl][k] for k in sorted(pres[cl])], K, [probes[k] for k in sorted(probes)], len(sessions)))
    return sessions, sorted(strata), {cl: len(v) for cl, v in pres.items()}, len(probes)


def _count(ctx, r):
    ctx.count({"init": r["kinds"], "plain": r["plain"], "spell": r["spell"], "layout": [r["layout"], r["variant"], r["wr"]], "ops": r["ops"],
               "dtype": r["dtype"], "shape": r["shape"]})


def run(ctx):
    from concurrent.futures import ThreadPoolExecutor
    # 1. the specification itself: theorems + mechanism refinement on every behaviour (both machine orders).
    #    The layout enters the property only through the frame (RestThm) and the mechanism only through numpy's
    #    contiguity flags, so the deep runs use one layout of each contiguity class and a shallower run uses all.
    two = {"contig", "strided"}
    full = dict(BASE, MinFields=1, MaxFields=2, MaxDepth=2 if ctx.quick else 3, Layouts=two, DoExport=False, **MECH)
    wide = dict(full, MinFields=3, MaxFields=3, MaxDepth=1 if ctx.quick else 2, Layouts={"contig", "strided", "recview", "zerod"})
    refuse = dict(full, MaxFields=1, Writes=RO, Layouts=set(LAYOUTS), MaxDepth=1 if ctx.quick else 2)
    hist = dict(full, MinFields=1, MaxFields=2, WithPlain=False, Kinds={"M", "S"}, Spells={">", "="}, Layouts={"contig"},
                Fns={"swap", "native"}, CallerOps=set(CALLER), MaxDepth=3 if ctx.quick else 4)
    other = dict(full, MachineLE=not MACHINE_LE, MaxDepth=2, Layouts={"strided"} if ctx.quick else set(LAYOUTS))
    uni = dict(full, Kinds={"U", "M", "S", "B"}, Need={"U"}, MaxFields=2 if ctx.quick else 3, MaxDepth=2)
    # the world: sessions of up to 3 chains with fillers in between, mechanism state carried along
    world = dict(full, MinFields=1, MaxFields=1, WithPlain=False, Kinds={"M"} if ctx.quick else {"M", "S"}, Spells={">"}, Layouts={"contig"},
                 Fns={"big", "swap"}, CallerOps={"mut_names", "mut_shape"}, MaxDepth=2, ProbeDepth=1, MaxChains=3, Fills={0, 1, 2})
    WORLD_ACTIONS = ["ChooseKinds", "ChooseSpell", "ChooseLayout", "ToBig", "Swap", "MutNames", "MutShape", "NewChain", "Fill"]
    dev = os.environ.get("VH_C16_DEV")       # development only: "new" = skip the model runs and the round-1/2 exports
    for what, consts, req in () if dev else (
            ("this machine's order, chains", full, ACTIONS),
            ("this machine's order, 3 fields, more layouts", wide, ACTIONS),
            ("this machine's order, non-writable arrays in every layout, refusals", refuse, ACTIONS + ["Reject"]),
            ("histories with caller steps: second table, rename, reshape, lock",
             hist, ["ChooseKinds", "ChooseSpell", "ChooseLayout", "ToNative", "Swap", "Reject"] + CALLER_ACTIONS),
            ("other machine order", other, ACTIONS),
            ("unicode fields next to numeric and order-less fields", uni, ACTIONS),
            ) + (() if ctx.quick else (
            ("other machine order, non-writable arrays, refusals", dict(other, MaxFields=1, Writes=RO, Layouts={"contig", "strided"}),
             ACTIONS + ["Reject"]),)):
        ctx.tlc("ByteOrderMC.tla", what="theorems + mechanism refines property (%s)" % what,
                cfg_text=cfg(constants=dict(dict(MachineLE=MACHINE_LE, **MECH), **consts), invariants=THEOREMS),
                workers=16, require=req, timeout=3000)
    # (small runs, side by side with the self-tests below)
    world_runs = () if dev else (
        ("the world: sessions of chains in one process, outcomes independent of the chains before", world, WORLD_ACTIONS),
        ("the world: a module-level memo keyed by dtype objects is harmless as long as no caller renames in place",
         dict(world, Memo=True, CallerOps={"mut_shape"}), [a for a in WORLD_ACTIONS if a != "MutNames"]))

    def world_run(arg):
        what, consts, req = arg
        ctx.tlc("ByteOrderMC.tla", what="theorems + mechanism refines property (%s)" % what,
                cfg_text=cfg(constants=dict(dict(MachineLE=MACHINE_LE, **MECH), **consts), invariants=THEOREMS),
                workers=2, require=req, timeout=3000)
    # 1b. non-vacuity: each deviating mechanism / model variant violates the theorem that is about it
    small = dict(full, MachineLE=MACHINE_LE, MaxFields=2, MaxDepth=1, Writes={"w", "ro"})
    leak = dict(hist, MachineLE=MACHINE_LE, MaxFields=1, Spells={">"}, Fns={"swap"}, CallerOps={"fresh"}, MaxDepth=3)
    deviations = () if dev else (
        ("unrepaired order detection (fields without byte order decisive)", small, dict(FixedDetect=False), "MechRefines"),
        ("order detection blind to nested records", small, dict(NestedDetect=False), "MechRefines"),
        ("order detection taking unicode fields for fields without byte order", dict(small, Kinds={"U", "S"}), dict(UnicodeDetect=False),
         "MechRefines"),
        ("dtype assigned only to contiguous arrays, a re-typed view returned otherwise", small, dict(RetypeAlways=False), "MechRefines"),
        ("dtype assigned before the swap that a read-only array refuses", small, dict(SwapFirst=False), "MechRefines"),
        ("swapped dtype object memoised per source dtype", leak, dict(CacheDtype=True), "LineageThm"),
        ("module-level memo keyed by dtype objects (bound 2), poisoned by the caller's in-place rename: calls of LATER chains raise",
         dict(world, MachineLE=MACHINE_LE), dict(Memo=True), "SessionThm"),
        ("the same memo: a call raises that the property does not allow to", dict(world, MachineLE=MACHINE_LE), dict(Memo=True), "MemoSilent"))

    def deviating(arg):
        what, base, devi, thm = arg
        rb = ctx.tlc("ByteOrderMC.tla", what="self-test: %s violates %s" % (what, thm),
                     cfg_text=cfg(constants=dict(base, **devi), invariants=[thm]),
                     workers=2, allow_violation=True, coverage=False)
        return thm in rb.violated
    with ThreadPoolExecutor(max(2, min(5, int(os.environ.get("VH_MAX_WORKERS", "16"))))) as ex:
        fw = [ex.submit(world_run, a) for a in world_runs]
        for (what, _, _, thm), bites in zip(deviations, list(ex.map(deviating, deviations))):
            if not bites:
                raise MachineryError("self-test failed: %s not violated by the deviating variant (%s)" % (thm, what))
        for f in fw:
            f.result()
    # 2. export every behaviour (spec -> code)
    runs = model_runs(ctx.tier)
    if dev:                                   # "new": the last three export runs; "a:b": that slice of them
        a, _, b = dev.partition(":")
        runs = runs[int(a):int(b)] if b else runs[-3:]

    def export(consts):
        r = ctx.tlc("ByteOrderMC.tla", what="export chains: " + describe(consts),
                    cfg_text=cfg(constants=dict(consts, MachineLE=MACHINE_LE, DoExport=True, **MECH),
                                 constraints=["Export" if consts["MaxChains"] == 1 else "ExportSession"]),
                    workers=1, coverage=False, timeout=3000)
        cases = r.records.get("CASE", [])
        if not cases:
            raise MachineryError("no chains exported for %s" % consts)
        return cases
    sims = sim_runs(ctx.tier)

    def simulate(arg):
        k, (consts, num, depth, keep) = arg
        r = ctx.tlc("ByteOrderMC.tla", what="simulate %d histories of %d steps: %s" % (num, depth, describe(consts)),
                    cfg_text=cfg(constants=dict(consts, MachineLE=MACHINE_LE, DoExport=True, **MECH), constraints=["Export"]),
                    workers=1, coverage=False, timeout=3000, simulate="num=%d" % num,
                    extra=["-depth", str(depth + 4), "-seed", str(ctx.seed + 1 + k)])
        # (the export constraint is evaluated on every candidate successor of the last step: many histories per walk,
        # differing in their last step)
        cases = {json.dumps(c, sort_keys=True): c for c in r.records.get("CASE", [])}
        cases = [cases[key] for key in sorted(cases)]
        if len(cases) < num // 2:
            raise MachineryError("simulation exported only %d histories (%s)" % (len(cases), describe(consts)))
        if len(cases) > keep:
            rng = random.Random(ctx.seed * 104729 + 7 + k)
            cases = [cases[i] for i in sorted(rng.sample(range(len(cases)), keep))]
        return cases
    sconsts = session_run(ctx.tier)
    with ThreadPoolExecutor(max(2, min(8, int(os.environ.get("VH_MAX_WORKERS", "16"))))) as ex:
        fsim = [ex.submit(simulate, a) for a in enumerate(sims)]
        fsess = ex.submit(export, sconsts)
        exported = list(ex.map(export, [c for c, _ in runs]))
        simulated = [f.result() for f in fsim]
        sess_cases = fsess.result()
    runs = runs + [(c, 1) for c, _, _, _ in sims]
    exported = exported + simulated
    nsim = sum(len(x) for x in simulated)
    jobs = []
    nexported = 0
    seen_layouts = set()
    for (consts, repl), cases in zip(runs, exported):
        nexported += len(cases)
        cases.sort(key=lambda c: json.dumps(c, sort_keys=True))      # TLC's print order is not part of the case
        dup = set()
        for ci, c in enumerate(cases):
            key = json.dumps([c["init"], c["ops"]], sort_keys=True)
            if key in dup:          # the same calls with the two outcomes the spec allows (refused / carried out)
                continue
            dup.add(key)
            seen_layouts.add(c["init"]["layout"])
            concs = sweep_concs(c["init"], repl, ci) if isinstance(repl, str) else [len(jobs) * 7 + 13 * j for j in range(repl)]
            for conc in concs:
                jobs.append((len(jobs) + 1, c["init"], c["ops"], conc))
    if seen_layouts != set(LAYOUTS) and not dev:
        raise MachineryError("layouts exported %s, expected all of %s" % (sorted(seen_layouts), LAYOUTS))
    # vacuity guards of the new dimensions: refusals and every caller step must occur among the histories to replay
    seen_fns = {op["fn"] for j in jobs for op in j[2]}
    nrej = sum(1 for cases in exported for c in cases if any(e["err"] != "none" for e in c["exp"]))
    if not set(CALLER) <= seen_fns or nrej == 0 or {j[1]["wr"] for j in jobs} != set(RO) | {"w"}:
        raise MachineryError("exported histories lack caller steps / refusals / a writeability: %s, %d" % (sorted(seen_fns), nrej))
    ctx.log("replaying %d chains (%d exported behaviours, %d of them simulated long histories, %d with a refused call)"
            % (len(jobs), nexported, nsim, nrej))
    _PROC["epoch"] += 1
    recs = pmap(run_chain, jobs)
    # 2b. the world: sessions exported from the model, each executed in a pristine process of its own
    sessions, strata, npre, nprobe = session_family(sess_cases, ctx.seed, 2 if ctx.quick else 8, [300] if ctx.quick else [129, 300])
    if ({cl for cl, _ in strata} != {"mut_names", "mut_shape", "refused"} or {k for _, k in strata} != set(FILLS)) and not dev:
        raise MachineryError("exported sessions lack a class of first chains or a number of fillers: %s" % (strata,))
    rid = len(recs)
    sjobs = []
    for sn in sessions:
        sjobs.append([(rid + 1 + i, init, ops, conc) for i, (init, ops, conc) in enumerate(sn)])
        rid += len(sn)
    srecs = [r for part in fresh_sessions(ctx, sjobs) for r in part]
    sess_refused = any(st["err"] != "none" for r in srecs for st in r["st"])
    ctx.log("executed %d sessions (%d chains) in pristine processes: %d exported, first chains %s, %d probe chains"
            % (len(sessions), len(srecs), len(sess_cases), npre, nprobe))
    nmain = len(recs)
    recs = recs + srecs
    for r in recs:
        _count(ctx, r)
    for r in recs[:: max(1, len(recs) // 4)][:4]:
        ctx.sample({"dtype": r["dtype"], "shape": r["shape"], "layout": r["layout"], "writeability": r["wr"], "ops": r["ops"],
                    "observed_after_each_step": [{"res": s["res"], "rest": s["rest"], "current": s["arrs"][s["res"] - 1]} for s in r["st"]]})
    chunk = 60000
    rejected = set()
    pending = []
    for i in range(0, len(recs), chunk):
        rejected |= set(judge(ctx, recs[i:i + chunk], "judge replayed chains %d.. (ByteOrderTrace)" % (i + 1), pending))
    # 3. longer seeded chains on wider tables, code -> spec
    nrand = 1500 if ctx.quick else 30000
    _PROC["epoch"] += 1
    rrecs = pmap(run_chain, random_chains(random.Random(ctx.seed), nrand, len(recs) + 1))
    for r in rrecs:
        _count(ctx, r)
    for i in range(0, len(rrecs), chunk):
        judge(ctx, rrecs[i:i + chunk], "judge seeded longer chains %d.. (ByteOrderTrace)" % (i + 1), pending)
    flush(ctx, pending, recs + rrecs)
    if not sess_refused and not ctx.violations and not dev:       # (vacuity guard; a broken tree may well refuse nothing)
        raise MachineryError("no session with a refused call was executed")
    # 4. binding self-test: corrupted observations must be rejected, each by the clause it breaks
    selftest(ctx, [r for r in recs if r["id"] not in rejected], strict=not pending)
    ctx.rule = ("every chain of conversions exported from ByteOrderMC.tla (%s), each executed on a real array whose field types, "
                "sub-array shapes, array shape (0-d..2-d) and layout variant rotate through the catalogue (%d multi-byte, %d single-byte, "
                "%d string types, 3 unicode types (kind U: they have a byte order), nested records; layouts %s with %d concrete variants); one-step chains on one-field arrays are run for "
                "every type x shape (owning arrays) and every type (views); plus %d seeded chains of up to 8 steps on tables of up to 8 "
                "fields in every layout and writeability, some with caller steps; histories include calls refused for non-writable arrays "
                "(judged as stutter steps) and steps of the caller between conversions (second table of the same dtype, in-place rename "
                "of fields, reshape, lock), long ones from tlc -simulate; the world: %d sessions (%s) exported from the model and "
                "executed each in a pristine process - %d chains, every one judged by the same history-free clauses - and every "
                "rejected step of the run re-executed alone in a fresh process to tell a chain's violation from a session's; a case is "
                "distinct by (abstract array, history, concrete dtype, shape, layout variant, writeability) and non-trivial always"
                % ("; ".join(describe(c) for c, _ in runs), len(MULTI), len(SINGLE), len(STRS), ", ".join(LAYOUTS),
                   sum(NVAR.values()), nrand, len(sessions), describe(sconsts), len(srecs)))
    ctx.exhaustive = True
    ctx.note(exported_behaviours=nexported, simulated_histories=nsim, histories_with_refused_call=nrej,
             replayed_chains=nmain, seeded_chains=nrand, machine_little_endian=MACHINE_LE,
             exported_sessions=len(sess_cases), sessions_executed=len(sessions), chains_in_sessions=len(srecs),
             worker_processes=len({r["proc"] for r in recs + rrecs}),
             numpy_version=np.__version__)
    ctx.assumptions = [
        "physical order of a field = which of the two encodings of its known logical values its bytes equal (values are never byte palindromes)",
        "keep_dtype=True is read as: the bytes are converted exactly as without it and the dtype is left as it was",
        "the statement's idempotence / swap-twice clauses are theorems of the specification (TLC) and the code is bound to it step by step; they are also compared on byte digests when both steps conform",
        "numpy canonicalises '<'/'>' to '=' for the machine's own order, so on one machine only three of the four declared-order characters can be observed on a dtype; the specification is checked for both machine orders",
        "the statement does not restrict the memory layout of the array: all clauses are demanded of strided / reversed / column / F-ordered / 0-d / record-field views, and 'in the caller's buffer' is read with its frame (bytes of the parent buffer that are not elements of the array, and the parent's dtype, stay)",
        "a nested record counts as a structured field whose multi-byte members share the table's order; descriptor helpers are judged on flat descriptors only",
        "a call may raise only when asked to convert a non-writable array in place (the statement is silent there: raising and succeeding are both accepted); a refused call must leave every array's bytes, dtype, flags and buffer as they were",
        "numpy lets an array, its views and its copies share one dtype object, so an in-place rename by the caller may show on arrays of the same lineage (accepted); it must not show on arrays derived from another table, and every conversion must return its own argument's field names and shape",
        "the statement gives no conversion a memory: what a step may return does not depend on the chains the process executed before (module-level state of the library is part of the world, not of the contract); every chain is judged as if it ran in a fresh process, and a step rejected in its process but accepted when its chain runs alone in a fresh process is reported with the session that reproduces it",
    ]


def selftest(ctx, recs, strict=True):
    """strict: every probe must find a record to corrupt (relaxed for the history probes when violations are pending:
    a defect may have had all such records rejected)"""
    import copy
    ok = lambda r: all(s["err"] == "none" for s in r["st"])   # noqa
    base = next((r for r in recs if not r["plain"] and "M" in r["kinds"] and len(r["ops"]) >= 1
                 and not r["ops"][0]["keep"] and not r["ops"][0]["inplace"] and r["ops"][0]["fn"] == "native" and ok(r)), None)
    # an in-place conversion of a non-contiguous window
    vbase = next((r for r in recs if r["layout"] in NONCONTIG and len(r["ops"]) >= 1 and r["ops"][0]["inplace"] and ok(r)), None)
    if base is None or vbase is None:
        raise MachineryError("binding self-test: no accepted record to corrupt")
    m = base["kinds"].index("M")
    # a refused in-place call, and a caller mutation while an array of another lineage is alive
    rbase = next((r for r in recs if len(r["ops"]) >= 1 and r["st"][1]["err"] != "none"), None)
    hbase, hk, hj = None, 0, 0
    for r in recs:
        for k, op in enumerate(r["ops"]):
            if op["fn"] in ("mut_names", "mut_shape", "mut_lock") and r["st"][k]["err"] == "none":
                arrs = r["st"][k]["arrs"]
                lin = arrs[r["st"][k]["res"] - 1]["lin"]
                other = [j for j, a in enumerate(arrs) if a["lin"] != lin]
                if other:
                    hbase, hk, hj = r, k + 1, other[0]
                    break
        if hbase is not None:
            break
    if strict and (rbase is None or hbase is None):
        raise MachineryError("binding self-test: no refused call / caller mutation among the accepted records")

    def variant(b, i, f, n=1):
        v = copy.deepcopy({k: b[k] for k in TRACE_KEYS})
        v["ops"] = v["ops"][:n]
        v["st"] = v["st"][:n + 1]
        v["id"] = i
        f(v)
        return v

    cur = lambda v: v["st"][1]["arrs"][v["st"][1]["res"] - 1]   # noqa

    def as_view(v):
        # what a re-typed view would look like: a second object on the same buffer, the argument keeping its dtype
        s0, s1 = v["st"][0], v["st"][1]
        new = copy.deepcopy(s1["arrs"][0])
        s1["arrs"][0]["decl"] = list(s0["arrs"][0]["decl"])
        s1["arrs"].append(new)
        s1["res"] = 2

    probes = [
        (base, "declared_order", lambda v: cur(v)["decl"].__setitem__(m, ">" if MACHINE_LE else "<")),
        (base, "value_preserved", lambda v: cur(v)["phys"].__setitem__(m, "corrupt")),
        (base, "copy_independent", lambda v: cur(v).__setitem__("grp", 1)),
        (base, "argument_modified", lambda v: v["st"][1]["arrs"][0].__setitem__("hash", "0" * 12)),
        (base, "field_structure", lambda v: cur(v).__setitem__("sig", "x")),
        (base, "is_big_endian", lambda v: v["st"][1]["pred"]["big"].__setitem__(m, not v["st"][1]["pred"]["big"][m])),
        (vbase, "parent_buffer_rest_untouched", lambda v: v["st"][1].__setitem__("rest", "changed")),
        (vbase, "inplace_returns_argument", as_view),
        (vbase, "init_mismatch", lambda v: v["st"][0]["lay"].__setitem__("cc", True)),
    ]
    probes = [(b, c, f, 1) for b, c, f in probes]
    if rbase is not None:       # the refused call left the new dtype on the argument
        probes.append((rbase, "rejected_call_changes_nothing", lambda v: cur(v)["decl"].__setitem__(0, "?"), 1))
    if hbase is not None:       # the rename / reshape / lock shows on an array derived from another table
        probes.append((hbase, "caller_mutation_reaches_unrelated_array", lambda v: v["st"][hk]["arrs"][hj].__setitem__("sig", "x"), hk))
    vs = [variant(b, 100 + i, f, n) for i, (b, _, f, n) in enumerate(probes)] + [variant(base, 98, lambda v: None),
                                                                                  variant(vbase, 99, lambda v: None)]
    saved = ctx.traces
    rej = tracecheck.validate(ctx, "ByteOrderTrace.tla", vs, what="self-test: corrupted observations rejected",
                              constants={"MachineLE": MACHINE_LE}, workers=1)
    ctx.traces = saved
    for i, (_, clause, _, _) in enumerate(probes):
        got = [x.split(":", 1)[1] for x in rej.get(100 + i, [])]
        if clause not in got:
            raise MachineryError("binding self-test failed: corruption of %s not rejected (got %s)" % (clause, rej.get(100 + i)))
    if 98 in rej or 99 in rej:
        raise MachineryError("binding self-test failed: an accepted record is rejected when judged again (%s)" % (rej.get(98) or rej.get(99)))


def _show(rec):
    ops = rec["ops"]
    for k, s in enumerate(rec["st"]):
        print("replay state %d: %s" % (k, {"op": ops[k - 1] if k else None, "res": s["res"], "err": s["err"],
                                            "arrs": [(a["decl"], a["phys"], a["grp"]) for a in s["arrs"]]}))


def replay(ctx, case):
    if case.get("kind") == "session":
        return replay_session(ctx, case)
    rec = run_chain((1, case["init"], case["ops"], case["conc"]))
    _show(rec)
    judge(ctx, [rec], "replay")


def replay_session(ctx, case):
    """the whole session again, in this (fresh) process, chain after chain; TLC judges its last chain - and the same
    chain executed alone in another fresh process, to show that it is the history that matters"""
    if _PROC["n"]:
        raise MachineryError("the replaying process has already executed a chain")
    chains = case["chains"]
    recs = [run_chain((i + 1, c["init"], c["ops"], c["conc"])) for i, c in enumerate(chains)]
    errs = [r["id"] for r in recs if any(s["err"] != "none" for s in r["st"])]
    print("replay: session of %d chains executed in one fresh process (chains with a step that raised: %s)"
          % (len(recs), (errs[:20] + (["..."] if len(errs) > 20 else [])) or "none"))
    last = recs[-1]
    print("replay: last chain, %s%s:" % (last["dtype"], tuple(last["shape"])))
    _show(last)
    alone = fresh_sessions(ctx, [[(len(recs) + 1, chains[-1]["init"], chains[-1]["ops"], chains[-1]["conc"])]], last_only=True)[0][0]
    rej = validate(ctx, [last, alone], "replay: last chain of the session, and the same chain alone in a fresh process")
    print("replay: the last chain executed alone in a fresh process is %s by ByteOrderTrace"
          % ("REJECTED as well %s" % rej[alone["id"]] if alone["id"] in rej else "accepted"))
    for item in rej.get(last["id"], []):
        k, entry, clause = classify(last, item)
        ctx.violation(session_signature(entry, clause) if alone["id"] not in rej else "%s|%s|%s" % (entry, clause, struct_class(last)),
                      "step %d (%s) of the last chain of the session fails clause %s on %s%s after the %d chain(s) before it"
                      % (k, entry, clause, last["dtype"], tuple(last["shape"]), len(recs) - 1), case)
