"""C16 - byte-order conversion preserves values and declares the requested order.

spec -> code : ByteOrderMC.tla enumerates every abstract array (plain / structured, every
               sequence of field kinds, every order spelling) and every chain of conversions
               of the bounded depth; each chain is executed on real numpy arrays.
code -> spec : after every step the real arrays are projected onto the spec's variables
               (declared order character per field, physical order per field - found by
               comparing the field's bytes with the two encodings of its known logical
               values -, buffer identity via np.shares_memory / `is`, structure token, byte
               digest) and the recorded chains - plus longer seeded chains on wider tables -
               are judged by ByteOrderTrace.tla (clauses of ByteOrder.tla).
Python never judges a result; it only maps abstract <-> concrete and records.
"""
import hashlib
import random
import sys
import warnings

import numpy as np

from .. import tracecheck
from ..core import MachineryError
from ..par import pmap
from ..tlc import cfg

NEEDS_EXT = True   # `import esutil` imports recfile, which needs its extension

MACHINE_LE = sys.byteorder == "little"

# concrete catalogue --------------------------------------------------------------------
MULTI = ["i2", "i4", "i8", "u2", "u4", "u8", "f2", "f4", "f8", "f16", "c8", "c16", "c32"]
SINGLE = ["i1", "u1"]
STRS = ["S1", "S3", "S8"]
TYPES = {"M": MULTI, "B": SINGLE, "S": STRS}
SUBSHAPES = [(), (2,), (2, 2), (1,)]
SHAPES = [(3,), (), (2, 2), (1,), (1, 3), (4,)]
NAMES = ["a", "b", "c", "d", "e", "f", "g", "h"]

FN = {"native": "to_native", "big": "to_big_endian", "little": "to_little_endian", "swap": "byteswap",
      "rnative": "to_native_inplace"}
ENTRY = {"native": "numpy_util.to_native", "big": "numpy_util.to_big_endian", "little": "numpy_util.to_little_endian",
         "swap": "numpy_util.byteswap", "rnative": "recfile.Util.to_native_inplace"}


def _spell(t, sp):
    return sp + t


def concretise(init, conc):
    """abstract array (plain, kinds, spell) + concretisation number -> field list
    [(name, base type, subshape)], array shape"""
    kinds = init["kinds"]
    shape = SHAPES[conc % len(SHAPES)]
    q = conc // len(SHAPES)
    fields = []
    for i, k in enumerate(kinds):
        cat = TYPES[k]
        t = cat[(q + 5 * i) % len(cat)]
        sub = () if init["plain"] else SUBSHAPES[(q // len(cat) + i) % len(SUBSHAPES)]
        fields.append((NAMES[i], t, sub))
    return fields, shape


def logical_values(t, m):
    """m logical values of base type t (native order); no value is a byte palindrome"""
    dt = np.dtype(t)
    e = np.arange(m)
    if dt.kind in "iu":
        if dt.itemsize == 1:
            return (e + 1).astype(dt)
        raw = bytes(((1 + b + 3 * int(j)) % 256) for j in e for b in range(dt.itemsize))
        return np.frombuffer(raw, dtype=dt.newbyteorder(">")).astype(dt)
    if dt.kind == "f":
        return (1.5 + e).astype(dt)
    if dt.kind == "c":
        return ((1.5 + e) + 1j * (2.5 + e)).astype(dt)
    if dt.kind == "S":
        return np.array([bytes(97 + (int(j) + b) % 26 for b in range(dt.itemsize)) for j in e], dtype=dt)
    raise MachineryError("no logical values for " + t)


class Concrete:
    """a real array built for an abstract case, with what the projection needs"""

    def __init__(self, init, conc):
        self.init = init
        self.plain = bool(init["plain"])
        self.fields, self.shape = concretise(init, conc)
        sp = init["spell"]
        nelem = int(np.prod(self.shape, dtype=int)) if self.shape else 1
        self.enc = []        # per field: (little-endian bytes, big-endian bytes) of the logical values
        if self.plain:
            name, t, _ = self.fields[0]
            logical = logical_values(t, nelem).reshape(self.shape)
            self.a0 = logical.astype(np.dtype(_spell(t, sp)))
            self.enc.append(self._encodings(logical))
        else:
            nat = np.dtype([(n, t, s) if s else (n, t) for n, t, s in self.fields])
            spelled = np.dtype([(n, _spell(t, sp), s) if s else (n, _spell(t, sp)) for n, t, s in self.fields])
            logical = np.zeros(self.shape, dtype=nat)
            for n, t, s in self.fields:
                per = int(np.prod(s, dtype=int)) if s else 1
                logical[n][...] = logical_values(t, nelem * per).reshape(self.shape + s)
            self.a0 = np.zeros(self.shape, dtype=spelled)
            for n, t, s in self.fields:
                self.a0[n][...] = logical[n]             # value-preserving assignment
                self.enc.append(self._encodings(logical[n]))

    @staticmethod
    def _encodings(x):
        b = x.dtype.base
        if b.itemsize == 1 or b.kind == "S":
            raw = x.tobytes()
            return raw, raw
        return x.astype(b.newbyteorder("<")).tobytes(), x.astype(b.newbyteorder(">")).tobytes()

    def field_views(self, x):
        if self.plain:
            return [x]
        return [x[n] for n in x.dtype.names] if x.dtype.names else []

    def project_array(self, x):
        """one real array -> [decl, phys, sig, shp] of the spec"""
        if not isinstance(x, np.ndarray):
            return {"decl": [], "phys": [], "sig": "not-an-array:" + type(x).__name__, "shp": ""}
        if self.plain != (x.dtype.names is None):
            return {"decl": [], "phys": [], "sig": "plain/structured changed", "shp": str(x.shape)}
        views = self.field_views(x)
        decl, phys, sig = [], [], []
        for i, v in enumerate(views):
            b = v.dtype.base
            decl.append(b.byteorder)
            name = "" if self.plain else x.dtype.names[i]
            sub = "" if self.plain else str(x.dtype.fields[name][0].shape)
            sig.append("%s:%s%d:%s" % (name, b.kind, b.itemsize, sub))
            if i < len(self.enc):
                raw = v.tobytes()
                le, be = self.enc[i]
                if b.itemsize == 1 or b.kind == "S":
                    phys.append("|" if raw == le else "changed")
                else:
                    phys.append("<" if raw == le else ">" if raw == be else "corrupt")
            else:
                phys.append("corrupt")
        return {"decl": decl, "phys": phys, "sig": ";".join(sig), "shp": str(tuple(x.shape))}


def _digest(x):
    try:
        return hashlib.blake2b(x.tobytes(), digest_size=6).hexdigest()
    except Exception:  # noqa
        return "?"


def observe_state(cc, objs, res, err="none"):
    import esutil.numpy_util as nu
    import esutil.recfile.Util as ru
    arrs = []
    for j, x in enumerate(objs):
        p = cc.project_array(x)
        grp = j
        for i in range(j):
            if isinstance(x, np.ndarray) and isinstance(objs[i], np.ndarray) and np.shares_memory(objs[i], x):
                grp = i
                break
        p["grp"] = grp + 1
        p["hash"] = _digest(x) if isinstance(x, np.ndarray) else "?"
        arrs.append(p)
    cur = objs[res]
    pred = {"err": "none", "big": [], "little": [], "rlittle": []}
    dn = []
    if isinstance(cur, np.ndarray):
        try:
            for v in cc.field_views(cur):
                pred["big"].append(bool(nu.is_big_endian(v)))
                pred["little"].append(bool(nu.is_little_endian(v)))
                pred["rlittle"].append(bool(ru.is_little_endian(v.dtype)))
        except Exception as e:  # noqa
            pred = {"err": type(e).__name__, "big": [], "little": [], "rlittle": []}
        if cur.dtype.names is not None:
            for fn, call in (("numpy_util.descr_to_native", lambda: nu.descr_to_native(cur.dtype.descr)),
                             ("recfile.Util.remove_dtype_byteorder", lambda: ru.remove_dtype_byteorder(cur.dtype))):
                try:
                    d = np.dtype(call())
                    decl = [d.fields[n][0].base.byteorder for n in d.names]
                    sig = ";".join("%s:%s%d:%s" % (n, d.fields[n][0].base.kind, d.fields[n][0].base.itemsize,
                                                    str(d.fields[n][0].shape)) for n in d.names)
                    dn.append({"fn": fn, "err": "none", "decl": decl, "sig": sig})
                except Exception as e:  # noqa
                    dn.append({"fn": fn, "err": type(e).__name__, "decl": [], "sig": ""})
    return {"res": res + 1, "err": err, "arrs": arrs, "pred": pred, "dn": dn}


def run_chain(args):
    """execute one chain on a real array; returns the trace record"""
    rid, init, ops, conc = args
    import esutil.numpy_util as nu
    import esutil.recfile.Util as ru
    cc = Concrete(init, conc)
    objs = [cc.a0]
    res = 0
    st = [observe_state(cc, objs, res)]
    with warnings.catch_warnings():
        warnings.simplefilter("ignore")
        for op in ops:
            arg = objs[res]
            err = "none"
            try:
                if op["fn"] == "rnative":
                    ru.to_native_inplace(arg)
                    out = arg                      # documented to work in place; nothing is returned
                else:
                    out = getattr(nu, FN[op["fn"]])(arg, inplace=bool(op["inplace"]), keep_dtype=bool(op["keep"]))
                if not isinstance(out, np.ndarray):
                    err = "result_not_an_array"
            except Exception as e:  # noqa
                err = type(e).__name__
            if err == "none":
                for j, o in enumerate(objs):
                    if o is out:
                        res = j
                        break
                else:
                    objs.append(out)
                    res = len(objs) - 1
            st.append(observe_state(cc, objs, res, err))
    return {"id": rid, "kinds": init["kinds"], "spell": init["spell"], "plain": cc.plain, "ops": ops, "st": st,
            "conc": conc, "dtype": str(cc.a0.dtype), "shape": list(cc.shape)}


# ---- classification of rejected steps (signatures) ---------------------------------------
def struct_class(rec):
    kinds = rec["kinds"]
    if rec["plain"]:
        return "plain:" + kinds[0]
    nm = sum(1 for k in kinds if k == "M")
    if nm == len(kinds):
        return "struct:all_multibyte"
    if nm == 0:
        return "struct:no_multibyte"
    return "struct:multibyte+nobyteorder_field"


def judge(ctx, recs, what, pending=None):
    """TLC judges the records; rejected steps become violations (collected in `pending` so that the
    shortest failing chain of each signature is reported first)"""
    emit = pending if pending is not None else []
    rejects = tracecheck.validate(ctx, "ByteOrderTrace.tla",
                                  [{k: r[k] for k in ("id", "kinds", "spell", "ops", "st")} for r in recs],
                                  what=what, constants={"MachineLE": MACHINE_LE})
    byid = {r["id"]: r for r in recs}
    for rid in sorted(rejects):
        r = byid[rid]
        for item in rejects[rid]:
            k, clause = item.split(":", 1)
            k = int(k)
            if clause == "init_mismatch":
                raise MachineryError("harness built an initial array that is not the abstract one: %s" % (r,))
            if ":" in clause:                       # descriptor strippers:  "<fn>:<clause>"
                entry, clause = clause.split(":", 1)
            elif clause in ("is_big_endian", "is_little_endian"):
                entry, clause = "numpy_util." + clause, "agrees_with_declared_order"
            elif clause == "recfile_is_little_endian":
                entry, clause = "recfile.Util.is_little_endian", "agrees_with_declared_order"
            elif clause == "predicate_error":
                entry = "numpy_util.is_big_endian/is_little_endian"
            else:
                entry = ENTRY[r["ops"][k - 1]["fn"]] if k >= 1 else "initial"
            case = {"kind": "chain", "init": {"plain": r["plain"], "kinds": r["kinds"], "spell": r["spell"]},
                    "ops": r["ops"][:k],
                    "conc": r["conc"], "dtype": r["dtype"], "shape": r["shape"], "failing_step": k, "clause": clause}
            emit.append((len(case["ops"]), rid, "%s|%s|%s" % (entry, clause, struct_class(r)),
                         "byte-order conversion outcome not allowed by ByteOrder.tla: step %d (%s) fails clause %s on %s%s"
                         % (k, entry, clause, r["dtype"], tuple(r["shape"])), case))
    if pending is None:
        flush(ctx, emit)
    return rejects


def flush(ctx, pending):
    for _, _, sig, what, case in sorted(pending, key=lambda t: (t[0], t[1])):
        ctx.violation(sig, what, case)


# ---- bounds ---------------------------------------------------------------------------
def model_runs(tier):
    """(constants, replication) of the TLC export runs; together they make the bounded space"""
    allsp = {"<", ">", "=", "|"}
    if tier == "quick":
        return [
            (dict(MinFields=1, MaxFields=1, WithPlain=True, Spells=allsp, MaxDepth=1), "sweep"),   # every concrete type / shape
            (dict(MinFields=1, MaxFields=2, WithPlain=True, Spells=allsp, MaxDepth=2), 1),
            (dict(MinFields=3, MaxFields=3, WithPlain=False, Spells=allsp, MaxDepth=1), 3),
        ]
    return [
        (dict(MinFields=1, MaxFields=1, WithPlain=True, Spells=allsp, MaxDepth=1), "sweep"),
        (dict(MinFields=1, MaxFields=3, WithPlain=True, Spells={"<", ">"}, MaxDepth=3), 1),
        (dict(MinFields=1, MaxFields=3, WithPlain=True, Spells={"=", "|"}, MaxDepth=2), 1),
    ]


THEOREMS = ["SpecAccepted", "InitAccepted", "ValuePreservedThm", "ValueCorrectThm", "DeclaredThm", "IdempotentThm",
            "SwapTwiceThm", "AliasThm", "UniformInv", "UntouchedThm", "MechRefines"]
ACTIONS = ["ChooseKinds", "ChooseSpell", "ToNative", "ToBig", "ToLittle", "Swap", "RecfileNativeInplace"]


def sweep_concs(init):
    """every concrete type of the kind x every array shape (plain arrays, one step)"""
    cat = TYPES[init["kinds"][0]]
    return [s + len(SHAPES) * t for t in range(len(cat)) for s in range(len(SHAPES))]


def random_chains(rng, n, start_id):
    """longer chains on wider tables (code -> spec only)"""
    out = []
    for k in range(n):
        plain = rng.random() < 0.2
        nf = 1 if plain else rng.choice([1, 2, 3, 4, 5, 6, 8])
        kinds = [rng.choice(["M", "M", "B", "S"]) for _ in range(nf)]
        init = {"plain": plain, "kinds": kinds, "spell": rng.choice(["<", ">", "=", "|"])}
        ops = []
        for _ in range(rng.choice([1, 2, 4, 6, 8])):
            fn = rng.choice(["native", "big", "little", "swap", "swap", "rnative"])
            if fn == "rnative":
                ops.append({"fn": fn, "inplace": True, "keep": False})
            else:
                ops.append({"fn": fn, "inplace": rng.random() < 0.5, "keep": rng.random() < 0.3})
        out.append((start_id + k, init, ops, rng.randrange(0, 10 ** 6)))
    return out


def run(ctx):
    only = getattr(ctx, "only", None)
    # 1. the specification itself: theorems + mechanism refinement on every behaviour (both machine orders)
    depth = 2 if ctx.quick else 3
    full = dict(MinFields=1, MaxFields=3, WithPlain=True, Spells={"<", ">", "=", "|"}, MaxDepth=depth,
                FixedDetect=True, DoExport=False)
    ctx.tlc("ByteOrderMC.tla", what="theorems + mechanism refines property (this machine's order)",
            cfg_text=cfg(constants=dict(full, MachineLE=MACHINE_LE), invariants=THEOREMS),
            workers=16, require=ACTIONS, timeout=3000)
    ctx.tlc("ByteOrderMC.tla", what="theorems + mechanism refines property (other machine order)",
            cfg_text=cfg(constants=dict(full, MachineLE=not MACHINE_LE, MaxDepth=2, MaxFields=2 if ctx.quick else 3),
                         invariants=THEOREMS),
            workers=16, require=ACTIONS, timeout=3000)
    # 1b. non-vacuity of MechRefines: the pinned decision (fields without byte order are decisive) violates it
    rb = ctx.tlc("ByteOrderMC.tla", what="self-test: unrepaired order detection violates MechRefines",
                 cfg_text=cfg(constants=dict(full, MachineLE=MACHINE_LE, MaxFields=2, MaxDepth=1, FixedDetect=False),
                              invariants=["MechRefines"]),
                 workers=4, allow_violation=True, coverage=False)
    if "MechRefines" not in rb.violated:
        raise MachineryError("self-test failed: MechRefines not violated by the deviating mechanism")
    # 2. export every behaviour (spec -> code)
    jobs = []
    nexported = 0
    for consts, repl in model_runs(ctx.tier):
        r = ctx.tlc("ByteOrderMC.tla", what="export chains %s" % {k: (sorted(v) if isinstance(v, set) else v) for k, v in consts.items()},
                    cfg_text=cfg(constants=dict(consts, MachineLE=MACHINE_LE, FixedDetect=True, DoExport=True),
                                 constraints=["Export"]), workers=1, coverage=False, timeout=3000)
        cases = r.records.get("CASE", [])
        if not cases:
            raise MachineryError("no chains exported for %s" % consts)
        nexported += len(cases)
        for c in cases:
            concs = sweep_concs(c["init"]) if repl == "sweep" else [len(jobs) * 7 + 13 * j for j in range(repl)]
            for conc in concs:
                jobs.append((len(jobs) + 1, c["init"], c["ops"], conc))
    ctx.log("replaying %d chains (%d exported behaviours)" % (len(jobs), nexported))
    recs = pmap(run_chain, jobs)
    for r in recs:
        ctx.count({"init": r["kinds"], "plain": r["plain"], "spell": r["spell"], "ops": r["ops"], "dtype": r["dtype"], "shape": r["shape"]})
    for r in recs[:: max(1, len(recs) // 4)][:4]:
        ctx.sample({"dtype": r["dtype"], "shape": r["shape"], "ops": r["ops"],
                    "observed_after_each_step": [{"res": s["res"], "current": s["arrs"][s["res"] - 1]} for s in r["st"]]})
    chunk = 40000
    rejected = set()
    pending = []
    for i in range(0, len(recs), chunk):
        rejected |= set(judge(ctx, recs[i:i + chunk], "judge replayed chains %d.. (ByteOrderTrace)" % (i + 1), pending))
    # 3. longer seeded chains on wider tables, code -> spec
    nrand = 1500 if ctx.quick else 30000
    rrecs = pmap(run_chain, random_chains(random.Random(ctx.seed), nrand, len(recs) + 1))
    for r in rrecs:
        ctx.count({"init": r["kinds"], "plain": r["plain"], "spell": r["spell"], "ops": r["ops"], "dtype": r["dtype"], "shape": r["shape"]})
    for i in range(0, len(rrecs), chunk):
        judge(ctx, rrecs[i:i + chunk], "judge seeded longer chains %d.. (ByteOrderTrace)" % (i + 1), pending)
    flush(ctx, pending)
    # 4. binding self-test: corrupted observations must be rejected, each by the clause it breaks
    selftest(ctx, [r for r in recs if r["id"] not in rejected])
    ctx.rule = ("every chain of conversions exported from ByteOrderMC.tla (%s), each executed on a real array whose field types, "
                "sub-array shapes and array shape (0-d..2-d) rotate through the catalogue (%d multi-byte, %d single-byte, %d string "
                "types); one-step chains on plain arrays are run for every type x shape; plus %d seeded chains of up to 8 steps on "
                "tables of up to 8 fields; a case is distinct by (abstract array, chain, concrete dtype, shape) and non-trivial always"
                % ("; ".join("fields %d..%d%s spells %s depth %d" % (c["MinFields"], c["MaxFields"], "+plain" if c["WithPlain"] else "",
                                                                      "".join(sorted(c["Spells"])), c["MaxDepth"]) for c, _ in model_runs(ctx.tier)),
                   len(MULTI), len(SINGLE), len(STRS), nrand))
    ctx.exhaustive = True
    ctx.note(exported_behaviours=nexported, replayed_chains=len(recs), seeded_chains=nrand, machine_little_endian=MACHINE_LE,
             numpy_version=np.__version__)
    ctx.assumptions = [
        "physical order of a field = which of the two encodings of its known logical values its bytes equal (values are never byte palindromes)",
        "keep_dtype=True is read as: the bytes are converted exactly as without it and the dtype is left as it was",
        "the statement's idempotence / swap-twice clauses are theorems of the specification (TLC) and the code is bound to it step by step; they are also compared on byte digests when both steps conform",
        "numpy canonicalises '<'/'>' to '=' for the machine's own order, so on one machine only three of the four declared-order characters can be observed on a dtype; the specification is checked for both machine orders",
    ]


def selftest(ctx, recs):
    import copy
    base = next(r for r in recs if not r["plain"] and "M" in r["kinds"] and len(r["ops"]) >= 1
                and not r["ops"][0]["keep"] and not r["ops"][0]["inplace"] and r["ops"][0]["fn"] == "native"
                and all(s["err"] == "none" for s in r["st"]))
    m = base["kinds"].index("M")

    def variant(i, f):
        v = copy.deepcopy({k: base[k] for k in ("id", "kinds", "spell", "ops", "st")})
        v["ops"] = v["ops"][:1]
        v["st"] = v["st"][:2]
        v["id"] = i
        f(v)
        return v

    cur = lambda v: v["st"][1]["arrs"][v["st"][1]["res"] - 1]   # noqa
    probes = [
        ("declared_order", lambda v: cur(v)["decl"].__setitem__(m, ">" if MACHINE_LE else "<")),
        ("value_preserved", lambda v: cur(v)["phys"].__setitem__(m, "corrupt")),
        ("copy_independent", lambda v: cur(v).__setitem__("grp", 1)),
        ("argument_modified", lambda v: v["st"][1]["arrs"][0].__setitem__("hash", "0" * 12)),
        ("field_structure", lambda v: cur(v).__setitem__("sig", "x")),
        ("is_big_endian", lambda v: v["st"][1]["pred"]["big"].__setitem__(m, not v["st"][1]["pred"]["big"][m])),
    ]
    vs = [variant(100 + i, f) for i, (_, f) in enumerate(probes)] + [variant(99, lambda v: None)]
    saved = ctx.traces
    rej = tracecheck.validate(ctx, "ByteOrderTrace.tla", vs, what="self-test: corrupted observations rejected",
                              constants={"MachineLE": MACHINE_LE}, workers=1)
    ctx.traces = saved
    for i, (clause, _) in enumerate(probes):
        got = [x.split(":", 1)[1] for x in rej.get(100 + i, [])]
        if clause not in got:
            raise MachineryError("binding self-test failed: corruption of %s not rejected (got %s)" % (clause, rej.get(100 + i)))
    if 99 in rej:
        raise MachineryError("binding self-test failed: an accepted record is rejected when judged again (%s)" % rej[99])


def replay(ctx, case):
    ops = case["ops"]
    rec = run_chain((1, case["init"], ops, case["conc"]))
    for k, s in enumerate(rec["st"]):
        print("replay state %d: %s" % (k, {"op": ops[k - 1] if k else None, "res": s["res"], "err": s["err"],
                                            "arrs": [(a["decl"], a["phys"], a["grp"]) for a in s["arrs"]]}))
    judge(ctx, [rec], "replay")
