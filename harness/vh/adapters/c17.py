"""C17 - Gauss-Legendre rules are exact to degree 2n-1 and the integrators use them.

spec -> code : QuadratureMC.tla enumerates (i) every integer interval / degree whose exact
               moment fits 32 bits (MOM) and the normalised / Chebyshev moments (NMOM) - the
               expectations every observed rule is projected onto; (ii) every constructor
               argument and call sequence of a QGauss object (SEQ), replayed on ONE real object
               each; (iii) every QGauss2 shape (TENSOR); (iv) every small rational table (TAB);
               (v) kernel validation cases (KV); (vi) every re-entrant / aliasing history on one
               QGauss object (NEST: calls begun inside an integrand, integrands that keep, re-read and
               overwrite the abscissa array they were handed); (vii) every shape x representation an
               integrand may return (RET); (viii) representations of tabulated data (DREP) and of
               interval end points per entry point (ETYPE); (ix) QGauss2 grids across the 2^20-point boundary
               with the exact integrals of separable monomials (SCALE; laws of the tensor sum over row blocks
               checked by TLC); (x) every interleaving of the configure / use steps of concurrent calls on the
               module-level qgauss(), on one QGauss object per thread, or read-only on one shared object (THR),
               replayed with real threads paused at function boundaries, plus free-running threads behind a
               barrier (also on gauleg).  An interleaving the implementation refuses (a paused thread holds a
               lock the other needs) is not one of its behaviours: the paused thread is let through, the
               schedule realised is recorded (`blocked`) and judged; a call that never returns is the
               observation `deadlock` (rejected by ThrSucc).  Concurrent calls that change the point count of ONE shared object
               are outside the statement and not exercised.
code -> spec : what gauleg returned, the rules extracted from the integrators with recording /
               indicator integrands, the call-sequence observations, the tabulated-data results
               and the QGauss2 observations are written as ndjson and judged by
               QuadratureTrace.tla (RuleFailing / CallSucc / DataFailing / TensorFailing).
Python maps lattice cases to esutil calls, evaluates the returned binary64 numbers exactly
(vh.ratproj_q) against the expectation the specification exported, and records.
"""
import math
import os
import random
import sys
import threading
import time
import warnings
from fractions import Fraction

import numpy as np

from .. import ratproj_q as rq
from .. import tracecheck
from ..core import MachineryError
from ..par import pmap
from ..tlc import cfg

NEEDS_EXT = True

NPTS = (2, 3, 5)
NEST_NPTS = (1, 2, 3)  # point counts of the re-entrant histories (1: broadcasts against everything)
THR_NPTS = (2, 3)      # point counts of the modelled thread interleavings
POLY_DEG = 12          # +-1-coefficient polynomials judged exactly by TLC (PolyMoment fits 32 bits)
NPOLY = 3

BOUNDS = {
    "quick": dict(AMax=5, KCapX=59, KCapN=59, MaxCalls=3, NMax=4, MaxNestCalls=2, MaxDepth=2, NThr=2, ScaleFull=False),
    "thorough": dict(AMax=5, KCapX=59, KCapN=59, MaxCalls=4, NMax=6, MaxNestCalls=3, MaxDepth=3, NThr=3, ScaleFull=True),
}
KCAPN_FULL = 399       # thorough: full degree 2n-1 for every n <= 200 on [-1,1]

_T = {}                # spec tables (filled by load_tables, inherited by forked workers)


# ------------------------------------------------------------------------------------------
def mc_constants(B, **over):
    c = dict(AMax=B["AMax"], KCapX=B["KCapX"], KCapN=B["KCapN"], NptsSet=set(NPTS), MaxCalls=B["MaxCalls"],
             Kinds={"func", "data"}, Variant="pinned", NMax=B["NMax"], FixedShapes=True, DoExport=False,
             NestNpts=set(NEST_NPTS), MaxNestCalls=B["MaxNestCalls"], MaxDepth=B["MaxDepth"], NestVariant="local",
             BlockVariant="ceil", ScaleFull=B["ScaleFull"], NThr=B["NThr"], ThrNpts=set(THR_NPTS), ThrVariant="private")
    c.update(over)
    return c


def load_tables(ctx, B, kcapn=None, what="export moments"):
    """run the moment / kernel-validation sub-models and keep what they export"""
    kc = kcapn or B["KCapN"]
    r = ctx.tlc("QuadratureMC.tla", what=what + " (MOM/NMOM)",
                cfg_text=cfg(constants=mc_constants(B, KCapN=kc, DoExport=True), init="InitM", next_="NextM", constraints=["Export"]),
                workers=1, coverage=True, require=["ChooseInterval", "ChooseDeg", "ChooseNDeg"], timeout=1800)
    mom, nmom = {}, {}
    told = None
    for c in r.records.get("MOM", []):
        mom.setdefault((c["a"], c["b"]), {})[c["deg"]] = (c["m"], c["maxp"])
        told = c["told"]
    for c in r.records.get("NMOM", []):
        nmom[c["deg"]] = (c["nm"], c["cm"])
    if not mom or len(nmom) != kc + 1 or not told:
        raise MachineryError("moment export incomplete: %d intervals, %d normalised degrees" % (len(mom), len(nmom)))
    _T.update(mom=mom, nmom=nmom, told=told)
    return r


def validate_kernel(ctx, B):
    r = ctx.tlc("QuadratureMC.tla", what="export kernel validation cases (KV) + InterpLaws",
                cfg_text=cfg(constants=mc_constants(B, DoExport=True), init="InitK", next_="NextK",
                             invariants=["InterpLaws"], constraints=["Export"]),
                workers=1, coverage=True, require=["ChooseKVRule", "ChooseKVTab"])
    kv = r.records.get("KV", [])
    if len(kv) < 20:
        raise MachineryError("too few kernel validation cases: %d" % len(kv))
    bad = rq.validate_kernel(kv)
    if bad:
        raise MachineryError("projection kernel disagrees with TLC on %d KV cases, e.g. %s" % (len(bad), bad[0]))
    return len(kv)


# ------------------------------------------------------------------------------------------
def iv(a, b, sc):
    return math.ldexp(a, sc), math.ldexp(b, sc)


QCAP = 2 ** 29          # = Quadrature!QCap


def local_moments(a, b, cap):
    """(moment, max|x^k|) for k = 0.. as far as Quadrature!MomentFits allows, for an interval the exported table does
    not hold.  Only a projection aid: the trace module recomputes QMomentSeq itself and rejects any other value."""
    out = {}
    for k in range(cap + 1):
        if abs(a) ** (k + 1) > QCAP or abs(b) ** (k + 1) > QCAP:
            break
        m = Fraction(b ** (k + 1) - a ** (k + 1), k + 1)
        out[k] = ([m.numerator, m.denominator], max(abs(a), abs(b)) ** k)
    return out


def rule_record(src, a, b, sc, n, xs, ws, err="none", lin=(), tolmul=1, seed=0, kcapn=None):
    """project one observed rule (floats) for the lattice interval [a,b]*2^sc"""
    T = _T
    kcapx, kcapn = T["kcapx"], (kcapn or T["kcapn"])
    rec = {"k": "rule", "src": src, "a": a, "b": b, "sc": sc, "n": n, "err": err, "finite": True,
           "nx": len(xs), "nw": len(ws), "asc": [], "lo": [], "hi": [], "wsg": [], "xsym": [], "wsym": [],
           "mom": [], "nmom": [], "cheb": [], "polys": [], "lin": [bool(v) for v in lin]}
    if err != "none" or len(xs) != n or len(ws) != n:
        return rec
    if not (rq.finite(xs) and rq.finite(ws)):
        rec["finite"] = False
        return rec
    A, Bf = iv(a, b, sc)
    xs = [float(v) for v in xs]
    ws = [float(v) for v in ws]
    rec["asc"] = [rq.sign(xs[i] - xs[i + 1]) for i in range(n - 1)]
    rec["lo"] = [rq.sign(x - A) for x in xs]
    rec["hi"] = [rq.sign(Bf - x) for x in xs]
    rec["wsg"] = [rq.sign(w) for w in ws]
    tolx = 4 * rq.ulp(max(abs(A), abs(Bf)))
    mid2 = Fraction(A) + Fraction(Bf)
    for i in range((n + 1) // 2):
        j = n - 1 - i
        rec["xsym"].append(abs(Fraction(xs[i]) + Fraction(xs[j]) - mid2) <= tolx)
        rec["wsym"].append(abs(Fraction(ws[i]) - Fraction(ws[j])) <= 4 * rq.ulp(max(abs(ws[i]), abs(ws[j]))))
    rs = rq.RuleSums(xs, ws, a, b, sc)
    told = Fraction(T["told"], tolmul) if tolmul == 1 else Fraction(T["told"] * 1000, int(tolmul * 1000))
    width = abs(b - a)
    # x-monomials, as far as the spec's moments reach
    mt = T["mom"].get((a, b)) or local_moments(a, b, min(2 * n - 1, kcapx))
    kx = -1
    while kx + 1 in mt and kx + 1 <= min(2 * n - 1, kcapx):
        kx += 1
    if kx >= 0:
        rec["mom"] = rq.project_series(rs.mono(kx), {k: mt[k][0] for k in range(kx + 1)},
                                       lambda k: Fraction(width * mt[k][1]) / told)
    # interval-normalised monomials and Chebyshev polynomials (max|p| = 1): the rule sum on [a,b] is
    # (b-a)/2 times the sum over [-1,1]
    kn = min(2 * n - 1, kcapn)
    half = Fraction(b - a, 2)
    tol1 = Fraction(width) / told

    def scaled(series):
        for k, num, den in series:
            # compare num/den with half*exp  <=>  num/(den*half) with exp ; keep den > 0
            hn, hd = half.numerator, half.denominator
            if hn < 0:
                yield k, -num * hd, den * (-hn)
            else:
                yield k, num * hd, den * hn
    tolh = tol1 / abs(half)
    rec["nmom"] = rq.project_series(scaled(rs.nmono(kn)), {k: T["nmom"][k][0] for k in range(kn + 1)}, lambda k: tolh)
    rec["cheb"] = rq.project_series(scaled(rs.cheb(kn)), {k: T["nmom"][k][1] for k in range(kn + 1)}, lambda k: tolh)
    # +-1-coefficient polynomials in t of degree <= min(2n-1, POLY_DEG)
    rng = random.Random("%s|%s|%d|%d|%d|%d" % (seed, src, a, b, sc, n))
    dmax = min(2 * n - 1, POLY_DEG)
    sums = [Fraction(num, den) for _, num, den in rs.nmono(dmax)]
    for _ in range(NPOLY):
        d = rng.randint(0, dmax)
        c = [rng.choice((-1, 0, 1)) for _ in range(d)] + [rng.choice((-1, 1))]
        val = sum(cj * sj for cj, sj in zip(c, sums))
        exp = sum(cj * Fraction(*T["nmom"][j][0]) for j, cj in enumerate(c))          # spec terms c_j * NMoment(j)
        ok = val == half * exp or abs(val - half * exp) < tol1 * rq.poly_maxabs_upper(c)
        rec["polys"].append({"c": c, "v": [exp.numerator, exp.denominator] if ok else list(rq.OFF)})
    return rec


# how the two end points are handed to gauleg: the same real interval as another number type.  Every (a, b, sc)
# used with a type is exactly representable in it, so the interval - and hence the rule demanded - is unchanged.
ENDPOINT_TYPES = {
    "float": float, "int": int, "np.float64": np.float64, "np.float32": np.float32, "np.int8": np.int8, "np.int16": np.int16,
    "np.int64": np.int64, "np.uint8": np.uint8, "0-d array": lambda v: np.array(v, dtype="f8"),
}
# (a, b, sc, type): sums / differences of the end points that are NOT representable in the type although the end
# points are (a float32 mantissa has 24 bits; 100 + 120 overflows int8; 200 - 250 underflows uint8)
TYPED_INTERVALS = [
    (1, 2 ** 24, 0, "np.float32"), (3, 2 ** 25 + 4, -30, "np.float32"), (-(2 ** 24), 5, 0, "np.float32"), (1, 3, 0, "np.float32"),
    (100, 120, 0, "np.int8"), (-100, -128, 0, "np.int8"), (-3, 5, 0, "np.int8"), (30000, 32000, 0, "np.int16"),
    (200, 250, 0, "np.uint8"), (250, 200, 0, "np.uint8"), (2 ** 28, 2 ** 28 + 2 ** 20, 30, "np.int64"),
    (-2, 7, 0, "int"), (-3, 5, 0, "float"), (1, 3, -2, "float"), (-1, 1, 0, "np.float64"), (0, 3, 0, "0-d array"), (2 ** 27, 2 ** 27 + 4096, 26, "int"),
]


NP_DTYPE = {"float": "f8", "int": "i8", "np.float64": "f8", "np.float32": "f4", "np.int8": "i1", "np.int16": "i2", "np.int64": "i8",
            "np.uint8": "u1", "0-d array": "f8"}


def typed_endpoints(a, b, sc, etype):
    A, Bf = iv(a, b, sc)
    if not etype:
        return A, Bf
    conv = ENDPOINT_TYPES[etype]
    A, Bf = (conv(a), conv(b)) if sc == 0 else (conv(A), conv(Bf))
    if float(A) != math.ldexp(a, sc) or float(Bf) != math.ldexp(b, sc):
        raise MachineryError("end points (%d, %d)*2^%d are not representable as %s" % (a, b, sc, etype))
    return A, Bf


def make_range(a, b, sc, etype=None, cont="list"):
    """the range argument [xmin, xmax] of an integrator: the lattice interval [a,b]*2^sc with end points of type `etype`
    in a list, a tuple or (numpy types) an array of that element type - always the same real interval"""
    A, Bf = typed_endpoints(a, b, sc, etype)
    if cont == "tuple":
        return (A, Bf)
    if cont == "array" and etype != "0-d array":
        arr = np.array([A, Bf], dtype=NP_DTYPE[etype or "float"])
        if float(arr[0]) != math.ldexp(a, sc) or float(arr[1]) != math.ldexp(b, sc):
            raise MachineryError("end points (%d, %d)*2^%d are not representable in an array of %s" % (a, b, sc, etype))
        return arr
    return [A, Bf]


def obs_gauleg(args):
    a, b, sc, n, seed, kcapn = args[:6]
    etype = args[6] if len(args) > 6 else None
    from esutil.integrate import gauleg
    A, Bf = typed_endpoints(a, b, sc, etype)
    try:
        with np.errstate(all="ignore"), warnings.catch_warnings():
            warnings.simplefilter("ignore")
            x, w = gauleg(A, Bf, n)
        rec = rule_record("gauleg", a, b, sc, n, list(x), list(w), seed=seed, kcapn=kcapn)
    except Exception as e:  # noqa
        rec = rule_record("gauleg", a, b, sc, n, [], [], err=type(e).__name__, seed=seed, kcapn=kcapn)
    if etype:
        rec["etype"] = etype
    return rec


# ---- integrators ---------------------------------------------------------------------------
def entry_call(entry, n):
    """returns call(xr, func) bound to a fresh object for the entry point"""
    import esutil.integrate as ei
    if entry == "QGauss(n).integrate":
        q = ei.QGauss(n)
        return lambda xr, f: q.integrate(xr, f)
    if entry == "QGauss().integrate(npts=n)":
        q = ei.QGauss()
        return lambda xr, f: q.integrate(xr, f, npts=n)
    if entry == "QGauss(n).integrate_func":
        q = ei.QGauss(n)
        return lambda xr, f: q.integrate_func(xr, f)
    if entry == "qgauss":
        return lambda xr, f: ei.qgauss(xr, f, n)
    raise KeyError(entry)


def extract_rule(call, A, Bf=None):
    """the rule an integrator effectively uses on [A,B] (or on the range object A when Bf is None): abscissae from a
    recording integrand, weights from indicator integrands.  returns (xs, ws, lin, err)"""
    seen = []
    xr = A if Bf is None else [A, Bf]

    def f0(x):
        xa = np.atleast_1d(np.asarray(x, dtype="f8"))
        seen.extend(float(v) for v in xa.ravel())
        return np.zeros_like(np.asarray(x, dtype="f8"))
    with np.errstate(all="ignore"), warnings.catch_warnings():
        warnings.simplefilter("ignore")
        r0 = call(xr, f0)
    xs = list(seen)
    if len(set(xs)) != len(xs) or not rq.finite(xs):
        return xs, [float("nan")] * len(xs), [], "none"
    ws = []
    for xj in xs:
        def fj(x, xj=xj):
            return np.where(np.asarray(x, dtype="f8") == xj, 1.0, 0.0)
        with np.errstate(all="ignore"), warnings.catch_warnings():
            warnings.simplefilter("ignore")
            ws.append(float(call(xr, fj)))
    lin = [float(r0) == 0.0]
    if rq.finite(ws):
        rng = random.Random(len(xs))
        for _ in range(3):
            ymap = {x: float(rng.randint(-8, 8)) / 4 for x in xs}

            def fy(x, ymap=ymap):
                xa = np.asarray(x, dtype="f8")
                return np.array([ymap[float(v)] for v in np.atleast_1d(xa).ravel()]).reshape(xa.shape)
            with np.errstate(all="ignore"), warnings.catch_warnings():
                warnings.simplefilter("ignore")
                r = float(call(xr, fy))
            exp = sum(Fraction(ymap[x]) * Fraction(w) for x, w in zip(xs, ws))
            mag = sum(abs(Fraction(ymap[x]) * Fraction(w)) for x, w in zip(xs, ws))
            lin.append(math.isfinite(r) and abs(Fraction(r) - exp) <= (len(xs) + 4) * Fraction(1, 2 ** 52) * mag)
    order = sorted(range(len(xs)), key=lambda i: xs[i])
    return [xs[i] for i in order], [ws[i] for i in order], lin, "none"


def obs_integrator(args):
    entry, a, b, sc, n, seed = args[:6]
    etype, cont = (args[6], args[7]) if len(args) > 6 else (None, "list")
    xr = make_range(a, b, sc, etype, cont)
    try:
        call = entry_call(entry, n)
        xs, ws, lin, err = extract_rule(call, xr)
        if a > b:                                  # stored in evaluation order of t: descending x for a > b
            xs, ws = xs[::-1], ws[::-1]
        rec = rule_record(entry, a, b, sc, n, xs, ws, lin=lin, seed=seed)
    except MachineryError:
        raise
    except Exception as e:  # noqa
        rec = rule_record(entry, a, b, sc, n, [], [], err=type(e).__name__, seed=seed)
    if etype:
        rec["etype"], rec["cont"] = etype, cont
    return rec


# ---- tabulated data -------------------------------------------------------------------------
DATA_UNITS = [(0, 0, 0), (-2, -3, 0), (3, 1, 0), (-1, 0, 5), (0, -2, -3)]     # (x exponent, y exponent, x offset)

# how a column of the table is handed over (QuadratureMC!DataReps): element type / byte order / layout / container.
# Every value is exactly representable in the representation chosen for it (checked), so the table - and hence the
# result the specification demands - is the same.
REP_DTYPE = {"f8": "<f8", "f4": "<f4", "i8": "<i8", "i4": "<i4", "i2": "<i2", "i1": "i1", "u1": "u1", "u2": "<u2", ">f8": ">f8", ">i4": ">i4",
             "strided": "<f8", "negstride": "<f8", "readonly": "<f8", "list": None, "tuple": None}
INT_REPS = ("i8", "i4", "i2", "i1", "u1", "u2", ">i4")
# x offsets that put x.min() + x.max() (or the difference) outside the element type although every x is inside
TYPED_XOFF = {"i1": 120, "u1": 200, "i2": 32000, "u2": 65000, "i4": 2 ** 31 - 8, ">i4": 2 ** 31 - 8, "f4": 2 ** 24 - 8}
SIGNED_OF = {"u1": "i1", "u2": "i2"}
REP_CLASS = {"f8": "plain", "f4": "float32", "i8": "int", "i4": "int", "i2": "small-int", "i1": "small-int", "u1": "unsigned", "u2": "unsigned",
             ">f8": "byteswapped", ">i4": "byteswapped", "strided": "strided", "negstride": "strided", "readonly": "plain", "list": "sequence",
             "tuple": "sequence"}


def data_unit(xrep, yrep, variant):
    """lattice unit (x exponent, y exponent, x offset) admissible for the two representations"""
    xint, yint = xrep in INT_REPS, yrep in INT_REPS
    ex, off = ((0, 0), (3, 0), (0, 5), (1, 2))[variant % 4] if xint else ((0, 0), (-2, 0), (3, 0), (-1, 5), (0, -3))[variant % 5]
    ey = (0, 1, 2)[variant % 3] if yint else (0, -3, 1, 0, -2)[variant % 5]
    if xrep in TYPED_XOFF and variant % 2 == 1:
        ex, off = 0, TYPED_XOFF[xrep]
    return ex, ey, off


def as_rep(vals, rep):
    """exact rationals -> the column in representation `rep`; None when a value is not representable"""
    fl = [float(v) for v in vals]
    if any(Fraction(f) != v for f, v in zip(fl, vals)):
        return None
    if rep in ("list", "tuple"):
        seq = [int(v) if v.denominator == 1 and abs(v) < 2 ** 31 and i % 2 else f for i, (f, v) in enumerate(zip(fl, vals))]
        return seq if rep == "list" else tuple(seq)
    dt = np.dtype(REP_DTYPE[rep])
    if dt.kind in "iu":
        if any(v.denominator != 1 for v in vals):
            return None
        info = np.iinfo(dt)
        if any(v < info.min or v > info.max for v in vals):
            return None
        arr = np.array([int(v) for v in vals], dtype=dt)
    else:
        arr = np.array(fl, dtype=dt)
    if [Fraction(float(v)) for v in arr] != list(vals):
        return None
    if rep == "strided":
        big = np.full(2 * len(arr) + 1, -99.0, dtype=dt)
        big[1::2] = arr
        arr = big[1::2]
    elif rep == "negstride":
        arr = np.ascontiguousarray(arr[::-1])[::-1]
    elif rep == "readonly":
        arr.setflags(write=False)
    return arr


def concretise_tab(tab, unit, xrep="f8", yrep="f8"):
    """spec table (rational pairs) -> exact rational table + the two columns as handed to the integrator"""
    ex, ey, off = unit
    ft = [((Fraction(p["x"][0], p["x"][1]) + off) * Fraction(2) ** ex, Fraction(p["y"][0], p["y"][1]) * Fraction(2) ** ey)
          for p in tab]
    xa = as_rep([x for x, _ in ft], xrep)
    if yrep in SIGNED_OF and any(y < 0 for _, y in ft):
        yrep = SIGNED_OF[yrep]                    # negative values: the signed type of the same width
    ya = as_rep([y for _, y in ft], yrep)
    if xa is None or ya is None:
        raise MachineryError("table %s is not representable as x=%s y=%s in unit %s" % (tab, xrep, yrep, unit))
    return ft, xa, ya, yrep


def frozen(v):
    return v.tobytes() if isinstance(v, np.ndarray) else repr(v)


_RULE_CACHE = {}


def fresh_rule(n, A, Bf):
    key = (n, A, Bf)
    if key not in _RULE_CACHE:
        _RULE_CACHE[key] = extract_rule(entry_call("QGauss(n).integrate", n), A, Bf)[:2]
    return _RULE_CACHE[key]


# scale transport of a table (Quadrature.tla, scale covariance): units 2^ex for x, 2^ey for y; lengths 8 and 5 are coprime, so
# every pair occurs along a run of 40 cases
SCALE_EX = (-60, 40, -33, 60, -45, 12, -30, 33)
SCALE_EY = (0, -60, 60, 30, -30)


def obs_data(args):
    rid, tabcase, n, variant, entry = args[:5]
    xrep, yrep = args[5] if len(args) > 5 and args[5] else ("f8", "f8")
    import esutil.integrate as ei
    ex, ey, off = unit = data_unit(xrep, yrep, variant)
    if len(args) > 6 and args[6]:                            # transported: the unit of the representation times 2^sx, 2^sy
        ex, ey = ex + args[6][0], ey + args[6][1]
        unit = (ex, ey, off)
    scale = list(args[6]) if len(args) > 6 and args[6] else None
    ft, xa, ya, yrep = concretise_tab(tabcase["tab"], unit, xrep, yrep)
    rec = {"k": "data", "id": rid, "n": n, "err": "none", "finite": True, "val": False, "tab": tabcase["tab"],
           "exact": list(rq.OFF), "variant": variant, "entry": entry, "frame_ok": True, "xrep": xrep, "yrep": yrep, "unit": list(unit), "scale": scale}
    bx, by = frozen(xa), frozen(ya)
    try:
        with np.errstate(all="ignore"), warnings.catch_warnings():
            warnings.simplefilter("ignore")
            if entry == "qgauss":
                r = float(ei.qgauss(xa, ya, n))
            elif entry == "QGauss().integrate(npts=n)":
                r = float(ei.QGauss().integrate(xa, ya, npts=n))
            else:
                r = float(ei.QGauss(n).integrate(xa, ya))
    except Exception as e:  # noqa
        rec["err"] = type(e).__name__
        return rec
    rec["frame_ok"] = (frozen(xa) == bx and frozen(ya) == by)
    rec["result"] = r
    if not math.isfinite(r):
        rec["finite"] = False
        return rec
    A, Bf = float(min(x for x, _ in ft)), float(max(x for x, _ in ft))
    xs, ws = fresh_rule(n, A, Bf)
    if not (rq.finite(xs) and rq.finite(ws)) or len(xs) != n:
        rec["val"] = False
        return rec
    maxy = max(abs(y) for _, y in ft)
    maxx = max(abs(x) for x, _ in ft)
    slope = max(abs((ft[i + 1][1] - ft[i][1]) / (ft[i + 1][0] - ft[i][0])) for i in range(len(ft) - 1))
    u = Fraction(1, 2 ** 52)
    exp = Fraction(0)
    mag = Fraction(0)
    try:
        for x, w in zip(xs, ws):
            y = rq.interp_exact(ft, Fraction(x))
            exp += Fraction(w) * y
            mag += abs(Fraction(w)) * (abs(y) + 4 * maxy + 8 * maxx * slope)
    except ValueError:
        return rec
    rec["val"] = abs(Fraction(r) - exp) <= (n + 4) * u * mag
    # projection onto the exact integral of the table (decided by the spec for linear tables)
    tz = Fraction(*tabcase["trapz"]) * Fraction(2) ** (ex + ey)
    maxend = max(abs(ft[0][1]), abs(ft[-1][1]))
    if Fraction(r) == tz or abs(Fraction(r) - tz) < abs(ft[-1][0] - ft[0][0]) * maxend / _T["told"] + (n + 4) * u * mag:
        rec["exact"] = list(tabcase["trapz"])
    return rec


# ---- call sequences on one object -----------------------------------------------------------
SEQ_IV = [(-1.0, 1.5), (0.0, 2.0), (-3.0, -1.0), (0.25, 4.0)]
SEQ_TAB = [
    (np.array([0.0, 0.5, 2.0, 2.5, 4.0]), np.array([1.0, 3.0, 1.5, 1.0, 3.5])),
    (np.array([-2.0, -1.75, 0.0, 3.0]), np.array([2.0, 0.5, 4.0, 1.0])),
    (np.array([1.0, 2.0, 2.125, 6.0, 7.0, 9.5]), np.array([0.25, 2.0, 2.5, 0.5, 3.0, 1.0])),
    (np.array([-1.0, 0.0, 0.25, 1.0]), np.array([5.0, 1.0, 1.0, 2.0])),
]


def seq_integrand(log):
    def g(x):
        xa = np.asarray(x, dtype="f8")
        log.extend(float(v) for v in np.atleast_1d(xa).ravel())
        return 1.0 / (1.0 + xa * xa) + np.abs(xa - 0.3) + 0.5
    return g


_FRESH = {}


def fresh_call(kind, slot, e):
    """what a fresh QGauss(e) does for call slot `slot`: (sorted abscissae, result)"""
    import esutil.integrate as ei
    key = (kind, slot, e)
    if key not in _FRESH:
        with np.errstate(all="ignore"):
            if kind == "func":
                log = []
                r = float(ei.QGauss(e).integrate(list(SEQ_IV[slot]), seq_integrand(log)))
                _FRESH[key] = (sorted(log), r)
            else:
                x, y = SEQ_TAB[slot]
                _FRESH[key] = ([], float(ei.QGauss(e).integrate(x.copy(), y.copy())))
    return _FRESH[key]


def close(r1, r2, n=8):
    if not (math.isfinite(r1) and math.isfinite(r2)):
        return False
    return abs(Fraction(r1) - Fraction(r2)) <= 4 * (n + 4) * rq.ulp(max(abs(r1), abs(r2)))


def same_as_fresh(kind, slot, e, absc, r):
    fa, fr = fresh_call(kind, slot, e)
    if not close(fr, r):
        return False
    if kind == "func":
        if len(absc) != len(fa):
            return False
        lo, hi = SEQ_IV[slot]
        tol = 4 * rq.ulp(max(abs(lo), abs(hi)))
        return all(abs(Fraction(p) - Fraction(q)) <= tol for p, q in zip(sorted(absc), fa))
    return True


def obs_seq(args):
    rid, c = args
    import esutil.integrate as ei
    q = ei.QGauss(c["ctor"] if c["ctor"] else None)
    ev = []
    for j, call in enumerate(c["calls"]):
        slot = (j + rid) % 4
        kind, arg = call["kind"], call["arg"]
        log = []
        e = {"kind": kind, "arg": arg, "err": "none", "nabsc": 0, "same": [], "slot": slot}
        try:
            with np.errstate(all="ignore"):
                if kind == "func":
                    r = float(q.integrate(list(SEQ_IV[slot]), seq_integrand(log), npts=arg if arg else None))
                else:
                    x, y = SEQ_TAB[slot]
                    r = float(q.integrate(x.copy(), y.copy(), npts=arg if arg else None))
            e["nabsc"] = len(log)
            e["result"] = r
            e["same"] = [n for n in NPTS if same_as_fresh(kind, slot, n, log, r)]
        except Exception as ex:  # noqa
            e["err"] = type(ex).__name__
        ev.append(e)
    return {"k": "seq", "id": rid, "ctor": c["ctor"], "ev": ev}


def check_fresh_distinct():
    """the slots must separate the point counts, or `same` would be ambiguous"""
    allp = sorted(set(NPTS) | set(NEST_NPTS))
    for kind in ("func", "data"):
        for slot in range(4):
            rs = [fresh_call(kind, slot, e)[1] for e in allp]
            for i in range(len(rs)):
                for j in range(i + 1, len(rs)):
                    if not (abs(rs[i] - rs[j]) > 1e-6 * max(abs(rs[i]), abs(rs[j]))):
                        raise MachineryError("call slot %s/%d does not separate npts %s and %s" % (kind, slot, allp[i], allp[j]))
    for slot in range(len(NEST_IV)):                      # and prime the rules the nest replays compare with (before forking)
        for e in NEST_NPTS:
            nest_rule(e, slot)


# ---- re-entrant and aliasing histories on one object --------------------------------------------
NEST_IV = [(-1.0, 1.0), (0.0, 2.0), (-3.0, -1.0), (0.25, 4.0), (-1.0, 1.5)]      # [-1,1]: the affine map is the identity
GARBAGE = -7.25


def nest_rule(e, slot):
    """(ascending abscissae, weights) a fresh QGauss(e) uses on NEST_IV[slot]; ([], []) if that fails"""
    try:
        xs, ws = fresh_rule(e, *NEST_IV[slot])
        if len(xs) == e and rq.finite(xs) and rq.finite(ws):
            return xs, ws
    except Exception:  # noqa
        pass
    return [], []


def nest_nodes(x, slot):
    """the point counts e for which the array x holds the nodes of Rule(e) mapped onto NEST_IV[slot]"""
    try:
        xv = sorted(float(v) for v in np.asarray(x, dtype="f8").ravel())
    except Exception:  # noqa
        return []
    lo, hi = NEST_IV[slot]
    tol = 4 * rq.ulp(max(abs(lo), abs(hi)))
    out = []
    for e in NEST_NPTS:
        xs, _ = nest_rule(e, slot)
        if len(xs) == len(xv) == e and rq.finite(xv) and all(abs(Fraction(p) - Fraction(q)) <= tol for p, q in zip(xv, xs)):
            out.append(e)
    return out


def nest_wsum(x0, y, r, slot):
    """the point counts e for which r = sum_i W(e)_i y_i, W(e) = weights of a fresh QGauss(e) on the slot's interval,
    y_i the value the integrand returned for the i-th abscissa it was handed"""
    out = []
    try:
        yv = [float(v) for v in np.broadcast_to(np.asarray(y, dtype="f8"), np.shape(x0)).ravel()]
    except Exception:  # noqa
        return out
    if not (rq.finite(yv) and math.isfinite(r) and rq.finite(x0)):
        return out
    order = sorted(range(len(x0)), key=lambda i: float(x0[i]))
    for e in NEST_NPTS:
        _, ws = nest_rule(e, slot)
        if len(ws) != len(yv) or not ws:
            continue
        exp = sum(Fraction(w) * Fraction(yv[i]) for w, i in zip(ws, order))
        mag = sum(abs(Fraction(w) * Fraction(yv[i])) for w, i in zip(ws, order))
        if abs(Fraction(r) - exp) <= 4 * (e + 4) * Fraction(1, 2 ** 52) * mag:
            out.append(e)
    return out


class IntegrandCalledTwice(Exception):
    pass


def obs_nest(args):
    """replay one history (QuadratureMC NEST) on ONE real QGauss object.  Script events: enter(kind,arg) / mutate / exit,
    properly nested; a "func" call's integrand performs the script between its enter and its exit."""
    rid, c = args
    import esutil.integrate as ei
    script = c["ev"]
    match, stack = {}, []
    for i, ev in enumerate(script):
        if ev["op"] == "enter":
            stack.append(i)
        elif ev["op"] == "exit":
            match[stack.pop()] = i
    if stack:
        raise MachineryError("history not properly nested: %s" % script)
    q = ei.QGauss(c["ctor"] if c["ctor"] else None)
    tr, held, slots, st = [], {}, {}, {"pos": 0, "ncall": 0}

    def g(xa):
        return 1.0 / (1.0 + xa * xa) + np.abs(xa - 0.3) + 0.5

    def do_call(depth):
        i0 = st["pos"]
        ev = script[i0]
        st["pos"] += 1
        st["ncall"] += 1
        k = st["ncall"]
        kind, arg = ev["kind"], ev["arg"]
        slots[k] = slot = (k + rid) % len(NEST_IV)
        tr.append({"op": "enter", "kind": kind, "arg": arg, "id": k, "slot": slot})
        ex = {"op": "exit", "id": k, "err": "none", "ok": []}
        r = float("nan")
        info = {}
        try:
            with np.errstate(all="ignore"), warnings.catch_warnings():
                warnings.simplefilter("ignore")
                if kind == "data":
                    x, y = SEQ_TAB[slot % 4]
                    r = float(q.integrate(x.copy(), y.copy(), npts=arg if arg else None))
                    ex["ok"] = [e for e in NEST_NPTS if close(fresh_call("data", slot % 4, e)[1], r)]
                else:
                    def integrand(x):
                        if info:
                            raise IntegrandCalledTwice()
                        info["x0"] = x0 = np.array(x, dtype="f8", copy=True).ravel()
                        held[k] = x                                   # the integrand keeps the array it was handed
                        tr.append({"op": "eval", "id": k, "nabsc": int(x0.size), "nodes": nest_nodes(x0, slot)})
                        mutated = False
                        if st["pos"] < match[i0] and script[st["pos"]]["op"] == "mutate":
                            st["pos"] += 1
                            if isinstance(x, np.ndarray) and x.flags.writeable:
                                x[...] = GARBAGE                      # ... and overwrites it (if it may)
                                mutated = True
                                tr.append({"op": "mutate", "id": k})
                        inner = 0.0
                        while st["pos"] < match[i0] and script[st["pos"]]["op"] == "enter":
                            inner += do_call(depth + 1)               # re-entrant use of the same object
                        x1 = np.array(x, dtype="f8", copy=True).ravel()
                        tr.append({"op": "read", "id": k, "nodes": nest_nodes(x1, slot)})
                        info["y"] = y = g(x0 if mutated else x1) + 0.125 * inner
                        return y
                    r = float(q.integrate(list(NEST_IV[slot]), integrand, npts=arg if arg else None))
                    if "y" in info:
                        ex["ok"] = nest_wsum(info["x0"], info["y"], r, slot)
        except MachineryError:
            raise
        except Exception as e:  # noqa
            ex["err"] = type(e).__name__
        st["pos"] = match[i0] + 1
        ex["result"] = r if math.isfinite(r) else repr(r)
        tr.append(ex)
        if depth == 0:
            for j in sorted(held):                                    # the caller reads every array kept so far
                tr.append({"op": "read", "id": j, "nodes": nest_nodes(held[j], slots[j])})
        return r

    while st["pos"] < len(script):
        if script[st["pos"]]["op"] != "enter":
            raise MachineryError("history does not start a call at %d: %s" % (st["pos"], script))
        do_call(0)
    return {"k": "nest", "id": rid, "ctor": c["ctor"], "ev": tr, "script": script}


def has_nested(ev):
    """a call begins while another one is in progress"""
    depth = 0
    for e in ev:
        if e["op"] == "enter":
            if depth > 0:
                return True
            depth += 1
        elif e["op"] == "exit":
            depth -= 1
    return False


NEST_FIELDS = {"enter": ("op", "kind", "arg"), "eval": ("op", "id", "nabsc", "nodes"), "mutate": ("op", "id"), "read": ("op", "id", "nodes"),
               "exit": ("op", "id", "err", "ok")}


def nest_class(r, step, clause=""):
    """structural class of the failing step of a history (for the signature only)"""
    ev = r["ev"]
    e = ev[step - 1]
    k = e.get("id")
    depth, cur, eff, inner_of, mut = [], r["ctor"], {}, {}, False
    for t in ev[:step]:
        if t["op"] == "enter":
            cur = t["arg"] or cur
            eff[t["id"]] = cur
            for o in depth:
                inner_of.setdefault(o, []).append(t["id"])
            depth.append(t["id"])
        elif t["op"] == "exit":
            depth.remove(t["id"])
        elif t["op"] == "mutate":
            mut = True
    if k is None:
        return "enter"
    inner = inner_of.get(k, [])
    nested = bool(inner) or any(k in v for v in inner_of.values())
    if not nested:
        cls = "sequential"
    elif inner:
        cls = "nested,inner npts " + ("differs" if any(eff[i] != eff[k] for i in inner) else "same")
    else:
        cls = "nested,inner call"
    return cls + (",after a mutating integrand" if mut and clause == "abscissae_not_mapped_nodes" else "")


# ---- what an integrand returns ------------------------------------------------------------------
RET_IV = [((0, 2), (1, 4)), ((-1, 1), (-1, 1)), ((-3, 1), (0, 1)), ((2, 5), (-2, 2)), ((1, 0), (0, 3))]     # integer end points (x, y)
RET_CONST = [Fraction(5, 2), Fraction(-3, 4), Fraction(2), Fraction(7), Fraction(-3)]
RET_INT_REPS = ("pyint", "np.int16", "i8", "i2")
RET_ENTRIES = ["QGauss(n).integrate", "QGauss(n).integrate_func", "qgauss", "QGauss().integrate(npts=n)"]
_GRIDW = {}


def grid_weights(dim, nx, ny, ivx, ivy, entry):
    """weights per grid cell, in the layout the integrand is handed (row-major (ny, nx); (1, n) for dim 1), extracted from a
    fresh object with full-shape indicator integrands.  None if the abscissa grid is not a (ny, nx) grid of distinct points."""
    key = (dim, nx, ny, ivx, ivy, entry)
    if key in _GRIDW:
        return _GRIDW[key]
    import esutil.integrate as ei
    out = None
    with np.errstate(all="ignore"):
        if dim == 1:
            call = entry_call(entry, nx)
            seen = []

            def f0(x):
                seen.append(np.array(x, dtype="f8", copy=True))
                return np.zeros(np.shape(x))
            call(list(ivx), f0)
            if len(seen) == 1 and seen[0].shape == (nx,) and len(set(seen[0].tolist())) == nx:
                W = [float(call(list(ivx), lambda x, xj=xj: np.where(np.asarray(x) == xj, 1.0, 0.0))) for xj in seen[0]]
                out = (seen[0].reshape(1, nx), None, W)
        else:
            q = ei.QGauss2(nx, ny)
            seen = []

            def g0(xg, yg):
                seen.append((np.array(xg, dtype="f8", copy=True), np.array(yg, dtype="f8", copy=True)))
                return np.zeros(np.shape(xg))
            q.integrate_func(list(ivx), list(ivy), g0)
            if len(seen) == 1 and seen[0][0].shape == (ny, nx) and seen[0][1].shape == (ny, nx):
                X, Y = seen[0]
                pts = list(zip(X.ravel().tolist(), Y.ravel().tolist()))
                if len(set(pts)) == nx * ny:
                    W = [float(q.integrate_func(list(ivx), list(ivy), lambda xg, yg, px=px, py=py: np.where((xg == px) & (yg == py), 1.0, 0.0)))
                         for px, py in pts]
                    out = (X, Y, W)
    if out is not None and not rq.finite(out[2]):
        out = None
    _GRIDW[key] = out
    return out


def ret_object(vals, sh, rep):
    """the integrand's return value: rationals `vals` (row-major) in shape `sh` and representation `rep`"""
    if not sh:
        v = vals[0]
        if rep == "pyfloat":
            return float(v)
        if rep == "pyint":
            return int(v)
        if rep in ("np.float64", "np.float32", "np.int16"):
            return getattr(np, rep[3:])(int(v) if rep == "np.int16" else float(v))
        return np.array(float(v), dtype="f4" if rep == "0d-f4" else "f8")
    if rep in ("i8", "i2"):
        arr = np.array([int(v) for v in vals], dtype=rep).reshape(sh)
    else:
        arr = np.array([float(v) for v in vals], dtype={"f4": "<f4", ">f8": ">f8"}.get(rep, "<f8")).reshape(sh)
    if rep == "list":
        return arr.tolist()
    if rep == "tuple":
        return tuple(tuple(row) for row in arr.tolist()) if arr.ndim == 2 else tuple(arr.tolist())
    if rep == "F":
        return np.asfortranarray(arr)
    if rep == "strided":
        big = np.full(tuple(2 * d for d in arr.shape), -99.0)
        big[tuple(slice(1, None, 2) for _ in arr.shape)] = arr
        return big[tuple(slice(1, None, 2) for _ in arr.shape)]
    if rep == "readonly":
        arr.setflags(write=False)
    return arr


def obs_ret(args):
    rid, c, seed = args
    import esutil.integrate as ei
    dim, nx, ny, sh, rep = c["dim"], c["nx"], c["ny"], list(c["sh"]), c["rep"]
    rng = random.Random("%s|ret|%d" % (seed, rid))
    ivx, ivy = RET_IV[(rid + nx) % len(RET_IV)]
    if dim == 1:
        ivy = (0, 1)
    entry = RET_ENTRIES[rid % len(RET_ENTRIES)] if dim == 1 else "QGauss2.integrate_func"
    isint = rep in RET_INT_REPS
    if c["vals"] == "const":
        cands = [v for v in RET_CONST if v.denominator == 1] if isint else RET_CONST
        cv = cands[rid % len(cands)]
        vals = [cv] * c["count"]
    else:
        cv = Fraction(0)
        vals = [Fraction(rng.randint(-8, 8), 1 if isint else 4) for _ in range(c["count"])]
        if len(set(vals)) == 1:
            vals[0] += 1
    rec = {"k": "ret", "id": rid, "dim": dim, "nx": nx, "ny": ny, "sh": sh, "rep": rep, "err": "none", "finite": True, "val": False,
           "isconst": c["vals"] == "const", "cn": cv.numerator, "cd": cv.denominator, "ax": ivx[0], "bx": ivx[1], "ay": ivy[0], "by": ivy[1],
           "cexact": list(rq.OFF), "entry": entry, "vals": [[v.numerator, v.denominator] for v in vals], "case": c}
    gw = grid_weights(dim, nx, ny, tuple(float(v) for v in ivx), tuple(float(v) for v in ivy), entry)
    obj = ret_object(vals, sh, rep)
    try:
        with np.errstate(all="ignore"), warnings.catch_warnings():
            warnings.simplefilter("ignore")
            if dim == 1:
                res = entry_call(entry, nx)([float(ivx[0]), float(ivx[1])], lambda x: obj)
            else:
                res = ei.QGauss2(nx, ny).integrate_func([float(ivx[0]), float(ivx[1])], [float(ivy[0]), float(ivy[1])], lambda x, y: obj)
    except Exception as e:  # noqa
        rec["err"] = type(e).__name__
        return rec
    try:
        ra = np.asarray(res, dtype="f8")
    except Exception:  # noqa
        ra = np.array([np.nan, np.nan])
    if ra.size != 1:
        rec["shape_of_result"] = list(ra.shape)
        return rec                                   # not a number: val stays False
    r = float(ra.ravel()[0])
    rec["result"] = r if math.isfinite(r) else repr(r)
    if not math.isfinite(r):
        rec["finite"] = False
        return rec
    if gw is None:
        return rec
    W = gw[2]
    if len(W) != len(c["map"]):
        return rec
    u = Fraction(1, 2 ** 52)
    exp = sum(Fraction(w) * vals[m - 1] for w, m in zip(W, c["map"]))          # the cell map is the specification's (RetMap)
    mag = sum(abs(Fraction(w) * vals[m - 1]) for w, m in zip(W, c["map"]))
    rec["val"] = abs(Fraction(r) - exp) <= 4 * (len(W) + 4) * u * mag
    if rec["isconst"]:
        area = Fraction((ivx[1] - ivx[0]) * (ivy[1] - ivy[0]))
        ex = cv * area
        tol = abs(ex) * Fraction(2001 if dim == 2 else 1000, 1000) / _T["told"]
        if Fraction(r) == ex or abs(Fraction(r) - ex) < tol:
            rec["cexact"] = [ex.numerator, ex.denominator]
    return rec


# ---- scale: QGauss2 grids across the 2^20-point boundary -----------------------------------------
def sep_g(x):
    return 1.0 / (1.0 + x * x) + 0.5


def sep_h(y):
    return np.abs(y - 0.3) + 1.0


def obs_scale_grid(args):
    """all SCALE cases of one grid on ONE QGauss2 object: x^dj y^dk over integer rectangles, projected onto the exact
    product of moments the specification exported, and a separable non-polynomial integrand against the product of the
    two 1-d integrators' results"""
    rid0, cases = args
    import esutil.integrate as ei
    nx, ny = cases[0]["nx"], cases[0]["ny"]
    out = []
    q = None
    err0 = "none"
    try:
        with np.errstate(all="ignore"):
            q = ei.QGauss2(nx, ny)
    except Exception as e:  # noqa
        err0 = type(e).__name__
    for i, c in enumerate(cases):
        rec = {"k": "scale", "id": rid0 + i, "nx": nx, "ny": ny, "dj": c["dj"], "dk": c["dk"], "ax": c["ax"], "bx": c["bx"], "ay": c["ay"],
               "by": c["by"], "err": err0, "finite": True, "npts": 0, "ndx": 0, "ndy": 0, "exact": list(rq.OFF), "prod": False, "case": c}
        out.append(rec)
        if q is None:
            continue
        xr, yr = [float(c["ax"]), float(c["bx"])], [float(c["ay"]), float(c["by"])]
        st = {"npts": 0, "xs": np.empty(0), "ys": np.empty(0), "calls": 0}

        def f(xg, yg, dj=c["dj"], dk=c["dk"]):
            xa, ya = np.asarray(xg, dtype="f8"), np.asarray(yg, dtype="f8")
            st["calls"] += 1
            st["npts"] += int(np.broadcast(xa, ya).size)
            st["xs"] = np.union1d(st["xs"], xa.ravel())
            st["ys"] = np.union1d(st["ys"], ya.ravel())
            return xa ** dj * ya ** dk
        try:
            with np.errstate(all="ignore"), warnings.catch_warnings():
                warnings.simplefilter("ignore")
                r = float(q.integrate_func(xr, yr, f))
                r2 = float(q.integrate_func(xr, yr, lambda xg, yg: sep_g(xg) * sep_h(yg)))
                gx = float(ei.QGauss(nx).integrate(xr, sep_g))
                hy = float(ei.QGauss(ny).integrate(yr, sep_h))
        except Exception as e:  # noqa
            rec["err"] = type(e).__name__
            continue
        rec.update(npts=st["npts"], ndx=int(st["xs"].size), ndy=int(st["ys"].size), calls=st["calls"], result=r, result_sep=r2, marginals=[gx, hy])
        if not all(math.isfinite(v) for v in (r, r2, gx, hy)):
            rec["finite"] = False
            continue
        ex = Fraction(*c["exact"])
        area = abs((c["bx"] - c["ax"]) * (c["by"] - c["ay"]))
        tol = Fraction(area * c["maxp"]) * Fraction(2001, 1000) / c["told"]
        if Fraction(r) == ex or abs(Fraction(r) - ex) < tol:
            rec["exact"] = list(c["exact"])
        # rounding of a sum of nx*ny positive terms, whatever the order of summation
        rec["prod"] = abs(Fraction(r2) - Fraction(gx) * Fraction(hy)) <= (nx * ny + nx + ny + 16) * Fraction(1, 2 ** 52) * abs(Fraction(gx) * Fraction(hy))
    return out


# ---- threads ------------------------------------------------------------------------------------------
UTIL_SUFFIX = os.path.join("esutil", "integrate", "util.py")
THR_BIG = {}


def _thr_integrand(x):
    xa = np.asarray(x, dtype="f8")
    return 1.0 / (1.0 + xa * xa) + np.abs(xa - 0.3) + 0.5


def thr_call(target, shared, kind, arg, slot, big=False):
    import esutil.integrate as ei
    if target == "gauleg":
        x, w = ei.gauleg(*SEQ_IV[slot], arg)
        return np.concatenate([x, w])
    if target == "own":                                   # an object of the thread's own (built here, inside the thread)
        shared = ei.QGauss(shared if shared else None)
    if kind == "data":
        x, y = THR_BIG[slot] if big else SEQ_TAB[slot]
        if target == "qgauss":
            return float(ei.qgauss(x.copy(), y.copy(), arg))
        return float(shared.integrate(x.copy(), y.copy(), npts=arg if arg else None))
    if target == "qgauss":
        return float(ei.qgauss(list(SEQ_IV[slot]), _thr_integrand, arg))
    return float(shared.integrate(list(SEQ_IV[slot]), _thr_integrand, npts=arg if arg else None))


def thr_ok(target, kind, slot, r, big=False):
    """the point counts e for which r is what a fresh object returns sequentially"""
    allp = sorted(set(NPTS) | set(NEST_NPTS))
    if target == "gauleg" or big:
        ref = THR_BIG[("ref", target, kind, slot)]
        if target == "gauleg":
            return [e for e in allp if np.shape(r) == np.shape(ref[e]) and np.array_equal(r, ref[e])]
        return [e for e in allp if close(ref[e], r, n=64)]
    return [e for e in allp if close(fresh_call(kind, slot, e)[1], r)]


THR_POLL = 0.002           # s between two looks at a thread that has not reached its pause point yet
THR_STILL = 0.012          # no trace event for this long while the OS thread sleeps: the thread is blocked (on a lock)
THR_STILL_BLIND = 0.25     # the same when /proc cannot tell whether the OS thread sleeps
THR_HANG = 30.0            # not finished this long after every other thread was released: deadlock (or hang)
_THR_POISON = []           # a deadlock was seen in this process: locks of the implementation may be held for ever


def _os_asleep(th):
    """True / False: the OS thread sleeps (futex: lock, semaphore) / runs or is runnable; None when unknown"""
    try:
        with open("/proc/self/task/%d/stat" % th.native_id) as f:
            st = f.read()
        return st[st.rindex(")") + 2] == "S"
    except Exception:  # noqa
        return None


def thr_realised(ev):
    ops = set(e["op"] for e in ev)
    return "deadlock" if "deadlock" in ops else ("serialised" if "blocked" in ops else "as_scheduled")


def thr_run(target, ctor, sched, pauses):
    """execute one interleaving with real threads: a `start` event lets thread t run its call up to its pause point (the
    pauses[t]-th function boundary of esutil/integrate/util.py or of the integrand; beyond the last: to the end), a `finish`
    event lets it run to the end.  Exactly one thread runs at any time - unless the implementation refuses the interleaving:
    a thread that cannot reach its pause point because a paused thread holds a lock it needs is recorded as `blocked`, the
    paused threads are let run to their end (their `finish` is recorded where it really happened) and the blocked thread
    goes on; the events returned are the schedule REALISED (Quadrature.tla: the implementation may make any group of
    steps atomic, every behaviour it does show is judged).  A thread that does not finish after all others were released
    is recorded as `deadlock` (judged: never allowed).  returns (events, boundary counts)"""
    import esutil.integrate as ei
    shared = ei.QGauss(ctor) if target == "shared" else (ctor if target == "own" else None)    # "own": the constructor argument
    calls = {ev["t"]: (ev["kind"], ev["arg"]) for ev in sched if ev["op"] == "start"}
    cond = threading.Condition()
    state = {t: "idle" for t in calls}
    tick = {t: 0 for t in calls}
    go = {t: threading.Semaphore(0) for t in calls}
    res, nb = {}, {}

    def worker(t):
        kind, arg = calls[t]
        if not go[t].acquire(timeout=600):
            return
        count, paused = [0], [False]

        def boundary():
            count[0] += 1
            if count[0] == pauses.get(t, 0) and not paused[0]:
                paused[0] = True
                with cond:
                    state[t] = "paused"
                    cond.notify_all()
                go[t].acquire(timeout=600)

        def local(frame, event, a):
            tick[t] += 1
            if event == "return":
                boundary()
            return local

        def glob(frame, event, a):
            tick[t] += 1
            co = frame.f_code
            if co.co_filename.endswith(UTIL_SUFFIX) or co is _thr_integrand.__code__:
                boundary()
                return local
            return None
        out = {"err": "none", "r": float("nan")}
        sys.settrace(glob)
        try:
            with np.errstate(all="ignore"), warnings.catch_warnings():
                warnings.simplefilter("ignore")
                out["r"] = thr_call(target, shared, kind, arg, t % 4)
        except Exception as e:  # noqa
            out["err"] = type(e).__name__
        finally:
            sys.settrace(None)
        res[t], nb[t] = out, count[0]
        with cond:
            state[t] = "done"
            cond.notify_all()

    ths = {t: threading.Thread(target=worker, args=(t,), daemon=True) for t in calls}
    for th in ths.values():
        th.start()
    ev, finished = [], set()

    def wait_for(t, wanted):
        """'ok': state[t] in wanted; 'blocked': t makes no progress while another thread is paused; 'hang'"""
        t0 = still = time.monotonic()
        seen = tick[t]
        with cond:
            while True:
                if cond.wait_for(lambda: state[t] in wanted, timeout=THR_POLL):
                    return "ok"
                now = time.monotonic()
                asleep = _os_asleep(ths[t])
                if tick[t] != seen or asleep is False:
                    seen, still = tick[t], now
                elif now - still >= (THR_STILL if asleep else THR_STILL_BLIND) and any(state[u] == "paused" for u in calls if u != t):
                    return "blocked"
                if now - t0 > THR_HANG and now - still >= 5.0 and asleep is not False:
                    return "hang"                          # asleep and silent: blocked for good, not starved by a busy machine
                if now - t0 > 900:
                    raise MachineryError("thread %d is still running after 900 s (schedule %s)" % (t, sched))

    def finish_event(t):
        if t in finished:
            return
        finished.add(t)
        r = res[t]["r"]
        ok = thr_ok(target, calls[t][0], t % 4, r) if res[t]["err"] == "none" and math.isfinite(r) else []
        ev.append({"op": "finish", "t": t, "err": res[t]["err"], "ok": ok, "result": r if math.isfinite(r) else repr(r)})

    def resume(t):
        with cond:
            state[t] = "running"
        go[t].release()

    def settle(t, wanted):
        """bring thread t to `wanted`, letting paused threads that stand in its way run to their end first; False: deadlock"""
        while True:
            w = wait_for(t, wanted)
            if w == "ok":
                return True
            if w == "hang":
                ev.append({"op": "deadlock", "t": t})
                return False
            u = min(x for x in calls if x != t and state[x] == "paused")
            ev.append({"op": "blocked", "t": t})
            resume(u)
            if not settle(u, ("done",)):
                return False
            finish_event(u)

    alive = True
    for e in sched:
        t = e["t"]
        if e["op"] == "start":
            ev.append({"op": "start", "t": t, "kind": e["kind"], "arg": e["arg"]})
            with cond:
                state[t] = "running"
            go[t].release()
            alive = settle(t, ("paused", "done"))
        elif t not in finished:
            if state[t] == "paused":
                resume(t)
            alive = settle(t, ("done",))
            if alive:
                finish_event(t)
        if not alive:
            _THR_POISON.append(1)
            for g in go.values():                      # whatever can still run may run to its end
                g.release()
            break
    for th in ths.values():
        th.join(timeout=30 if alive else 1)
    return ev, nb


_THR_NB = {}


def thr_boundaries(target, kind):
    """number of pause points of one call (dry sequential run)"""
    key = (target, kind)
    if key not in _THR_NB:
        _, nb = thr_run(target, 0 if target == "qgauss" else THR_NPTS[0],
                        [{"op": "start", "t": 1, "kind": kind, "arg": THR_NPTS[0]}, {"op": "finish", "t": 1}], {})
        _THR_NB[key] = max(1, nb[1])
    return _THR_NB[key]


def obs_thr(args):
    """one exported interleaving (QuadratureMC THR) with pause points drawn for each thread"""
    rid, c, draw, seed = args
    rng = random.Random("%s|thr|%d|%d" % (seed, rid, draw))
    pauses = {}
    for ev in c["sched"]:
        if ev["op"] == "start":
            pauses[ev["t"]] = rng.randint(1, thr_boundaries(c["target"], ev["kind"]))
    if _THR_POISON:                                        # after a deadlock (reported) every further run in this process would hang as well
        return {"k": "thr", "id": rid, "mode": "skipped"}
    ev, nb = thr_run(c["target"], c["ctor"], c["sched"], pauses)
    return {"k": "thr", "id": rid, "target": c["target"], "ctor": c["ctor"], "shared": c["target"] == "shared", "ev": ev, "mode": "stepped",
            "pauses": pauses, "sched": c["sched"], "draw": draw, "realised": thr_realised(ev)}


def thr_prime():
    """big tables and the sequential references of the free-running rounds (before forking)"""
    import esutil.integrate as ei
    allp = sorted(set(NPTS) | set(NEST_NPTS))
    for slot in range(4):
        x, y = SEQ_TAB[slot]
        xb = np.linspace(x[0], x[-1], 60001)
        THR_BIG[slot] = (xb, np.interp(xb, x, y) + 0.25 * np.sin(3.0 * xb))
        with np.errstate(all="ignore"):
            ref = {e: float(ei.QGauss(e).integrate(THR_BIG[slot][0].copy(), THR_BIG[slot][1].copy())) for e in allp}
            for t in ("qgauss", "own", "shared"):
                THR_BIG[("ref", t, "data", slot)] = ref
            THR_BIG[("ref", "gauleg", "data", slot)] = THR_BIG[("ref", "gauleg", "func", slot)] = \
                {e: np.concatenate(ei.gauleg(*SEQ_IV[slot], e)) for e in allp}
    for t in ("qgauss", "own", "shared"):
        for k in ("func", "data"):
            thr_boundaries(t, k)


def obs_stress(args):
    """free-running threads behind a barrier: every round each of 4 threads makes one call - with its own npts on the module
    functions qgauss / gauleg or on an object of its own, with the constructor's count on one shared object; each result
    is compared with the sequential one.  A mismatch is a violation, agreement proves nothing."""
    rid0, target, kind, rounds, seed = args
    import esutil.integrate as ei
    allp = sorted(set(NPTS) | set(NEST_NPTS))
    nthr = 4
    ctor = THR_NPTS[1]
    shared = ei.QGauss(ctor) if target == "shared" else (ctor if target == "own" else None)
    big = kind == "data" and target != "gauleg"
    bar = threading.Barrier(nthr)
    out = [[None] * nthr for _ in range(rounds)]

    def worker(t):
        for rd in range(rounds):
            arg = allp[(t + rd) % len(allp)]
            if target == "shared":                            # read-only use: npts omitted or the constructor's
                arg = (0, ctor)[(t + rd) % 2]
            elif target == "own" and (t + rd) % 5 == 0:
                arg = 0
            slot = (t + rd // 7) % 4
            try:
                bar.wait(timeout=60)
            except threading.BrokenBarrierError:
                return
            try:
                with np.errstate(all="ignore"):
                    r = thr_call(target, shared, kind, arg, slot, big=big)
                out[rd][t] = (arg, slot, "none", r)
            except Exception as e:  # noqa
                out[rd][t] = (arg, slot, type(e).__name__, float("nan"))
    old = sys.getswitchinterval()
    sys.setswitchinterval(1e-6)
    try:
        ths = [threading.Thread(target=worker, args=(t,), daemon=True) for t in range(nthr)]
        for th in ths:
            th.start()
        deadline, ndone, since = time.monotonic() + 1200, -1, time.monotonic()
        while time.monotonic() < deadline:
            alive = [th for th in ths if th.is_alive()]
            if not alive:
                break
            alive[0].join(timeout=0.5)
            n = sum(1 for o in out for x in o if x is not None)
            if n != ndone:
                ndone, since = n, time.monotonic()
            elif time.monotonic() - since > 45:                # no call has returned for this long (a call takes milliseconds)
                looks = []
                for _ in range(5):                             # blocked for good (asleep), or starved by a busy machine?
                    looks.append(all(_os_asleep(th) is not False for th in ths if th.is_alive()))
                    time.sleep(0.1)
                if all(looks):
                    break
                since = time.monotonic()
        hung = [t for t, th in enumerate(ths) if th.is_alive()]
        if hung:
            bar.abort()
            if time.monotonic() >= deadline:
                raise MachineryError("free-running threads still running after 1200 s (%s %s)" % (target, kind))
    finally:
        sys.setswitchinterval(old)
    recs = []
    for rd in range(rounds):
        if any(o is None for o in out[rd]):
            if not hung:                                      # the barrier timed out although every thread came back: the machine, not the code
                raise MachineryError("free-running threads did not meet at the barrier (%s %s)" % (target, kind))
            # the first round that was not completed: the calls that did not return are a deadlock / hang of the implementation
            ev = [{"op": "start", "t": t + 1, "kind": kind, "arg": 0} for t in hung] + [{"op": "deadlock", "t": hung[0] + 1}]
            recs.append({"k": "thr", "id": rid0 + rd, "target": target, "ctor": ctor if target in ("own", "shared") else 0, "shared": target == "shared",
                         "ev": ev, "mode": "free", "kind": kind, "rounds": rounds, "realised": "deadlock"})
            _THR_POISON.append(1)
            break
        ev = [{"op": "start", "t": t + 1, "kind": kind, "arg": out[rd][t][0]} for t in range(nthr)]
        for t in range(nthr):
            arg, slot, err, r = out[rd][t]
            fin = err == "none" and (target == "gauleg" or math.isfinite(r))
            ev.append({"op": "finish", "t": t + 1, "err": err, "ok": thr_ok(target, kind, slot, r, big=big) if fin else [],
                       "result": None if target == "gauleg" else (r if math.isfinite(r) else repr(r))})
        recs.append({"k": "thr", "id": rid0 + rd, "target": target, "ctor": ctor if target in ("own", "shared") else 0, "shared": target == "shared",
                     "ev": ev, "mode": "free", "kind": kind, "rounds": rounds})
    return recs


def thr_stress_isolated(argslist):
    """the free-running rounds, each configuration in a forked child: a deadlock leaves locks of the implementation held for
    ever in the process it happened in (and in everything forked from it later)"""
    import multiprocessing as mp
    nproc = max(1, min(len(argslist), int(os.environ.get("VH_MAX_WORKERS", "16"))))
    with mp.get_context("fork").Pool(nproc, maxtasksperchild=1) as pool:
        jobs = [pool.apply_async(obs_stress, (a,)) for a in argslist]
        try:
            return [j.get(timeout=1200) for j in jobs]
        except mp.TimeoutError:
            raise MachineryError("free-running thread rounds did not come back")


# ---- QGauss2 ----------------------------------------------------------------------------------
TENSOR_IV = [((-1, 1, 0), (0, 2, 0)), ((0, 1, 0), (-3, 1, 0)), ((2, 5, -3), (-1, 1, 4)), ((-5, -2, 0), (1, 3, 0))]


def obs_tensor(args):
    rid, nx, ny, variant, seed = args[:5]
    typed = args[5] if len(args) > 5 else None          # (a, b, sc, etype, cont): both ranges in that representation
    import esutil.integrate as ei
    (ax, bx, sx), (ay, by, sy) = TENSOR_IV[variant % len(TENSOR_IV)]
    etype = None
    if typed:
        ax, bx, sx, etype, cont = typed
        ay, by, sy = typed[:3]
    Ax, Bx = iv(ax, bx, sx)
    Ay, By = iv(ay, by, sy)
    xrng, yrng = (make_range(ax, bx, sx, etype, cont), make_range(ay, by, sy, etype, cont)) if typed else ([Ax, Bx], [Ay, By])
    rec = {"k": "tensor", "id": rid, "nx": nx, "ny": ny, "err": "none", "finite": True, "npts": 0, "ndx": 0, "ndy": 0,
           "full": False, "rank1": False, "lin": [], "variant": variant, "typed": list(typed) if typed else None}
    rules = []
    try:
        with np.errstate(all="ignore"), warnings.catch_warnings():
            warnings.simplefilter("ignore")
            q = ei.QGauss2(nx, ny)
            pts = []

            def f0(xg, yg):
                xa, ya = np.asarray(xg, dtype="f8"), np.asarray(yg, dtype="f8")
                xa, ya = np.broadcast_arrays(xa, ya)
                pts.extend(zip((float(v) for v in xa.ravel()), (float(v) for v in ya.ravel())))
                return np.zeros(xa.shape)
            r0 = float(q.integrate_func(xrng, yrng, f0))
            X = sorted(set(p[0] for p in pts))
            Y = sorted(set(p[1] for p in pts))
            rec.update(npts=len(pts), ndx=len(X), ndy=len(Y),
                       full=(len(set(pts)) == len(pts) and set(pts) == set((x, y) for x in X for y in Y)))
            if not (rq.finite(X) and rq.finite(Y)):
                rec["finite"] = False
                return rec, rules
            if not rec["full"] or len(X) != nx or len(Y) != ny:
                return rec, rules
            W = {}
            for x in X:
                for y in Y:
                    def fij(xg, yg, x=x, y=y):
                        xa, ya = np.broadcast_arrays(np.asarray(xg, dtype="f8"), np.asarray(yg, dtype="f8"))
                        return np.where((xa == x) & (ya == y), 1.0, 0.0)
                    W[(x, y)] = float(q.integrate_func(xrng, yrng, fij))
            if not rq.finite(W.values()):
                rec["finite"] = False
                return rec, rules
            FW = {k: Fraction(v) for k, v in W.items()}
            R = {x: sum(FW[(x, y)] for y in Y) for x in X}
            C = {y: sum(FW[(x, y)] for x in X) for y in Y}
            Tt = sum(R.values())
            u = Fraction(1, 2 ** 52)
            rec["rank1"] = all(abs(FW[(x, y)] * Tt - R[x] * C[y]) <= (nx + ny + 8) * u * abs(R[x] * C[y]) for x in X for y in Y)
            rec["lin"] = [r0 == 0.0]
            rng = random.Random(nx * 100 + ny)
            for _ in range(2):
                zmap = {k: float(rng.randint(-8, 8)) / 4 for k in W}

                def fz(xg, yg, zmap=zmap):
                    xa, ya = np.broadcast_arrays(np.asarray(xg, dtype="f8"), np.asarray(yg, dtype="f8"))
                    return np.array([zmap[(float(p), float(s))] for p, s in zip(xa.ravel(), ya.ravel())]).reshape(xa.shape)
                r = float(q.integrate_func(xrng, yrng, fz))
                exp = sum(Fraction(zmap[k]) * FW[k] for k in W)
                mag = sum(abs(Fraction(zmap[k]) * FW[k]) for k in W)
                rec["lin"].append(math.isfinite(r) and abs(Fraction(r) - exp) <= (nx * ny + 4) * u * mag)
            # marginal rules: sum_j W_ij / (By-Ay) is the x rule up to the y rule's own weight-sum error,
            # hence twice the tolerance (+ second order)
            wx = [float(R[x] / (Fraction(By) - Fraction(Ay))) for x in X]
            wy = [float(C[y] / (Fraction(Bx) - Fraction(Ax))) for y in Y]
            if ax > bx:
                X, wx = X[::-1], wx[::-1]
            if ay > by:
                Y, wy = Y[::-1], wy[::-1]
            rules.append(rule_record("QGauss2.x", ax, bx, sx, nx, X, wx, tolmul=2.001, seed=seed))
            rules.append(rule_record("QGauss2.y", ay, by, sy, ny, Y, wy, tolmul=2.001, seed=seed))
            if etype:
                for rr in rules:
                    rr["etype"], rr["cont"] = etype, cont
    except MachineryError:
        raise
    except Exception as e:  # noqa
        rec["err"] = type(e).__name__
    return rec, rules


# ---- judging -----------------------------------------------------------------------------------
def pmap_small(fn, items):
    """fork-parallel map for a handful of heavy items (vh.par.pmap runs fewer than 64 items serially)"""
    import multiprocessing as mp
    nproc = max(1, min(len(items), 8, int(os.environ.get("VH_MAX_WORKERS", "16"))))
    if nproc == 1:
        return [fn(x) for x in items]
    with mp.get_context("fork").Pool(nproc) as pool:
        return pool.map(fn, items, chunksize=1)


def json_key(c):
    import json
    return json.dumps(c, sort_keys=True)


def nclass(n):
    return "n=1" if n == 1 else "n>1"


def signature(r, clause):
    k = r["k"]
    if k == "rule":
        entry = "gauleg" if r["src"] == "gauleg" else ("QGauss2" if r["src"].startswith("QGauss2") else "integrators")
        cls = nclass(r["n"])
        if r["a"] > r["b"] and clause not in ("nonfinite", "unexpected_error"):
            cls += ";a>b"
        if r.get("etype"):
            cls += ";endpoints=" + r["etype"]
        return "%s|%s|%s" % (entry, clause, cls)
    if k == "data":
        cls = nclass(r["n"])
        for ax in ("x", "y"):                          # the first column that is not a plain float64 array names the class
            rc = REP_CLASS[r.get(ax + "rep", "f8")]
            if rc != "plain":
                cls += ";%s=%s" % (ax, rc)
                break
        if r.get("scale"):
            cls += ";x unit %s;y unit %s" % tuple("tiny" if e <= -30 else ("huge" if e >= 30 else "ordinary") for e in r["scale"])
        return "integrators|%s|%s" % ("nonfinite" if clause == "nonfinite" else "data:" + clause, cls)
    if k == "tensor":
        et = ";endpoints=" + r["typed"][3] if r.get("typed") else ""
        if clause == "nonfinite":
            return ("integrators|nonfinite|n=1" if 1 in (r["nx"], r["ny"]) else "QGauss2|nonfinite|n>1") + et
        return "QGauss2|%s|%s" % (clause, ("nx!=ny" if r["nx"] != r["ny"] else "nx=ny") + et)
    if k == "ret":
        shape = "scalar" if not r["sh"] else ("full" if r["case"]["full"] else "broadcast")
        return "%s|returned:%s|%s%s" % ("QGauss2" if r["dim"] == 2 else "integrators", clause, shape,
                                        (";nx!=ny" if r["nx"] != r["ny"] else ";nx=ny") if r["dim"] == 2 else "")
    if k == "nest":
        cl, _, step = clause.partition("@")
        return "QGauss.integrate(re-entrant)|%s|%s" % (cl, nest_class(r, int(step), cl) if step else "?")
    if k == "thr":
        cl, _, step = clause.partition("@")
        e = r["ev"][int(step) - 1] if step else {}
        kind = [x["kind"] for x in r["ev"] if x["op"] == "start" and x["t"] == e.get("t")]
        args = set(x["arg"] for x in r["ev"] if x["op"] == "start")
        return "%s(threads)|%s|%s,%s,%s" % ({"qgauss": "qgauss", "own": "QGauss per thread", "shared": "shared QGauss read-only", "gauleg": "gauleg"}[r["target"]], cl,
                                           kind[0] if kind and r["target"] != "gauleg" else "any", "npts differ" if len(args) > 1 else "same npts",
                                           "stepped" if r["mode"] == "stepped" else "free-running")
    if k == "scale":
        pts = r["nx"] * r["ny"]
        return "QGauss2|scale:%s|%s" % (clause, "more than 2^20 points" if pts > 2 ** 20 else "up to 2^20 points")
    if k == "seq":
        cl, _, step = clause.partition("@")
        e = r["ev"][int(step) - 1] if step else {"kind": "?", "arg": 0}
        return "QGauss.integrate(sequence)|%s|%s,npts=%s" % (cl, e["kind"], "None" if not e["arg"] else "given")
    return "?|%s" % clause


def replay_case(r):
    k = r["k"]
    if k == "rule":
        return {"kind": "rule", "src": r["src"], "a": r["a"], "b": r["b"], "sc": r["sc"], "n": r["n"], "etype": r.get("etype"), "cont": r.get("cont"),
                "observed": {f: r[f] for f in ("err", "finite", "nx", "nw", "asc", "wsg", "xsym", "wsym") if f in r},
                "off_degrees": {f: [i for i, v in enumerate(r[f]) if v == rq.OFF] for f in ("mom", "nmom", "cheb")}}
    if k == "data":
        return {"kind": "data", "tab": r["tab"], "trapz": r.get("trapz"), "n": r["n"], "variant": r["variant"], "entry": r["entry"],
                "xrep": r.get("xrep", "f8"), "yrep": r.get("yrep_asked", r.get("yrep", "f8")), "unit": r.get("unit"), "scale": r.get("scale"),
                "observed": {f: r.get(f) for f in ("err", "finite", "val", "exact", "result")}}
    if k == "tensor":
        return {"kind": "tensor", "nx": r["nx"], "ny": r["ny"], "variant": r["variant"], "typed": r.get("typed"),
                "observed": {f: r.get(f) for f in ("err", "finite", "npts", "full", "rank1", "lin")}}
    if k == "ret":
        return {"kind": "ret", "rid": r["id0"], "case": r["case"], "entry": r["entry"], "interval": [r["ax"], r["bx"], r["ay"], r["by"]],
                "values": r["vals"], "observed": {f: r.get(f) for f in ("err", "finite", "val", "cexact", "result", "shape_of_result")}}
    if k == "nest":
        return {"kind": "nest", "rid": r["id0"], "ctor": r["ctor"], "script": r["script"], "observed": r["ev"]}
    if k == "thr":
        if r["mode"] == "stepped":
            return {"kind": "thr", "mode": "stepped", "target": r["target"], "ctor": r["ctor"], "sched": r["sched"],
                    "pauses": {str(t): p for t, p in r["pauses"].items()}, "observed": r["ev"]}
        return {"kind": "thr", "mode": "free", "target": r["target"], "thread_kind": r["kind"], "rounds": r["rounds"], "observed": r["ev"]}
    if k == "scale":
        return {"kind": "scale", "case": r["case"], "observed": {f: r.get(f) for f in ("err", "finite", "npts", "ndx", "ndy", "calls", "exact", "prod",
                                                                                        "result", "result_sep", "marginals")}}
    return {"kind": "seq", "rid": r["id"], "ctor": r["ctor"], "calls": [{"kind": e["kind"], "arg": e["arg"]} for e in r["ev"]],
            "observed": r["ev"]}


TRACE_FIELDS = {
    "rule": ("k", "id", "src", "a", "b", "n", "err", "finite", "nx", "nw", "asc", "lo", "hi", "wsg", "xsym", "wsym", "mom",
             "nmom", "cheb", "polys", "lin"),
    "data": ("k", "id", "n", "err", "finite", "val", "tab", "exact", "xrep", "yrep"),
    "tensor": ("k", "id", "nx", "ny", "err", "finite", "npts", "ndx", "ndy", "full", "rank1", "lin"),
    "scale": ("k", "id", "nx", "ny", "dj", "dk", "ax", "bx", "ay", "by", "err", "finite", "npts", "ndx", "ndy", "exact", "prod"),
    "ret": ("k", "id", "dim", "nx", "ny", "sh", "rep", "err", "finite", "val", "isconst", "cn", "cd", "ax", "bx", "ay", "by", "cexact"),
}


THR_FIELDS = {"start": ("op", "t", "arg"), "finish": ("op", "t", "err", "ok"), "blocked": ("op", "t"), "deadlock": ("op", "t")}


def trace_view(r):
    if r["k"] == "thr":
        return {"k": "thr", "id": r["id"], "ctor": r["ctor"], "shared": bool(r.get("shared")),
                "ev": [{f: e[f] for f in THR_FIELDS[e["op"]]} for e in r["ev"]]}
    if r["k"] == "nest":
        return {"k": "nest", "id": r["id"], "ctor": r["ctor"], "ev": [{f: e[f] for f in NEST_FIELDS[e["op"]]} for e in r["ev"]]}
    if r["k"] == "data":
        r.setdefault("xrep", "f8")
        r.setdefault("yrep", "f8")
    if r["k"] == "seq":
        return {"k": "seq", "id": r["id"], "ctor": r["ctor"],
                "ev": [{f: e[f] for f in ("kind", "arg", "err", "nabsc", "same")} for e in r["ev"]]}
    return {f: r[f] for f in TRACE_FIELDS[r["k"]]}


def judge(ctx, recs, what, kcapn=None, count=True):
    for i, r in enumerate(recs, 1):
        if r["k"] in ("nest", "ret"):
            r.setdefault("id0", r["id"])
        r["id"] = i
    consts = {"KCapX": _T["kcapx"], "KCapN": kcapn or _T["kcapn"], "NPoly": NPOLY}
    rejects = tracecheck.validate(ctx, "QuadratureTrace.tla", [trace_view(r) for r in recs], what=what, constants=consts,
                                  shard_size=250, max_shards=8)
    for r in recs:
        if count:
            ctx.count(replay_case(r) if r["k"] != "rule" else (r["src"], r["a"], r["b"], r["sc"], r["n"], r.get("etype"), r.get("cont")))
        for cl in rejects.get(r["id"], []):
            if cl.startswith("malformed_trace"):
                raise MachineryError("history recorded by the adapter is not well formed: %s" % r)
            ctx.violation(signature(r, cl), "%s: result not allowed by Quadrature.tla, clause %s" %
                          (r.get("src") or r.get("entry") or r["k"], cl), replay_case(r))
        if r.get("frame_ok") is False:
            ctx.violation("integrators|argument_modified|data", "integrate modified its data arguments", replay_case(r))
    return rejects


# ---- case lists -----------------------------------------------------------------------------------
def gauleg_cases(ctx, B):
    am = B["AMax"]
    alliv = [(a, b) for a in range(-am, am + 1) for b in range(-am, am + 1) if a != b]
    cases = []
    if ctx.quick:
        base = [(-1, 1, 0), (0, 1, 0), (-5, 3, 0), (1, -1, 0)]
        nsub = [1, 2, 3, 5, 8, 31, 200]
        scs = [(-1000, [(-1, 1), (2, 5), (3, -4)]), (-20, [(0, 1), (-5, -2)]), (20, [(-1, 1), (5, 1)]), (1000, [(-3, 5), (1, -1)])]
        nsc = [1, 2, 5, 30, 200]
    else:
        base = [(-1, 1, 0), (0, 1, 0), (-1, 0, 0), (-5, 3, 0), (2, 5, 0), (1, -1, 0), (3, -5, 0), (0, -1, 0)]
        nsub = list(range(1, 41)) + [50, 64, 100, 128, 150, 200, 500, 1000, 2000]
        scs = [(s, [(-1, 1), (2, 5), (3, -4), (0, 1), (-5, -2), (5, 1), (-3, 5), (1, -1)]) for s in (-1000, -300, -20, 20, 300, 1000)]
        nsc = [1, 2, 3, 5, 10, 30, 100, 200, 1000]
    for (a, b, sc) in base:
        for n in range(1, 201):
            cases.append((a, b, sc, n))
    for (a, b) in alliv:
        for n in nsub:
            cases.append((a, b, 0, n))
    for sc, ivs in scs:
        for (a, b) in ivs:
            for n in nsc:
                cases.append((a, b, sc, n))
    # scale: point counts at and across powers of two, primes, the sizes of the big QGauss2 grids
    big = [1023, 1024, 1025, 1501, 4099] if ctx.quick else [257, 511, 512, 513, 1021, 1023, 1024, 1025, 1031, 1200, 1501, 1536, 2048, 2049, 3001,
                                                            4096, 4097, 4099]
    for i, n in enumerate(big):
        for (a, b, sc) in ([(-1, 1, 0), (0, 1, 0), (-5, 3, 0), (2, 5, -20)][i % 4:][:1] if ctx.quick else [(-1, 1, 0), (0, 1, 0), (-5, 3, 0), (3, -1, 0)]):
            cases.append((a, b, sc, n))
    seen, out = set(), []
    for c in cases:
        if c not in seen:
            seen.add(c)
            out.append(c)
    return out


def integrator_cases(ctx):
    entries = ["QGauss(n).integrate", "QGauss().integrate(npts=n)", "qgauss", "QGauss(n).integrate_func"]
    if ctx.quick:
        ns = list(range(1, 13)) + [16, 31, 64, 200]
        ivs = [(-1, 1, 0), (0, 2, 0), (-5, 3, 0), (2, 5, -20), (3, -1, 0), (1, 4, 1000)]
    else:
        ns = list(range(1, 201))
        ivs = [(-1, 1, 0), (0, 2, 0), (-5, 3, 0), (2, 5, -20), (3, -1, 0), (1, 4, 1000), (-4, -1, -1000), (0, 1, 20), (5, -5, 0)]
    out = []
    for i, n in enumerate(ns):
        for j, (a, b, sc) in enumerate(ivs):
            # every n on every interval through the main entry; the other entries rotate
            out.append((entries[0], a, b, sc, n))
            out.append((entries[1 + (i + j) % 3], a, b, sc, n))
    return out


# ---- the check ------------------------------------------------------------------------------------
def run(ctx):
    B = BOUNDS[ctx.tier]
    _T.update(kcapx=B["KCapX"], kcapn=B["KCapN"])
    only = getattr(ctx, "only", None)

    def part(name):
        return not only or name in only

    # 0. model runs (concurrently: each is a JVM start plus a few seconds)
    #    design level: mechanisms refine the property-level machines; deviating variants must not
    jobs = {
        "cache": lambda: ctx.tlc("QuadratureMC.tla", what="QGauss cache machine: setup() refines the property (all call sequences)",
                                 cfg_text=cfg(constants=mc_constants(B, MaxCalls=B["MaxCalls"] + 1), init="InitC", next_="NextC",
                                              invariants=["MechRefines", "HistoryFree"]),
                                 workers=4, require=["Construct", "Integrate"]),
        "stale": lambda: ctx.tlc("QuadratureMC.tla", what="self-test: a never-refreshed cache violates MechRefines",
                                 cfg_text=cfg(constants=mc_constants(B, Variant="stale"), init="InitC", next_="NextC",
                                              invariants=["MechRefines"]),
                                 workers=1, allow_violation=True, coverage=False),
        "tensor": lambda: ctx.tlc("QuadratureMC.tla", what="QGauss2 weight-grid shapes (repaired variant) refine the tensor product",
                                  cfg_text=cfg(constants=mc_constants(B, DoExport=True), init="InitT", next_="NextT",
                                               invariants=["TensorRefines"], constraints=["Export"]),
                                  workers=1, require=["ChooseShape"]),
        "tensor_pinned": lambda: ctx.tlc("QuadratureMC.tla", what="lead: ones((nx,ny)) weight grids violate TensorRefines for nx != ny",
                                         cfg_text=cfg(constants=mc_constants(B, FixedShapes=False), init="InitT", next_="NextT",
                                                      invariants=["TensorRefines"]),
                                         workers=1, allow_violation=True, coverage=False),
        "laws": lambda: ctx.tlc("QuadratureMC.tla", what="theorems about the moment definitions (MomentLaws, ToyRules, FastAgrees, ChebLaws)",
                                cfg_text=cfg(constants=mc_constants(B), init="InitM", next_="NextM",
                                             invariants=["MomentLaws", "ToyRules", "FastAgrees", "ChebLaws"]),
                                workers=4, require=["ChooseInterval", "ChooseDeg", "ChooseNDeg"], timeout=1800),
        "kv": lambda: validate_kernel(ctx, B),
        "tables": lambda: load_tables(ctx, B),
        "seq": lambda: ctx.tlc("QuadratureMC.tla", what="export every call sequence (SEQ)",
                               cfg_text=cfg(constants=mc_constants(B, DoExport=True), init="InitC", next_="NextC", constraints=["Export"]),
                               workers=1, coverage=False, timeout=1800),
        "nest": lambda: ctx.tlc("QuadratureMC.tla", what="re-entrant histories: fresh array + rule taken at entry refines the nest machine; export (NEST)",
                                cfg_text=cfg(constants=mc_constants(B, DoExport=True), init="InitN", next_="NextN", invariants=["NestRefines"],
                                             constraints=["Export"]),
                                workers=1, require=["NConstruct", "NEnter", "NMutate", "NExit"], timeout=1800),
        "nest_reread": lambda: ctx.tlc("QuadratureMC.tla", what="lead/self-test: weights re-read from the object after the integrand returned violate NestRefines",
                                       cfg_text=cfg(constants=mc_constants(B, NestVariant="reread", MaxNestCalls=2, MaxDepth=2), init="InitN", next_="NextN",
                                                    invariants=["NestRefines"]),
                                       workers=1, allow_violation=True, coverage=False),
        "nest_scratch": lambda: ctx.tlc("QuadratureMC.tla", what="self-test: one per-object work array for the mapped abscissae violates NestRefines",
                                        cfg_text=cfg(constants=mc_constants(B, NestVariant="scratch", MaxNestCalls=2, MaxDepth=2), init="InitN", next_="NextN",
                                                     invariants=["NestRefines"]),
                                        workers=1, allow_violation=True, coverage=False),
        "ret": lambda: ctx.tlc("QuadratureMC.tla", what="export returned shapes x representations with their cell maps (RET) + RetLaws; table and end-point representations (DREP, ETYPE)",
                               cfg_text=cfg(constants=mc_constants(B, DoExport=True), init="InitR", next_="NextRPB",
                                            invariants=["RetLaws", "BlockRefines", "BlockLaws"], constraints=["Export"]),
                               workers=1, require=["ChooseGridR", "ChooseRet", "ChooseDRep", "ChooseEType", "ChooseBlock", "ChooseScale"], timeout=1800),
        "block_floor": lambda: ctx.tlc("QuadratureMC.tla", what="self-test: a block loop with nrow = ny div nblock leaves rows out (BlockRefines)",
                                       cfg_text=cfg(constants=mc_constants(B, BlockVariant="floor"), init="InitB", next_="NextB", invariants=["BlockRefines"]),
                                       workers=1, allow_violation=True, coverage=False),
        "thr": lambda: ctx.tlc("QuadratureMC.tla", what="threads: private objects behind qgauss() / rule handed back by setup() give the sequential result in every interleaving; export (THR)",
                               cfg_text=cfg(constants=mc_constants(B, DoExport=True), init="InitH", next_="NextH", invariants=["ThrRefines"],
                                            constraints=["Export"]),
                               workers=1, require=["HConstruct", "HStart", "HFinish"], timeout=1800),
        "thr_late": lambda: ctx.tlc("QuadratureMC.tla", what="self-test: a shared object whose rule is read after configuring violates ThrRefines",
                                    cfg_text=cfg(constants=mc_constants(B, ThrVariant="late", NThr=2), init="InitH", next_="NextH", invariants=["ThrRefines"]),
                                    workers=1, allow_violation=True, coverage=False),
        "thr_locked": lambda: ctx.tlc("QuadratureMC.tla", what="threads: an implementation may refuse interleavings - the late-reading shared object with configure+use "
                                                               "under one lock shows only serialised behaviours, all of them sequential (ThrRefines)",
                                      cfg_text=cfg(constants=mc_constants(B, ThrVariant="locked", NThr=2), init="InitH", next_="NextH", invariants=["ThrRefines"]),
                                      workers=1, require=["HConstruct", "HStart", "HFinish"]),
        "tab": lambda: ctx.tlc("QuadratureMC.tla", what="export every small table (TAB) + TableLaws",
                               cfg_text=cfg(constants=mc_constants(B, DoExport=True), init="InitD", next_="NextD", invariants=["TableLaws"],
                                            constraints=["Export"]),
                               workers=1, require=["ChooseGrid", "ChooseVals"], timeout=1800),
    }
    from concurrent.futures import ThreadPoolExecutor
    with ThreadPoolExecutor(6) as ex:
        futs = {k: ex.submit(f) for k, f in jobs.items()}
        res = {k: f.result() for k, f in futs.items()}
    if "MechRefines" not in res["stale"].violated:
        raise MachineryError("self-test failed: stale-cache variant does not violate MechRefines")
    shapes = [(c["nx"], c["ny"]) for c in res["tensor"].records.get("TENSOR", [])]
    if "TensorRefines" not in res["tensor_pinned"].violated:
        raise MachineryError("self-test failed: the (nx,ny)-shaped weight grid does not violate TensorRefines")
    if len(shapes) != B["NMax"] ** 2:
        raise MachineryError("tensor shapes not exported")
    for v in ("nest_reread", "nest_scratch"):
        if "NestRefines" not in res[v].violated:
            raise MachineryError("self-test failed: the deviating integrate_func variant %s does not violate NestRefines" % v)
    if "BlockRefines" not in res["block_floor"].violated:
        raise MachineryError("self-test failed: the floor-division block loop does not violate BlockRefines")
    if "ThrRefines" not in res["thr_late"].violated:
        raise MachineryError("self-test failed: the late-reading shared object does not violate ThrRefines")
    if res["thr_locked"].violated:
        raise MachineryError("the late-reading shared object under a lock (interleavings refused) should satisfy ThrRefines")
    scales = res["ret"].records.get("SCALE", [])
    thrs = res["thr"].records.get("THR", [])
    nkv = res["kv"]
    seqs = res["seq"].records.get("SEQ", [])
    tabs = res["tab"].records.get("TAB", [])
    nests = res["nest"].records.get("NEST", [])
    rets = res["ret"].records.get("RET", [])
    dreps = sorted(((c["xrep"], c["yrep"]) for c in res["ret"].records.get("DREP", [])))
    etypes = sorted(((c["etype"], c["entry"], c["cont"]) for c in res["ret"].records.get("ETYPE", [])))
    if len(dreps) < 100 or len(etypes) < 50:
        raise MachineryError("representations not exported: %d table, %d end-point cases" % (len(dreps), len(etypes)))
    import esutil.integrate as ei  # noqa  (imported before forking)
    check_fresh_distinct()
    thr_prime()
    allrecs = []

    # 1. gauleg: every n in 1..200 and the interval lattice
    if part("gauleg"):
        gc = gauleg_cases(ctx, B)
        ctx.log("gauleg: %d rules" % len(gc))
        recs = pmap(obs_gauleg, [c + (ctx.seed, None) for c in gc], chunk=16)
        judge(ctx, recs, "judge gauleg rules (QuadratureTrace)")
        allrecs += recs
        good = [r for r in recs if r["n"] in (2, 7, 64, 200) and r["finite"]]
        for r in good[:: max(1, len(good) // 3)][:3]:
            ctx.sample({"gauleg": {f: r[f] for f in ("a", "b", "sc", "n")}, "moments_recorded": r["mom"][:4], "cheb_recorded": r["cheb"][:4],
                        "degrees_checked": [len(r["mom"]), len(r["nmom"]), len(r["cheb"])]})
        ctx.note(gauleg_rules=len(gc))
        # 1a. the same intervals handed over as other number types (numpy scalars of every width, python ints, 0-d arrays)
        tn = (1, 2, 5, 12) if ctx.quick else (1, 2, 3, 5, 8, 12, 31, 100)
        tc = [(a, b, sc, n, ctx.seed, None, et) for (a, b, sc, et) in TYPED_INTERVALS for n in tn]
        trecs = pmap(obs_gauleg, tc, chunk=16)
        for r in trecs:
            ctx.count(("typed", r["etype"], r["a"], r["b"], r["sc"], r["n"]))
        judge(ctx, trecs, "judge gauleg rules for typed end points (QuadratureTrace)", count=False)
        allrecs += trecs
        ctx.note(gauleg_typed_endpoint_rules=len(tc))
    # 1b. thorough: full degree 2n-1 for every n <= 200 on [-1,1] and [0,1]
    if part("fulldegree") and not ctx.quick:
        load_tables(ctx, B, kcapn=KCAPN_FULL, what="export moments to degree %d" % KCAPN_FULL)
        fc = [(a, b, 0, n, ctx.seed, KCAPN_FULL) for (a, b) in ((-1, 1), (0, 1)) for n in range(31, 201)]
        fc += [(-1, 1, 0, n, ctx.seed, KCAPN_FULL) for n in (500, 1000, 2000)]
        recs = pmap(obs_gauleg, fc, chunk=2)
        judge(ctx, recs, "judge gauleg rules to full degree 2n-1 (QuadratureTrace)", kcapn=KCAPN_FULL)
        ctx.note(gauleg_full_degree_rules=len(fc))
        load_tables(ctx, B)
    # 2. integrators: the rule each entry point effectively uses + linearity
    if part("integrators"):
        ic = integrator_cases(ctx)
        ctx.log("integrators: %d extracted rules" % len(ic))
        recs = pmap(obs_integrator, [c + (ctx.seed,) for c in ic], chunk=8)
        judge(ctx, recs, "judge rules extracted from the integrators (QuadratureTrace)")
        allrecs += recs
        # 2a. the range [xmin, xmax] in every representation QuadratureMC enumerates (ETYPE): end points of other number types,
        #     in a list / tuple / array of that element type, through every entry point
        tic, ttc = [], []
        for i, (et, entry, cont) in enumerate(etypes):
            ivs = [t for t in TYPED_INTERVALS if t[3] == et]
            for j in range(1 if ctx.quick else len(ivs)):
                a, b, sc, _ = ivs[(i + j) % len(ivs)]
                n = (2, 5, 3, 12)[(i + j) % 4]
                if entry == "gauleg":
                    continue                                   # part 1a
                if entry == "QGauss2.integrate_func":
                    ttc.append((len(ttc) + 1, 2 + i % 2, 3 - i % 2, 0, ctx.seed, (a, b, sc, et, cont)))
                else:
                    tic.append((entry, a, b, sc, n, ctx.seed, et, cont))
        trecs = pmap(obs_integrator, tic, chunk=8)
        tout = pmap(obs_tensor, ttc)
        trecs += [o[0] for o in tout] + [r for o in tout for r in o[1]]
        judge(ctx, trecs, "judge integrator rules for typed ranges (QuadratureTrace)")
        allrecs += trecs
        ctx.note(integrator_typed_range_cases=len(tic) + len(ttc))
        good = [r for r in recs if r["finite"] and r["n"] > 2]
        if good:
            r = good[len(good) // 2]
            ctx.sample({"integrator": r["src"], "interval": [r["a"], r["b"], r["sc"]], "n": r["n"], "weighted_sum_identity": r["lin"],
                        "moments_recorded": r["mom"][:3]})
        ctx.note(integrator_rules=len(ic))
    # 3. call sequences on one object (spec -> code), judged by stepping the cache machine
    if part("seq"):
        if len(seqs) < 100:
            raise MachineryError("call sequences not exported")
        recs = pmap(obs_seq, list(enumerate(seqs, 1)))
        judge(ctx, recs, "judge call sequences on one QGauss object (QuadratureTrace)")
        allrecs += recs
        ctx.sample({"call_sequence": {"ctor": recs[-1]["ctor"], "calls": [[e["kind"], e["arg"]] for e in recs[-1]["ev"]]},
                    "observed": [{f: e[f] for f in ("err", "nabsc", "same")} for e in recs[-1]["ev"]]})
        ctx.note(call_sequences=len(seqs))
        # longer seeded sequences with point counts outside the model's set are covered by the model run above
    # 3a. re-entrant / aliasing histories on one object (spec -> code), judged by stepping the nest machine
    if part("nest"):
        if len(nests) < 100:
            raise MachineryError("re-entrant histories not exported")
        recs = pmap(obs_nest, list(enumerate(nests, 1)))
        nn = sum(1 for r in recs if has_nested(r["ev"]))
        if nn == 0 or not any(e["op"] == "mutate" for r in recs for e in r["ev"]):
            raise MachineryError("no nested call / no mutating integrand was replayed")
        judge(ctx, recs, "judge re-entrant histories on one QGauss object (QuadratureTrace)")
        allrecs += recs
        deep = max(recs, key=lambda r: len(r["ev"]))
        ctx.sample({"reentrant_history": {"ctor": deep["ctor"], "script": [[e["op"], e["kind"], e["arg"]] for e in deep["script"]]},
                    "observed": [{f: e[f] for f in NEST_FIELDS[e["op"]]} for e in deep["ev"]]})
        ctx.note(reentrant_histories=len(nests), with_nested_calls=nn)
    # 3c. threads: every modelled interleaving with real threads (spec -> code), then free-running rounds behind a barrier
    if part("threads"):
        if len(thrs) < 50:
            raise MachineryError("thread interleavings not exported")
        thrs = sorted(thrs, key=lambda c: json_key(c))
        draws = 3 if ctx.quick else 2
        tc = [(i, c, d, ctx.seed) for i, c in enumerate(thrs, 1) for d in range(draws)]
        cap = 3000 if ctx.quick else 12000
        if len(tc) > cap:
            tc = random.Random("%s|thrsample" % ctx.seed).sample(tc, cap)
        recs = pmap(obs_thr, tc, chunk=32)
        nskip = sum(1 for r in recs if r["mode"] == "skipped")
        recs = [r for r in recs if r["mode"] != "skipped"]
        if not any(len(set(e["t"] for e in r["ev"][:3])) > 1 and r["ev"][1]["op"] == "start" for r in recs):
            if not any(r.get("realised") == "deadlock" for r in recs):
                raise MachineryError("no overlapping calls were replayed")
        rounds = 60 if ctx.quick else 400
        sc = [(t, k) for t in ("qgauss", "own", "shared") for k in ("data", "func")] + [("gauleg", "data")]
        for rr in thr_stress_isolated([(10 ** 6 + j * 10 ** 4, t, k, rounds, ctx.seed) for j, (t, k) in enumerate(sc)]):
            recs += rr
        nfree = sum(1 for r in recs if r["mode"] == "free")
        judge(ctx, recs, "judge thread interleavings and free-running rounds (QuadratureTrace)")
        allrecs += recs
        ov = [r for r in recs if r["mode"] == "stepped" and r["ev"][1]["op"] == "start"]
        if ov:
            ctx.sample({"threads": {"target": ov[0]["target"], "ctor": ov[0]["ctor"], "pause_points": ov[0]["pauses"]},
                        "observed": [{f: e[f] for f in THR_FIELDS[e["op"]]} for e in ov[0]["ev"]]})
        real = {w: sum(1 for r in recs if r["mode"] == "stepped" and r["realised"] == w) for w in ("as_scheduled", "serialised", "deadlock")}
        ctx.note(thread_interleavings=len(thrs), stepped_thread_runs=len(tc), free_running_rounds=nfree,
                 stepped_runs_realised_as_scheduled=real["as_scheduled"],
                 stepped_runs_serialised_by_the_implementation=real["serialised"],       # a paused thread held a lock the other needed
                 stepped_runs_deadlocked=real["deadlock"], stepped_runs_skipped_after_deadlock=nskip,
                 free_running_rounds_deadlocked=sum(1 for r in recs if r["mode"] == "free" and r.get("realised") == "deadlock"),
                 pause_points_per_call={"%s/%s" % k: v for k, v in sorted(_THR_NB.items())})
    # 3b. what the integrand returns: every broadcastable shape x representation (spec -> code)
    if part("ret"):
        if len(rets) < 100:
            raise MachineryError("returned shapes not exported")
        rets = sorted(rets, key=lambda c: (c["dim"], c["nx"], c["ny"], len(c["sh"]), list(c["sh"]), c["rep"], c["vals"]))
        recs = pmap(obs_ret, [(i, c, ctx.seed) for i, c in enumerate(rets, 1)], chunk=16)
        if not any(r["val"] and not r["sh"] for r in recs) and not any(r["err"] != "none" for r in recs):
            raise MachineryError("no scalar return value was judged")
        judge(ctx, recs, "judge integrand return shapes and representations (QuadratureTrace)")
        allrecs += recs
        sc = [r for r in recs if not r["sh"] and r["dim"] == 2 and r["err"] == "none"]
        if sc:
            ctx.sample({"integrand_returns": {"shape": sc[0]["sh"], "rep": sc[0]["rep"], "constant": [sc[0]["cn"], sc[0]["cd"]]}, "QGauss2": [sc[0]["nx"], sc[0]["ny"]],
                        "ranges": [sc[0]["ax"], sc[0]["bx"], sc[0]["ay"], sc[0]["by"]], "result": sc[0].get("result"), "exact_recorded": sc[0]["cexact"]})
        ctx.note(returned_shape_cases=len(rets))
    # 4. tabulated data (spec -> code: every small table)
    if part("data"):
        if len(tabs) < 100:
            raise MachineryError("tables not exported")
        ns = [1, 2, 3, 5, 8] if ctx.quick else [1, 2, 3, 4, 5, 8, 13, 30, 100]
        ents = ["QGauss(n).integrate", "qgauss", "QGauss().integrate(npts=n)"]
        dc = []
        for i, t in enumerate(tabs):
            for j, n in enumerate(ns if not ctx.quick else [ns[i % len(ns)], ns[(i + 2) % len(ns)]]):
                dc.append((len(dc) + 1, t, n, i + j, ents[(i + j) % 3], dreps[(len(dc) + 7 * ctx.seed) % len(dreps)]))
        if len(set(d[5] for d in dc)) < len(dreps):
            raise MachineryError("not every pair of table representations is used")
        # scale covariance: tables transported to the units 2^-60 .. 2^60 in x and in y (every table in the thorough tier, every
        # second one in the quick tier), in the floating-point representations
        nplain = len(dc)
        for i, t in enumerate(tabs):
            if ctx.quick and (i + ctx.seed) % 2:
                continue
            k = len(dc) - nplain + ctx.seed
            rp = dreps[(i + 3 * ctx.seed) % len(dreps)]
            if rp[0] in INT_REPS or rp[1] in INT_REPS:
                rp = ("f8", "f8")
            dc.append((len(dc) + 1, t, ns[(i + 1) % len(ns)], i, ents[(i + k) % 3], rp, (SCALE_EX[k % len(SCALE_EX)], SCALE_EY[k % len(SCALE_EY)])))
        if len(set(d[6] for d in dc[nplain:])) < len(SCALE_EX) * len(SCALE_EY):
            raise MachineryError("not every pair of table units is used")
        recs = pmap(obs_data, dc)
        for r, d in zip(recs, dc):
            r["trapz"] = d[1]["trapz"]
        judge(ctx, recs, "judge tabulated-data integrations (QuadratureTrace)")
        allrecs += recs
        lin = [r for r in recs if r["exact"] != rq.OFF and r["finite"]]
        if lin:
            ctx.sample({"table": lin[0]["tab"], "n": lin[0]["n"], "result": lin[0].get("result"), "exact_integral_recorded": lin[0]["exact"]})
        ctx.note(tables=len(tabs), data_integrations=len(dc), table_representation_pairs=len(dreps), tables_transported_to_other_scales=len(dc) - nplain,
                 table_units_log2={"x": sorted(SCALE_EX), "y": sorted(SCALE_EY)})
    # 5. QGauss2
    if part("tensor"):
        extra = [] if ctx.quick else [(7, 12), (12, 7), (30, 30), (1, 9), (16, 16)]
        tc = [(i + 1, nx, ny, i, ctx.seed) for i, (nx, ny) in enumerate(shapes + extra)]
        out = pmap(obs_tensor, tc)
        recs = [o[0] for o in out] + [r for o in out for r in o[1]]
        judge(ctx, recs, "judge QGauss2 observations and marginal rules (QuadratureTrace)")
        allrecs += recs
        ok = [o[0] for o in out if o[0]["err"] == "none" and o[0]["finite"]]
        if ok:
            ctx.sample({"QGauss2": [ok[-1]["nx"], ok[-1]["ny"]], "observed": {f: ok[-1][f] for f in ("npts", "ndx", "ndy", "full", "rank1", "lin")}})
        ctx.note(tensor_shapes=len(tc))
    # 5a. scale: grids across the 2^20-point boundary, judged through the exact product of moments and the product of marginals
    if part("scale"):
        if len(scales) < 20:
            raise MachineryError("scale cases not exported")
        grids = {}
        for c in sorted(scales, key=lambda c: (c["nx"], c["ny"], c["dj"], c["dk"], c["ax"], c["ay"])):
            grids.setdefault((c["nx"], c["ny"]), []).append(c)
        if not any(nx * ny > 2 ** 20 for nx, ny in grids) or not any(nx * ny <= 2 ** 20 for nx, ny in grids):
            raise MachineryError("scale grids do not straddle 2^20 points")
        sc, rid0 = [], 1
        for gi, (g, cs) in enumerate(sorted(grids.items())):
            if ctx.quick:                                        # covering: every degree pair and every rectangle once per grid
                degs = sorted(set((c["dj"], c["dk"]) for c in cs))
                ivs = sorted(set((c["ax"], c["bx"], c["ay"], c["by"]) for c in cs))
                want = set((d, ivs[(i + gi + ctx.seed) % len(ivs)]) for i, d in enumerate(degs))
                cs = [c for c in cs if ((c["dj"], c["dk"]), (c["ax"], c["bx"], c["ay"], c["by"])) in want]
            sc.append((rid0, cs))
            rid0 += len(cs)
        out = pmap_small(obs_scale_grid, sc)
        recs = [r for o in out for r in o]
        judge(ctx, recs, "judge QGauss2 grids across 2^20 points (QuadratureTrace)")
        allrecs += recs
        big = [r for r in recs if r["nx"] * r["ny"] > 2 ** 20 and r["err"] == "none"]
        if big:
            ctx.sample({"QGauss2": [big[0]["nx"], big[0]["ny"]], "integrand": "x^%d y^%d" % (big[0]["dj"], big[0]["dk"]),
                        "ranges": [big[0]["ax"], big[0]["bx"], big[0]["ay"], big[0]["by"]], "result": big[0].get("result"),
                        "exact_recorded": big[0]["exact"], "points_evaluated": big[0]["npts"]})
        ctx.note(scale_grids=len(grids), scale_cases=len(recs))
    # 6. binding self-tests: corrupted observations must be rejected, and a rule that is off by more
    #    than the property's tolerance must be projected to QOff and rejected
    selftest(ctx)
    ctx.rule = ("gauleg for every n in 1..200 on %s lattice intervals [a,b]*2^sc (integer a,b in -%d..%d incl. a>b; sc in {0,+-20,+-1000%s}) "
                "judged on ordering/symmetry/sign facts and on exact power sums against the TLC-exported moments of x^k (as far as 32 bits "
                "reach), t^k and T_k(t) up to degree min(2n-1,%d)%s and %d seeded +-1-coefficient polynomials; rules extracted from every "
                "integrator entry point (recording + indicator integrands); every call sequence of length <= %d over npts in {None,2,3,5} x "
                "{func,data} x 4 constructors replayed on one object; every table with 2..4 nodes; QGauss2 for every (nx,ny) <= %d. "
                "A case is distinct by (entry, interval, n) / sequence / (table, n, variant) / shape." %
                ("the" if ctx.quick else "all", B["AMax"], B["AMax"], "" if ctx.quick else ",+-300", B["KCapN"],
                 "" if ctx.quick else " (full degree 2n-1 <= 399 on [-1,1],[0,1])", NPOLY, B["MaxCalls"], B["NMax"]))
    ctx.exhaustive = True
    ctx.note(bounds=B, kernel_validation_cases=nkv, tolerance="error < (b-a) max|p| / %d (TolDen of Quadrature.tla)" % _T["told"])
    ctx.assumptions = [
        "binary64 outputs are evaluated exactly (integers); expectations and tolerance come from Quadrature.tla via TLC exports",
        "structural 'to rounding' = 4 ulp of max(|a|,|b|) (abscissa symmetry) / of the weight (weight symmetry)",
        "weights 'sum to b-a' is read through the polynomial clause (p = 1: error < 1e-9 (b-a)), not to rounding",
        "a > b: moments only (sign of b-a); a = b is outside the quantifier",
        "agreement with an independently computed rule is decided through the moment conditions (uniqueness of the Gauss rule)",
        "npts omitted after an explicit npts: the object's current count or the constructor's (either accepted)",
        "the identity clauses use the rule each integrator effectively applies (extracted with indicator integrands); it is judged as a "
        "Gauss-Legendre rule itself, not compared with gauleg's floats",
    ]
    ctx.trusted_base = ctx.trusted_base + ["vh.ratproj_q exact-integer projection kernel (validated against TLC on KV cases every run)"]


def selftest(ctx):
    saved = ctx.traces
    # the genuine record is an independently computed Gauss-Legendre rule (numpy), not esutil's
    x, w = np.polynomial.legendre.leggauss(7)
    good = rule_record("gauleg", -1, 1, 0, 7, list(x), list(w), seed=ctx.seed)
    w2 = np.array(w); w2[3] *= (1 + 8e-9)          # weight off by 8e-9 relative: sum off by ~1.7e-9 (b-a)
    badw = rule_record("gauleg", -1, 1, 0, 7, list(x), list(w2), seed=ctx.seed)
    x2 = np.array(x); x2[1] += 3e-8                  # one abscissa moved by 3e-8
    badx = rule_record("gauleg", -1, 1, 0, 7, list(x2), list(w), seed=ctx.seed)
    forged = dict(good); forged["cheb"] = [list(v) for v in good["cheb"]]; forged["cheb"][4] = [2, 15]   # a wrong rational
    swapped = dict(good); swapped["asc"] = list(good["asc"]); swapped["asc"][2] = 1
    seq_ok = {"k": "seq", "ctor": 3, "ev": [{"kind": "func", "arg": 5, "err": "none", "nabsc": 5, "same": [5]},
                                           {"kind": "func", "arg": 0, "err": "none", "nabsc": 5, "same": [5]},
                                           {"kind": "data", "arg": 0, "err": "none", "nabsc": 0, "same": [3]}]}
    seq_bad = {"k": "seq", "ctor": 3, "ev": [{"kind": "func", "arg": 5, "err": "none", "nabsc": 5, "same": [5]},
                                            {"kind": "func", "arg": 2, "err": "none", "nabsc": 5, "same": [5]}]}
    # a re-entrant history: call 1 (3 points) starts call 2 (2 points) from its integrand; genuine, then with the outer array
    # overwritten while call 1 is in progress, then with the outer sum formed with the inner call's weights
    def nest(read_nodes, ok1):
        return {"k": "nest", "ctor": 3, "ev": [
            {"op": "enter", "kind": "func", "arg": 0}, {"op": "eval", "id": 1, "nabsc": 3, "nodes": [3]},
            {"op": "enter", "kind": "func", "arg": 2}, {"op": "eval", "id": 2, "nabsc": 2, "nodes": [2]}, {"op": "read", "id": 2, "nodes": [2]},
            {"op": "exit", "id": 2, "err": "none", "ok": [2]}, {"op": "read", "id": 1, "nodes": read_nodes}, {"op": "exit", "id": 1, "err": "none", "ok": ok1},
            {"op": "read", "id": 1, "nodes": [3]}, {"op": "read", "id": 2, "nodes": [2]},
            {"op": "enter", "kind": "data", "arg": 0}, {"op": "exit", "id": 3, "err": "none", "ok": [2]}]}
    nest_ok, nest_over, nest_w = nest([3], [3]), nest([], [3]), nest([3], [2])
    nest_mut = nest([], [3])
    nest_mut["ev"].insert(2, {"op": "mutate", "id": 1})          # the integrand overwrote its own array: reading garbage is fine
    # a constant returned as a scalar by a QGauss2 integrand over [0,2]x[1,4]: 5/2 * 6 = 15
    ret_ok = {"k": "ret", "dim": 2, "nx": 3, "ny": 3, "sh": [], "rep": "pyfloat", "err": "none", "finite": True, "val": True, "isconst": True,
              "cn": 5, "cd": 2, "ax": 0, "bx": 2, "ay": 1, "by": 4, "cexact": [15, 1]}
    ret_bad = dict(ret_ok, cexact=list(rq.OFF), val=False)
    ret_rej = dict(ret_ok, err="ValueError", sh=[3, 3], rep="f8")          # a full-shape array must be accepted
    ret_may = dict(ret_ok, err="ValueError")                                # a scalar may be rejected
    data_list = {"k": "data", "n": 2, "err": "AttributeError", "finite": True, "val": False, "exact": list(rq.OFF), "xrep": "list", "yrep": "f8",
                 "tab": [{"x": [0, 1], "y": [1, 1]}, {"x": [1, 1], "y": [3, 1]}]}
    data_arr = dict(data_list, xrep=">f8")
    # two threads, overlapping calls with 3 and 2 points on the module function: genuine, then thread 1 got thread 2's rule
    def thr(ok1):
        return {"k": "thr", "ctor": 0, "shared": False, "ev": [{"op": "start", "t": 1, "arg": 3}, {"op": "start", "t": 2, "arg": 2},
                                               {"op": "finish", "t": 1, "err": "none", "ok": ok1}, {"op": "finish", "t": 2, "err": "none", "ok": [2]}]}
    thr_good, thr_bad = thr([3]), thr([2])
    # one object per thread built for 5 points, npts omitted while another thread asks for 2 on ITS object: 5, not 2
    thr_none = {"k": "thr", "ctor": 5, "shared": False, "ev": [{"op": "start", "t": 1, "arg": 0}, {"op": "start", "t": 2, "arg": 2},
                                                                {"op": "finish", "t": 2, "err": "none", "ok": [2]}, {"op": "finish", "t": 1, "err": "none", "ok": [5]}]}
    thr_none_bad = dict(thr_none, ev=thr_none["ev"][:3] + [{"op": "finish", "t": 1, "err": "none", "ok": [2]}])
    # x^1 y^2 over [0,2]x[1,3] on a 1200 x 1501 grid: 2 * 26/3 = 52/3
    scale_ok = {"k": "scale", "nx": 1200, "ny": 1501, "dj": 1, "dk": 2, "ax": 0, "bx": 2, "ay": 1, "by": 3, "err": "none", "finite": True,
                "npts": 1200 * 1501, "ndx": 1200, "ndy": 1501, "exact": [52, 3], "prod": True}
    scale_rows = dict(scale_ok, npts=1200 * 1500, ndy=1500, exact=list(rq.OFF), prod=False)       # one row of the grid left out
    # the implementation refused the interleaving (thread 2 blocked until thread 1 was through): fine, the results still count;
    # a call that never returned: never allowed
    thr_ser = dict(thr_good, ev=thr_good["ev"][:2] + [{"op": "blocked", "t": 2}] + thr_good["ev"][2:])
    thr_ser_bad = dict(thr_good, ev=thr_ser["ev"][:4] + [{"op": "finish", "t": 2, "err": "none", "ok": [3]}])
    thr_dead = dict(thr_good, ev=thr_good["ev"][:2] + [{"op": "blocked", "t": 2}, {"op": "deadlock", "t": 1}])
    recs = [good, badw, badx, forged, swapped, seq_ok, seq_bad, nest_ok, nest_over, nest_w, nest_mut, ret_ok, ret_bad, ret_rej, ret_may,
            data_list, data_arr, thr_good, thr_bad, thr_none, thr_none_bad, scale_ok, scale_rows, thr_ser, thr_ser_bad, thr_dead]
    for i, r in enumerate(recs, 1):
        r["id"] = i
    rej = tracecheck.validate(ctx, "QuadratureTrace.tla", [trace_view(r) for r in recs], what="self-test: corrupted records rejected",
                              constants={"KCapX": _T["kcapx"], "KCapN": _T["kcapn"], "NPoly": NPOLY}, workers=1)
    ctx.traces = saved
    want = {2: "w_sum", 3: "poly_exact", 4: "poly_exact", 5: "ascending", 7: "uses_other_npts@2", 9: "abscissae_overwritten_during_call@7",
            10: "weighted_sum@8", 13: "broadcast_sum", 14: "unexpected_error", 17: "unexpected_error", 19: "not_the_sequential_result@3",
            21: "not_the_sequential_result@4", 23: "tensor_grid", 25: "not_the_sequential_result@5", 26: "deadlock@4"}
    problems = [(i, rej.get(i)) for i, cl in want.items() if cl not in rej.get(i, [])]
    if "constant_integral" not in rej.get(13, []):
        problems.append((13, rej.get(13)))
    for cl in ("separable_exact", "product_of_marginals"):
        if cl not in rej.get(23, []):
            problems.append((23, rej.get(23)))
    for i in (1, 6, 8, 11, 12, 15, 16, 18, 20, 22, 24):
        if i in rej:
            problems.append(("genuine record rejected", i, rej.get(i)))
    if problems:
        raise MachineryError("binding self-test failed: %s (rejects %s)" % (problems, rej))


def replay(ctx, case):
    B = BOUNDS["quick"]
    _T.update(kcapx=B["KCapX"], kcapn=B["KCapN"])
    load_tables(ctx, B)
    k = case["kind"]
    if k == "rule":
        if case["src"] == "gauleg":
            r = obs_gauleg((case["a"], case["b"], case["sc"], case["n"], ctx.seed, None, case.get("etype")))
        elif case["src"].startswith("QGauss2"):
            print("replay: marginal rules are re-derived from their QGauss2 case; replaying the shape (n,n)")
            typed = (case["a"], case["b"], case["sc"], case["etype"], case.get("cont") or "list") if case.get("etype") else None
            rec, rules = obs_tensor((1, case["n"], case["n"], 0, ctx.seed) + ((typed,) if typed else ()))
            judge(ctx, [rec] + rules, "replay", count=False)
            return
        else:
            r = obs_integrator((case["src"], case["a"], case["b"], case["sc"], case["n"], ctx.seed) +
                               ((case["etype"], case.get("cont") or "list") if case.get("etype") else ()))
        print("replay observed:", {f: r[f] for f in ("err", "finite", "nx", "nw", "asc", "wsg", "xsym", "wsym", "lin")},
              "off:", {f: [i for i, v in enumerate(r[f]) if v == rq.OFF] for f in ("mom", "nmom", "cheb")})
        judge(ctx, [r], "replay", count=False)
    elif k == "data":
        r = obs_data((1, {"tab": case["tab"], "trapz": case["trapz"]}, case["n"], case["variant"], case["entry"],
                      (case.get("xrep", "f8"), case.get("yrep", "f8")), case.get("scale")))
        r["trapz"] = case["trapz"]
        print("replay observed:", {f: r.get(f) for f in ("err", "finite", "val", "exact", "result")})
        judge(ctx, [r], "replay", count=False)
    elif k == "tensor":
        rec, rules = obs_tensor((1, case["nx"], case["ny"], case["variant"], ctx.seed) + ((tuple(case["typed"]),) if case.get("typed") else ()))
        print("replay observed:", {f: rec.get(f) for f in ("err", "finite", "npts", "full", "rank1", "lin")})
        judge(ctx, [rec] + rules, "replay", count=False)
    elif k == "seq":
        check_fresh_distinct()
        r = obs_seq((case["rid"], {"ctor": case["ctor"], "calls": case["calls"]}))
        print("replay observed:", r["ev"])
        judge(ctx, [r], "replay", count=False)
    elif k == "nest":
        check_fresh_distinct()
        r = obs_nest((case["rid"], {"ctor": case["ctor"], "ev": case["script"]}))
        print("replay observed:", [{f: e[f] for f in NEST_FIELDS[e["op"]]} for e in r["ev"]])
        judge(ctx, [r], "replay", count=False)
    elif k == "thr":
        check_fresh_distinct()
        thr_prime()
        if case["mode"] == "stepped":
            ev, _ = thr_run(case["target"], case["ctor"], case["sched"], {int(t): p for t, p in case["pauses"].items()})
            recs = [{"k": "thr", "id": 1, "target": case["target"], "ctor": case["ctor"], "shared": case["target"] == "shared", "ev": ev, "mode": "stepped",
                     "pauses": {int(t): p for t, p in case["pauses"].items()}, "sched": case["sched"], "realised": thr_realised(ev)}]
            print("replay observed (%s):" % thr_realised(ev), ev)
        else:
            print("replay: free-running threads are not deterministic; running %d rounds again" % case["rounds"])
            recs = obs_stress((1, case["target"], case["thread_kind"], case["rounds"], ctx.seed))
        judge(ctx, recs, "replay", count=False)
    elif k == "scale":
        recs = obs_scale_grid((1, [case["case"]]))
        print("replay observed:", {f: recs[0].get(f) for f in ("err", "finite", "npts", "ndx", "ndy", "calls", "exact", "prod", "result", "result_sep", "marginals")})
        judge(ctx, recs, "replay", count=False)
    elif k == "ret":
        r = obs_ret((case["rid"], case["case"], ctx.seed))
        print("replay observed:", {f: r.get(f) for f in ("err", "finite", "val", "cexact", "result", "shape_of_result")})
        judge(ctx, [r], "replay", count=False)
    else:
        raise MachineryError("unknown replay kind %r" % k)
