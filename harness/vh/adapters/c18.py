"""C18 - weighted moments, sigma clipping, interpolation and cov/cor follow their definitions.

spec -> code : StatsMC.tla enumerates every case of the bounded space (data x weights,
               N-by-2 inputs, clipping inputs, interpolation tables, covariance matrices)
               and runs the three mechanisms (wmedian loop, clipping iteration, searchsorted
               index selection) as actions against the property-level definitions; every
               enumerated case is concretised on a dyadic lattice and executed against
               esutil.stat (all option settings).
code -> spec : what the real code returned - for sigma_clip the whole iteration, re-observed
               through the public call with niter = 0..k - is written as ndjson and judged by
               StatsTrace.tla (SFailing of Stats.tla); larger seeded cases go the same way.
Python never judges a result: it maps abstract <-> concrete, projects observed floats onto
lattice rationals (vh.ratproj) and records.
"""
import random
import warnings
from fractions import Fraction as Fr

import numpy as np

from .. import tracecheck
from ..core import MachineryError
from ..par import pmap
from ..ratproj import real, rat, need_den
from ..tlc import cfg

NEEDS_EXT = True          # `import esutil` needs the compiled sub-packages

# lattice concretisations: value = (x + off) * unit, weight = w * wunit  (unit, wunit dyadic)
CONC = [
    (1.0, 0, 1.0, "f8"), (0.5, -3, 0.25, "f8"), (4.0, 2, 8.0, "f8"), (2.0 ** -10, 0, 2.0 ** -3, "f8"),
    (1, 0, 1, "i8"), (8.0, -6, 1.0, "f8"), (1.0, 5, 2.0 ** 10, "f8"), (1, -2, 1, "i8"),
]
NITER = 4

BOUNDS = {
    "quick": dict(MinLen=1, MaxLen=3, Vals={0, 1, 3, 4}, Wts={0, 1, 2, 8}, MaxW=32, MuNone=True,
                  N2Max=2, Vals2={0, 3}, Wts2={0, 1, 2},
                  ClipMaxLen=4, ClipMaxLenW=3, ClipVals={0, 1, 2, 3, 6}, ClipWts={1, 8}, NSigIdx={1, 2, 4}, ClipNiter=NITER,
                  TabX=set(range(0, 5)), TabV={0, 1, 4}, TabMax=4,
                  CovMaxN=2, CovDiag={1, 2, 4, 9}, CovOffN=6, CovShift=3, DefMaxW=12),
    "thorough": dict(MinLen=1, MaxLen=4, Vals=set(range(0, 5)), Wts={0, 1, 2, 8}, MaxW=32, MuNone=True,
                     N2Max=3, Vals2={0, 1, 4}, Wts2={0, 1, 2},
                     ClipMaxLen=5, ClipMaxLenW=4, ClipVals={0, 1, 2, 3, 6}, ClipWts={1, 2, 8}, NSigIdx={1, 2, 3, 4, 5, 6},
                     ClipNiter=NITER, TabX=set(range(0, 7)), TabV=set(range(0, 6)), TabMax=4,
                     CovMaxN=3, CovDiag={1, 2, 4, 9}, CovOffN=6, CovShift=3, DefMaxW=12),
}
INVARIANTS = ["DefsAgree", "MomentsSane", "MedSafe", "MedRefines", "ClipRefines", "ClipNonEmpty", "ClipStopsOK",
              "ClipStatsDefined", "InterpRefines", "CovSane", "DesignCovers", "RepAdmissible"]
# quantify over SUBSET x SUBSET of the positions in every clipping state: checked in a run of their own on the quick bounds
CLIP_THEOREMS = ["ClipPredsAgree", "ClipTolSound"]
ACTIONS = ["ChooseX1", "ChooseW1", "ChooseMu", "MedStart", "MedStep", "MedDone", "ChooseX2", "ChooseW2",
           "ChooseClipX", "ChooseClipW", "ClipStep", "ClipFinish", "ChooseNodes", "ChooseTabV", "ChooseCovDiag", "ChooseCovOff"]


# ---- abstract <-> concrete -----------------------------------------------------------------
def _su():
    import esutil.stat.util as su
    return su


def cdata(col, k):
    unit, off, _, dt = CONC[k]
    return np.array([(v + off) * unit for v in col], dtype=dt)


def cwts(col, k):
    _, _, wunit, dt = CONC[k]
    return np.array([v * wunit for v in col], dtype=dt)


def cmat(cols, fn, k):
    """list of columns -> 1-d array (one column) or N-by-d array"""
    if len(cols) == 1:
        return fn(cols[0], k)
    return np.column_stack([fn(c, k) for c in cols])


def vec(val, d, bcast=False):
    a = np.atleast_1d(np.asarray(val, dtype=float)).ravel()
    if bcast and a.size == 1 and d > 1:
        a = np.repeat(a, d)
    return [float(v) for v in a]


class Frame:
    """frame condition: a non-in-place call must leave its array arguments unchanged"""
    def __init__(self, *arrs):
        self.arrs = [a for a in arrs if isinstance(a, np.ndarray)]
        self.before = [a.tobytes() for a in self.arrs]

    def problems(self):
        return [] if all(a.tobytes() == b for a, b in zip(self.arrs, self.before)) else ["argument_modified"]


def call(fn, *a, **kw):
    with warnings.catch_warnings():
        warnings.simplefilter("ignore")
        with np.errstate(all="ignore"):
            return fn(*a, **kw)


# ---- one executor per op: (abstract case, list of parameter records, concretisation) -> runs ----
def scales(cols, k, mu=None):
    """lattice-unit magnitudes the rounding errors are relative to"""
    _, off, _, _ = CONC[k]
    s1 = max([abs(v + off) for c in cols for v in c] + [1])
    if mu is not None:
        s1 = max(s1, abs(Fr(*mu) + off))
    return s1, 8 * s1 * s1


def ex_wmom(c, ps, k):
    su = _su()
    unit, off, wunit, _ = CONC[k]
    d = len(c["x"])
    x, w = cmat(c["x"], cdata, k), cmat(c["w"], cwts, k)
    for wc in c["w"]:
        need_den(sum(wc) ** 4, "wmom total weight")
    fr = Frame(x, w)
    runs, problems = [], []
    for p in ps:
        kw = dict(calcerr=bool(p["calcerr"]), sdev=bool(p["sdev"]))
        if p["hasmu"]:
            kw["inputmean"] = float((Fr(*p["mu"]) + off) * Fr(unit))
        s1, s2 = scales(c["x"], k, p["mu"] if p["hasmu"] else None)
        try:
            res = call(su.wmom, x, w, **kw)
            mean = vec(res[0], d, bcast=bool(p["hasmu"]))
            err = vec(res[1], d)
            sd = vec(res[2], d) if p["sdev"] else []
            o = {"err": "none",
                 "mean": [real(v, s1, div=unit, off=off) for v in mean],
                 "err2": [real(v, s2, div=Fr(unit) ** 2, square=True) if p["calcerr"] else real(v, 1, mul=wunit, square=True)
                          for v in err],
                 "var": [real(v, s2, div=Fr(unit) ** 2, square=True) for v in sd]}
            raw = {"mean": mean, "err": err, "sdev": sd}
        except Exception as e:  # noqa
            o = {"err": type(e).__name__, "mean": [], "err2": [], "var": []}
            raw = {"exc": repr(e)}
        runs.append({"p": p, "o": o, "raw": raw})
        # sdev=False returns the first two outputs of sdev=True (relation between two outputs: compared directly)
        if p["sdev"] and o["err"] == "none":
            try:
                r2 = call(su.wmom, x, w, **dict(kw, sdev=False))
                if len(r2) != 2 or not all(np.array_equal(np.asarray(a), np.asarray(b)) for a, b in zip(r2, res[:2])):
                    problems.append("sdev_variants_differ")
            except Exception:  # noqa
                problems.append("sdev_variants_differ")
    return runs, problems + fr.problems()


def ex_wmedian(c, ps, k):
    su = _su()
    unit, off, _, _ = CONC[k]
    x, w = cdata(c["x"], k), cwts(c["w"], k)
    fr = Frame(x, w)
    s1, _ = scales([c["x"]], k)
    try:
        v = call(su.wmedian, x, w)
        o = {"err": "none", "val": real(v, s1, div=unit, off=off)}
        raw = {"val": float(v)}
    except Exception as e:  # noqa
        o = {"err": type(e).__name__, "val": real(float("nan"), 1)}
        raw = {"exc": repr(e)}
    return [{"p": ps[0], "o": o, "raw": raw}], fr.problems()


def _clip_out(res, c, k):
    unit, off, wunit, _ = CONC[k]
    s1, s2 = scales([c["x"]], k)
    return {"mean": real(res[0], s1, div=unit, off=off),
            "var": real(res[1], s2, div=Fr(unit) ** 2, square=True),
            "err2": real(res[2], s2, div=Fr(unit) ** 2, square=True),
            "err2i": real(res[2], 1, mul=wunit, square=True)}


def ex_clip(c, ps, k):
    """re-observes the iteration: one public call per iteration count 0..max(niter)"""
    su = _su()
    x = cdata(c["x"], k)
    w = cwts(c["w"], k) if c["hasw"] else None
    if c["hasw"]:
        need_den(sum(c["w"]) ** 4, "sigma_clip total weight")
    else:
        need_den(len(c["x"]) ** 3, "sigma_clip length")
    nsig = c["nsn"] / c["nsd"]
    fr = Frame(x, w)
    top = max(p["niter"] for p in ps)
    steps, outs, err = [], [], None
    for it in range(top + 1):
        try:
            res = call(su.sigma_clip, x, weights=w, niter=it, nsig=nsig, get_err=True, get_indices=True, silent=True)
            steps.append([int(i) + 1 for i in res[3]])
            outs.append(res)
        except Exception as e:  # noqa
            err = e
            break
    runs = []
    for p in ps:
        if err is not None:
            nan = real(float("nan"), 1)
            runs.append({"p": p, "o": {"err": type(err).__name__, "steps": [], "mean": nan, "var": nan, "err2": nan, "err2i": nan},
                         "raw": {"exc": repr(err)}})
            continue
        res = outs[p["niter"]]
        o = dict({"err": "none", "steps": steps[:p["niter"] + 1]}, **_clip_out(res, c, k))
        runs.append({"p": p, "o": o, "raw": {"mean": float(res[0]), "std": float(res[1]), "err": float(res[2])}})
    # the optional outputs are positional: the same values must appear with every flag setting
    # (a relation between two outputs of the implementation - compared directly)
    flags_ok = True
    if err is None:
        full = outs[top]
        for ge, gi in ((False, False), (True, False), (False, True)):
            r = call(su.sigma_clip, x, weights=w, niter=top, nsig=nsig, get_err=ge, get_indices=gi, silent=True)
            exp = [full[0], full[1]] + ([full[2]] if ge else []) + ([full[3]] if gi else [])
            if len(r) != len(exp) or not all(np.array_equal(np.asarray(a), np.asarray(b)) for a, b in zip(r, exp)):
                flags_ok = False
    return runs, fr.problems() + ([] if flags_ok else ["flag_variants_differ"])


def ex_interp(c, ps, k):
    su = _su()
    unit, off, _, dt = CONC[k]
    vunit, voff, _, vdt = CONC[(k + 3) % len(CONC)]
    xs = cdata(c["xs"], k)
    vs = cdata(c["vs"], (k + 3) % len(CONC))
    us = np.array([float((Fr(*u) + off) * Fr(unit)) for u in c["us"]], dtype="f8")
    fr = Frame(xs, vs, us)
    dxmin = min(b - a for a, b in zip(c["xs"], c["xs"][1:]))
    span = max([Fr(*u) for u in c["us"]] + [Fr(c["xs"][-1])]) - min([Fr(*u) for u in c["us"]] + [Fr(c["xs"][0])])
    sc = max([abs(v + voff) for v in c["vs"]] + [1]) * (1 + 2 * span / dxmin)
    try:
        vec_out = [float(v) for v in call(su.interplin, vs, xs, us)]
        one_out = [float(np.atleast_1d(call(su.interplin, vs, xs, us[i]))[0]) for i in range(len(us))]
        o = {"err": "none", "vals": [[real(v, sc, div=vunit, off=voff) for v in vec_out],
                                     [real(v, sc, div=vunit, off=voff) for v in one_out]]}
        raw = {"vec": vec_out, "one": one_out}
    except Exception as e:  # noqa
        o = {"err": type(e).__name__, "vals": []}
        raw = {"exc": repr(e)}
    return [{"p": ps[0], "o": o, "raw": raw}], fr.problems()


def ex_gstats(c, ps, k):
    su = _su()
    unit, off, wunit, _ = CONC[k]
    d = len(c["x"])
    x = cmat(c["x"], cdata, k)
    w = cmat(c["w"], cwts, k)
    fr = Frame(x, w)
    runs = []
    for p in ps:
        kw = {}
        if p["mode"] == "weights":
            kw["weights"] = w
            if not p["calcerr"]:
                kw["calcerr"] = False
        elif p["mode"] == "clip":
            kw.update(nsig=c["nsn"] / c["nsd"], niter=p["niter"], silent=True)
            if c["hasw"]:
                kw["weights"] = w
        s1, s2 = scales(c["x"], k)
        try:
            res = call(su.get_stats, x, **kw)
            f = {key: vec(res[key], d) for key in ("mean", "std", "err", "min", "max")}
            o = {"err": "none",
                 "mean": [real(v, s1, div=unit, off=off) for v in f["mean"]],
                 "var": [real(v, s2, div=Fr(unit) ** 2, square=True) for v in f["std"]],
                 "err2": [real(v, s2, div=Fr(unit) ** 2, square=True) for v in f["err"]],
                 "err2i": [real(v, 1, mul=wunit, square=True) for v in f["err"]],
                 "min": [real(v, s1, div=unit, off=off) for v in f["min"]],
                 "max": [real(v, s1, div=unit, off=off) for v in f["max"]]}
            raw = f
        except Exception as e:  # noqa
            o = {"err": type(e).__name__, "mean": [], "var": [], "err2": [], "err2i": [], "min": [], "max": []}
            raw = {"exc": repr(e)}
        runs.append({"p": p, "o": o, "raw": raw})
    return runs, fr.problems()


def ex_cov(c, ps, k):
    su = _su()
    unit, _, _, dt = CONC[k]
    u2 = Fr(unit) ** 2
    m = np.array([[v * float(u2) for v in row] for row in c["m"]], dtype=dt)
    fr = Frame(m)
    n = len(c["m"])
    big = max(abs(v) for row in c["m"] for v in row)
    try:
        cor = call(su.cov2cor, m)
        back = call(su.cor2cov, cor, np.sqrt(np.diag(m).astype("f8")))
        corl = [[float(cor[i][j]) for j in range(cor.shape[1])] for i in range(cor.shape[0])]
        o = {"err": "none",
             "cor": [[dict(real(abs(v), max(1.0, v * v if v == v else 1.0), square=True), s=(v > 0) - (v < 0)) for v in row] for row in corl],
             "back": [[real(back[i][j], big, div=u2) for j in range(back.shape[1])] for i in range(back.shape[0])]}
        raw = {"cor": corl, "back": np.asarray(back, dtype=float).tolist()}
    except Exception as e:  # noqa
        o = {"err": type(e).__name__, "cor": [], "back": []}
        raw = {"exc": repr(e)}
    return [{"p": ps[0], "o": o, "raw": raw}], fr.problems()


EXEC = {"wmom": ex_wmom, "wmedian": ex_wmedian, "clip": ex_clip, "interp": ex_interp, "gstats": ex_gstats, "cov": ex_cov}


def execute(job):
    """job = (id, op, c, ps, conc) -> record"""
    i, op, c, ps, k = job
    runs, problems = EXEC[op](c, ps, k)
    return {"id": i, "op": op, "c": c, "ps": ps, "conc": k, "runs": runs, "problems": problems}


# ---- exported case -> jobs -------------------------------------------------------------------------
def wmom_params(mus):
    """calcerr x inputmean with sdev=True (the sdev=False call is compared with it directly)"""
    out = []
    for calcerr in (False, True):
        out.append({"calcerr": calcerr, "sdev": True, "hasmu": False, "mu": [0, 1]})
        for mu in mus:
            out.append({"calcerr": calcerr, "sdev": True, "hasmu": True, "mu": list(mu)})
    return out


GSTATS_CLIP_MAXLEN = 8      # = Stats!SClipEnumMax


def jobs_of(case, opts, k):
    """abstract case exported by StatsMC -> list of (op, c, ps)"""
    op = case["op"]
    if op == "wm":
        x, w = case["x"], case["w"]
        out = [("wmom", {"x": x, "w": w}, wmom_params(opts["mus"]))]
        gs = [{"mode": "plain", "calcerr": True, "niter": 0}, {"mode": "weights", "calcerr": True, "niter": 0},
              {"mode": "weights", "calcerr": False, "niter": 0}]
        out.append(("gstats", {"x": x, "w": w, "hasw": True, "nsn": 1, "nsd": 1}, gs))
        if len(x) == 1 and len(w) == 1:
            out.append(("wmedian", {"x": x[0], "w": w[0]}, [{"v": 1}]))
        return out
    if op == "cl":
        c = {kk: case[kk] for kk in ("x", "w", "hasw", "nsn", "nsd")}
        nit = case["niter"]
        out = [("clip", c, [{"niter": it} for it in sorted({1, nit})])]
        if len(case["x"]) <= GSTATS_CLIP_MAXLEN:
            # get_stats reports no subset: the spec enumerates every subset the clipping may end on (3^n at worst)
            out.append(("gstats", {"x": [case["x"]], "w": [case["w"]], "hasw": case["hasw"], "nsn": case["nsn"], "nsd": case["nsd"]},
                        [{"mode": "clip", "calcerr": True, "niter": nit}]))
        return out
    if op == "ip":
        return [("interp", {"xs": case["xs"], "vs": case["vs"], "us": case["us"]}, [{"v": 1}])]
    if op == "cv":
        return [("cov", {"m": case["m"]}, [{"v": 1}])]
    raise MachineryError("unknown exported case %r" % (case,))


# ---- signatures -------------------------------------------------------------------------------------
ENTRY = {"wmom": "wmom", "wmedian": "wmedian", "clip": "sigma_clip", "interp": "interplin", "gstats": "get_stats", "cov": "cov2cor/cor2cov"}


def struct_class(op, c, p):
    if op == "wmom":
        shape = "1d" if len(c["x"]) == 1 else ("Nxd,w1d" if len(c["w"]) == 1 else "Nxd,wNxd")
        return "%s|%s" % (shape, "inputmean" if p["hasmu"] else "nomean")
    if op == "wmedian":
        return "zero-weights" if 0 in c["w"] else "positive-weights"
    if op == "clip":
        return "weighted" if c["hasw"] else "unweighted"
    if op == "interp":
        return "2-nodes" if len(c["xs"]) == 2 else "n-nodes"
    if op == "gstats":
        return "%s|%s" % (p["mode"], "1d" if len(c["x"]) == 1 else "Nxd")
    if op == "cov":
        return "n=1" if len(c["m"]) == 1 else "n>1"
    return "?"


def judge(ctx, recs, what):
    rejects = tracecheck.validate(ctx, "StatsTrace.tla",
                                  [{"id": r["id"], "op": r["op"], "c": r["c"],
                                    "runs": [{"p": u["p"], "o": u["o"]} for u in r["runs"]]} for r in recs], what=what)
    byid = {r["id"]: r for r in recs}
    for rid, failing in sorted(rejects.items()):
        r = byid[rid]
        for f in failing:
            ki, clause = f.split(":", 1)
            u = r["runs"][int(ki) - 1]
            ctx.violation("%s|%s|%s" % (ENTRY[r["op"]], clause, struct_class(r["op"], r["c"], u["p"])),
                          "esutil.stat.%s result not allowed by Stats.tla: clause %s" % (ENTRY[r["op"]], clause),
                          {"op": r["op"], "c": r["c"], "ps": [u["p"]], "conc": r["conc"], "observed": u["o"], "raw": u["raw"]})
    for r in recs:
        for pb in sorted(set(r["problems"])):
            ctx.violation("%s|%s" % (ENTRY[r["op"]], pb),
                          "call modified an array argument / optional outputs differ between flag settings (%s)" % pb,
                          {"op": r["op"], "c": r["c"], "ps": r["ps"], "conc": r["conc"]})
    return rejects


# ---- larger seeded cases (code -> spec) -------------------------------------------------------------
def seeded_jobs(rng, n, opts):
    out = []
    nsigs = opts["nsigs"]
    for _ in range(n):
        kind = rng.choice(["wm", "wm", "wmNd", "clu", "clu", "clw", "ip", "cv"])
        if kind == "wm":
            ln = rng.randint(5, 12)
            x = [rng.randint(0, 12) for _ in range(ln)]
            w = [rng.choice([0, 1, 1, 2, 4]) for _ in range(ln)]
            while sum(w) > 16:
                w[rng.randrange(ln)] = 0
            if sum(w) == 0:
                w[rng.randrange(ln)] = 1
            out.extend(jobs_of({"op": "wm", "x": [x], "w": [w]}, opts, 0))
        elif kind == "wmNd":
            ln, d = rng.randint(2, 6), rng.randint(2, 3)
            x = [[rng.randint(0, 8) for _ in range(ln)] for _ in range(d)]
            nw = rng.choice([1, d])
            w = [[rng.choice([0, 1, 2, 3]) for _ in range(ln)] for _ in range(nw)]
            for col in w:
                if sum(col) == 0:
                    col[rng.randrange(ln)] = 1
            out.extend(jobs_of({"op": "wm", "x": x, "w": w}, opts, 0))
        elif kind in ("clu", "clw"):
            hasw = kind == "clw"
            ln = rng.randint(5, 10) if hasw else rng.randint(6, 24)
            centre = rng.randint(8, 14)
            x = [centre + rng.choice([-1, 0, 0, 1, 2, -2]) for _ in range(ln)]
            for _o in range(rng.randint(0, 2)):                    # 0..2 injected outliers
                x[rng.randrange(ln)] = rng.choice([0, 1, 30, 40, centre + 6, centre - 6])
            w = [rng.choice([1, 1, 2, 3]) for _ in range(ln)] if hasw else [1] * ln
            while hasw and sum(w) > 16:
                w[w.index(max(w))] = 1
            ns = nsigs[rng.randrange(len(nsigs))]
            out.extend(jobs_of({"op": "cl", "x": x, "w": w, "hasw": hasw, "nsn": ns[0], "nsd": ns[1], "niter": rng.choice([3, 4, 6, 10])},
                               opts, 0))
        elif kind == "ip":
            nn = rng.randint(2, 8)
            xs = sorted(rng.sample(range(0, 21), nn))
            vs = [rng.randint(0, 12) for _ in range(nn)]
            us = [rat(Fr(rng.randint(-12, 96), 4)) for _ in range(12)] + [[v, 1] for v in xs[:3]]
            out.append(("interp", {"xs": xs, "vs": vs, "us": us}, [{"v": 1}]))
        else:
            nn = rng.randint(3, 6)
            m = [[0] * nn for _ in range(nn)]
            for i in range(nn):
                m[i][i] = rng.choice([1, 2, 4, 9, 16, 25])
                for j in range(i):
                    m[i][j] = m[j][i] = rng.randint(-4, 4)
            out.append(("cov", {"m": m}, [{"v": 1}]))
    return out


# ---- the check ------------------------------------------------------------------------------------------
def run(ctx):
    B = BOUNDS[ctx.tier]
    kinds = {"wm", "wm2", "cl", "ip", "cv"}
    consts = dict(B, Kinds=kinds, MedVariantGE=False, DoExport=False)
    # 1. design level: definitions agree, mechanisms refine the property, no overflow - the whole space
    ctx.tlc("StatsMC.tla", what="definitions agree + mechanisms refine property (exhaustive)",
            cfg_text=cfg(constants=consts, invariants=INVARIANTS, properties=["ClipShrinks"]),
            workers=16, require=ACTIONS, timeout=3000)
    # 1b. non-vacuity of MedRefines: a deviating loop test must violate it
    r1b = ctx.tlc("StatsMC.tla", what="self-test: deviating wmedian loop violates MedRefines",
                  cfg_text=cfg(constants=dict(consts, Kinds={"wm"}, MaxLen=2, MedVariantGE=True), invariants=["MedRefines"]),
                  workers=2, allow_violation=True, coverage=False)
    if "MedRefines" not in r1b.violated:
        raise MachineryError("self-test failed: MedRefines not violated by the deviating mechanism")
    # 2. export every case (spec -> code)
    r2 = ctx.tlc("StatsMC.tla", what="export cases",
                 cfg_text=cfg(constants=dict(consts, DoExport=True), next_="NextExport", constraints=["Export"]),
                 workers=1, coverage=False, timeout=3000)
    cases = r2.records.get("CASE", [])
    opts = (r2.records.get("OPTS") or [None])[0]
    if not cases or not opts:
        raise MachineryError("no cases / option tables exported")
    nkinds = {}
    for cse in cases:
        nkinds[cse["op"]] = nkinds.get(cse["op"], 0) + 1
    if set(nkinds) != {"wm", "cl", "ip", "cv"}:
        raise MachineryError("export incomplete: %s" % nkinds)
    jobs = []
    for n, cse in enumerate(cases):
        for op, c, ps in jobs_of(cse, opts, n % len(CONC)):
            jobs.append((len(jobs) + 1, op, c, ps, n % len(CONC)))
    recs = pmap(execute, jobs)
    for r in recs:
        ctx.count({"op": r["op"], "c": r["c"]}, n=len(r["runs"]))
    seen = set()
    for r in recs:
        last = r["runs"][-1]["o"]
        if r["op"] not in seen and last["err"] == "none" and (r["op"] != "clip" or len(last["steps"][-1]) < len(r["c"]["x"])):
            seen.add(r["op"])
            ctx.sample({"op": r["op"], "case": r["c"], "params": r["runs"][-1]["p"], "observed": r["runs"][-1]["o"]}, cap=8)
    rejected = set(judge(ctx, recs, "judge replayed cases (StatsTrace)"))
    # 3. larger seeded cases (code -> spec)
    nrand = 1500 if ctx.quick else 30000
    sj = seeded_jobs(random.Random(ctx.seed), nrand, opts)
    rrecs = pmap(execute, [(len(recs) + 1 + i, op, c, ps, (ctx.seed + i) % len(CONC)) for i, (op, c, ps) in enumerate(sj)])
    for r in rrecs:
        ctx.count({"op": r["op"], "c": r["c"]}, n=len(r["runs"]))
    judge(ctx, rrecs, "judge seeded larger cases (StatsTrace)")
    # 4. binding self-test: corrupted observations must be rejected, the untouched ones accepted
    selftest(ctx, [r for r in recs if r["id"] not in rejected])      # probe accepted records only (a broken tree must not break the self-test)
    ctx.rule = ("every (data, weights) pair with data of length %d..%d over %d lattice values and weights over %s (total <= %d) x "
                "calcerr x sdev x inputmean in {none, %s}; every N-by-2 input (N <= %d) with 1-d and N-by-2 weights; every clipping "
                "input of length <= %d over %s (weighted: length <= %d, weights %s) x nsig in %s x niter 0..%d (each iteration "
                "re-observed); every interpolation table of 2..%d nodes from %s with values from %s at %d query points (inside, at "
                "nodes, outside); every symmetric matrix up to %dx%d with diagonal from %s and off-diagonal in %d..%d - all exported "
                "from StatsMC.tla, concretised on %d dyadic lattices; plus %d seeded larger cases. A case is distinct by its abstract "
                "record (op, data) and counted once; evaluations count the calls made on it (option settings)." %
                (B["MinLen"], B["MaxLen"], len(B["Vals"]), sorted(B["Wts"]), B["MaxW"], opts["mus"], B["N2Max"], B["ClipMaxLen"],
                 sorted(B["ClipVals"]), B["ClipMaxLenW"], sorted(B["ClipWts"]), [opts["nsigs"][i - 1] for i in sorted(B["NSigIdx"])],
                 NITER, B["TabMax"], sorted(B["TabX"]), sorted(B["TabV"]), 4 * (max(B["TabX"]) - min(B["TabX"])) + 9,
                 B["CovMaxN"], B["CovMaxN"], sorted(B["CovDiag"]), -B["CovShift"], B["CovOffN"] - B["CovShift"], len(CONC), len(sj)))
    ctx.exhaustive = True
    ctx.note(bounds={k: sorted(v) if isinstance(v, set) else v for k, v in B.items()}, exported_cases=nkinds,
             records=len(recs), seeded_records=len(rrecs))
    ctx.assumptions = [
        "dyadic lattice: data (x+off)*2^k, weights w*2^j; expected values are exact rationals with denominator <= 2^20",
        "real-valued outputs are compared 'to rounding': 16 ulp (4 roundings x 4 ulp) of the operand scale, by snapping the observed "
        "float to the nearest rational with denominator <= 2^20 (vh/ratproj.py)",
        "sigma clipping: points exactly on the nsig*sigma boundary (incl. zero deviation) may be kept or dropped; when nothing "
        "survives a round the current subset (or the empty set) is accepted as the result",
        "weighted sigma_clip / get_stats error: either documented wmom convention accepted; wmom moments with inputmean: about the "
        "supplied or the weighted mean accepted",
        "inputmean given as an [ndim] array, boxcar_average and all-zero weights are outside the statement and not exercised",
    ]
    ctx.trusted_base = ctx.trusted_base + ["fractions.Fraction arithmetic and Fraction.limit_denominator in the float->lattice projection"]


def selftest(ctx, recs):
    import copy
    saved = ctx.traces
    picks = {}
    for r in recs:
        if r["op"] not in picks and all(u["o"]["err"] == "none" for u in r["runs"]):
            if r["op"] == "clip" and len(r["runs"][-1]["o"]["steps"][-1]) in (0, len(r["c"]["x"])):
                continue
            picks[r["op"]] = r
    probes, expect_reject = [], set()
    for n, (op, r) in enumerate(sorted(picks.items())):
        good = {"id": 2 * n + 1, "op": op, "c": r["c"], "runs": [{"p": u["p"], "o": u["o"]} for u in r["runs"]]}
        bad = copy.deepcopy(good)
        bad["id"] = 2 * n + 2
        o = bad["runs"][-1]["o"]
        if op == "wmom":
            o["mean"][0] = dict(o["mean"][0], n=o["mean"][0]["n"] + 1)
        elif op == "wmedian":
            o["val"] = dict(o["val"], n=o["val"]["n"] + 1)
        elif op == "clip":
            o["steps"][-1] = o["steps"][0]            # claims nothing was clipped
        elif op == "interp":
            o["vals"][0][0] = dict(o["vals"][0][0], k="off")
        elif op == "gstats":
            o["max"][0] = dict(o["max"][0], n=o["max"][0]["n"] + 1)
        elif op == "cov":
            o["back"][0][0] = dict(o["back"][0][0], n=o["back"][0][0]["n"] + 1)
        probes += [good, bad]
        expect_reject.add(bad["id"])
    if len(picks) != len(EXEC) and not ctx.violations:
        # (on a tree that breaks an operation every record of it may be rejected: its probe is then skipped)
        raise MachineryError("self-test: no clean record for some op: %s" % sorted(picks))
    rej = tracecheck.validate(ctx, "StatsTrace.tla", probes, what="self-test: corrupted records rejected", workers=1)
    ctx.traces = saved
    bad_accept = expect_reject - set(rej)
    good_reject = set(rej) - expect_reject
    if bad_accept or good_reject:
        raise MachineryError("binding self-test failed: corrupted accepted %s, untouched rejected %s" % (sorted(bad_accept), sorted(good_reject)))


def replay(ctx, case):
    rec = execute((1, case["op"], case["c"], case["ps"], case.get("conc", 0)))
    print("replay observed:", [(u["p"], u["o"], u["raw"]) for u in rec["runs"]])
    judge(ctx, [rec], "replay")
