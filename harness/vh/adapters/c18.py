"""C18 - weighted moments, sigma clipping, interpolation and cov/cor follow their definitions.

spec -> code : StatsMC.tla enumerates every case of the bounded space (data x weights,
               N-by-2 inputs, clipping inputs, interpolation tables, covariance matrices)
               and runs the three mechanisms (wmedian loop, clipping iteration, searchsorted
               index selection) as actions against the property-level definitions.  Every
               case also carries HOW its arrays are handed to the code: one REPRESENTATION
               per array argument (float64 / non-native byte order / float32 / signed and
               unsigned integers of 8..64 bits / python list / strided, reversed and read-only
               views) and the LATTICE the abstract integers are mapped to, value = (x + OFF) * unit
               - six small lattices, five with |OFF| from 10^8 to 2^40 (data whose offset is huge
               relative to their scatter: time stamps, coordinates) and six PLACEMENTS across the
               whole range of an 8 / 16 / 32-bit signed or unsigned integer type (sums, differences,
               products and squares of the elements exceed the element type).
               The (representation, lattice) tuples are the rows of a strength-2 orthogonal
               array spread over all cases by a hash, and a few data sets are run under every
               row (thorough tier: the full product).  Every enumerated case is concretised
               accordingly and executed against esutil.stat (all option settings).
               Round 3 adds two more fields that no expectation reads: `pr`, the PRINTING options of the call (entry point
               get_stats / print_stats, doprint, nsigma_print / nsigma, verbose, silent - one of the 48 combinations per
               case, a few data sets under all of them; stdout / stderr are captured and discarded: printing must not change
               a returned value), and SCALE (family "sc"): the case is a small pattern (x, w) plus a replication factor K and
               a layout (tiled / blocks / shuffled); the arrays handed to the code are the K replicas (1 .. 18000 elements in
               the quick tier, 2^24.. in the thorough tier) with the weights additionally in float16, and the result is judged
               on the pattern through the replication law Stats!SScaleLaw, which TLC checks on every pattern.
               Round 4 adds SCALE COVARIANCE of interpolation (every table is also exported rescaled: abscissae - nodes and query
               points - by 2^sx, table values by 2^sv, exponents -40..40 from two more factors of the design, floating-point
               representations; what comes back is divided by 2^sv and judged on the unscaled table through
               Stats!SInterpScaleLaw, which TLC checks on every table) and TICK lattices (family "tk": clipping inputs whose
               lattice unit is the spacing of the floating-point numbers at their offset - binary64 integers above 2^52,
               stamps of 2^30 s with 2^-22 s ticks, float32 values above 2^23 - judged by Stats!SClipInSuccG: the computed
               mean is a lattice point, the deviation is taken about it; the mechanism is run by TLC as TkStep / TkRefines).
code -> spec : what the real code returned - for sigma_clip the whole iteration, re-observed
               through the public call with niter = 0..k - is written as ndjson and judged by
               StatsTrace.tla (SFailing of Stats.tla); larger seeded cases go the same way.
Python never judges a result: it maps abstract <-> concrete, projects observed floats onto
lattice rationals / intervals (vh.ratproj, `lreal` below) and records.
"""
import contextlib
import copy
import io
import json
import math
import os
import random
import sys
import warnings
import zlib
from fractions import Fraction as Fr

import numpy as np

from .. import tracecheck
from ..core import MachineryError
from ..par import pmap
from ..ratproj import real, rat, need_den, RELTOL, OFF as R_OFF, NAN as R_NAN
from ..tlc import cfg

NEEDS_EXT = True          # `import esutil` needs the compiled sub-packages

# ---- lattices ---------------------------------------------------------------------------------------------
# data / table values at (k + off) * unit, table nodes and query points at (k + xoff) * xunit, matrix entries at m * cunit,
# weights at w * wunit.  The NAMES and their attributes (large offset, which integer representations hold them, largest datum
# admitted) are declared in StatsMC.tla (LatSeq); the numbers live here and are verified against the declared attributes
# (check_tables).
def _lat(unit, off, wunit, xunit=None, xoff=None, cunit=None, kmax=60, ckmax=25):
    unit = Fr(unit)
    return dict(unit=unit, off=off, wunit=Fr(wunit), xunit=Fr(xunit) if xunit is not None else unit, xoff=off if xoff is None else xoff,
                cunit=Fr(cunit) if cunit is not None else unit * unit, kmax=kmax, ckmax=ckmax)


LATNUM = {
    "unit": _lat(1, 0, 1), "half-3": _lat(Fr(1, 2), -3, Fr(1, 4)), "x4+2": _lat(4, 2, 8), "fine": _lat(Fr(1, 1024), 0, Fr(1, 8)),
    "x8-6": _lat(8, -6, 1), "w1024": _lat(1, 5, 1024),
    # large offsets: every value is still exactly representable, differences of data are exact, so the exact
    # expectations of Stats.tla (computed on the un-offset integers) are unchanged: value-type outputs are shifted
    # back by the projection, deviation-type outputs are shift invariant
    "big40": _lat(1, 2 ** 40, 1), "stamp1e9": _lat(1, 10 ** 9, Fr(1, 2)), "bigfrac33": _lat(Fr(1, 64), 2 ** 33 + 5, 1),
    "bigneg37": _lat(4, -(2 ** 37), 8), "big1e8": _lat(1, 10 ** 8 + 1, 2),
    # PLACEMENTS across the range of an integer type (data 0..6): signed centred (k-3)*unit ~ -max..max, unsigned k*unit ~ 0..max;
    # abscissae (nodes 0..6, half-lattice queries -2..8) (k-3)*xunit resp. (k+2)*xunit; matrix entries (-4..9) * cunit.
    # Sums, differences, products and squares of the elements exceed the element type; every number is exact in float32 too.
    "span-s8": _lat(42, -3, 1, 24, -3, 14, 6, 9), "span-u8": _lat(42, 0, 1, 24, 2, 28, 6, 9),
    "span-s16": _lat(10922, -3, 1, 6552, -3, 3640, 6, 9), "span-u16": _lat(10922, 0, 1, 6552, 2, 7281, 6, 9),
    "span-s32": _lat(5 * 2 ** 27, -3, 1, 3 * 2 ** 27, -3, 7 * 2 ** 25, 6, 9),
    "span-u32": _lat(5 * 2 ** 27, 0, 1, 3 * 2 ** 27, 2, 7 * 2 ** 26, 6, 9),
}
# TICK lattices (round 4; StatsMC!TickSeq): the lattice unit IS the spacing of the floating-point numbers at the offset, in
# binary64 (integers above 2^52; stamps of about 2^30 s with ticks of 2^-22 s) or in float32 (values above 2^23): data that
# agree to the last bit except for a few ticks.  Clipping cases only, judged by Stats!SClipInSuccG.
TICKNUM = {"tick-int53": _lat(1, 2 ** 52 + 64, 1), "tick-stamp": _lat(Fr(1, 2 ** 22), 2 ** 52 + 64, 1), "tick-f4": _lat(1, 2 ** 23 + 64, 1)}
TICKTOL = 32              # the computed mean of <= 64 such values is a lattice point within 32 ulp of the exact mean
CKMIN = -4                # smallest matrix entry used
WMAX = 32                 # largest total weight
BIGOFF = 10 ** 8
RELTOL4 = 16 * Fr(1, 2 ** 23)         # "to rounding" for float32 input: 16 ulp of float32
INT31 = 2 ** 31 - 1
IVL_KMAX = 256
DTYPE = {"f2": "<f2", "f8": "<f8", "f8be": ">f8", "f4": "<f4", "i8": "<i8", "i4be": ">i4", "u2": "<u2", "u8": "<u8",
         "i1": "|i1", "i2": "<i2", "i2be": ">i2", "i4": "<i4", "u1": "|u1", "u4be": ">u4"}
KIND = {"f2": "f2", "f8": "f8", "f8be": "f8", "strided": "f8", "reversed": "f8", "readonly": "f8", "f4": "f4", "list": "list",
        "i8": "int", "i4be": "int", "i1": "int", "i2": "int", "i2be": "int", "i4": "int",
        "u2": "uint", "u8": "uint", "u1": "uint", "u4be": "uint"}
INTREPS = sorted(r for r, k in KIND.items() if k in ("int", "uint"))
NITER = 4
LAYOUTS = ("tile", "block", "shuffle")
SCALE_NMAX = 2 ** 19      # largest array of a scale case on a lattice other than "unit" (patterns of <= 4 values, K <= 65537)

BOUNDS = {
    "quick": dict(MinLen=1, MaxLen=3, Vals={0, 1, 3, 4}, Wts={0, 1, 2, 8}, MaxW=32, MuNone=True,
                  N2Max=2, Vals2={0, 3}, Wts2={0, 1, 2},
                  ClipMaxLen=4, ClipMaxLenW=3, ClipVals={0, 1, 2, 3, 6}, ClipWts={1, 8}, NSigIdx={1, 2, 4}, ClipNiter=NITER,
                  TabX=set(range(0, 5)), TabV={0, 1, 4}, TabMax=4,
                  CovMaxN=2, CovDiag={1, 2, 4, 9}, CovOffN=6, CovShift=3, DefMaxW=12,
                  ScMaxLen=3, ScVals={0, 1, 4}, ScWts={0, 1, 8}, ScLawK=3, ScKExtra={1}, ScHuge=False),
    # (sized so that the whole tier - model, ~0.5 million replayed calls records, trace validation - stays within ~15 min)
    "thorough": dict(MinLen=1, MaxLen=4, Vals={0, 1, 3, 4}, Wts={0, 1, 2, 8}, MaxW=32, MuNone=True,
                     N2Max=3, Vals2={0, 3}, Wts2={0, 1, 2},
                     ClipMaxLen=5, ClipMaxLenW=3, ClipVals={0, 1, 2, 3, 6}, ClipWts={1, 2, 8}, NSigIdx={1, 2, 3, 4, 5, 6},
                     ClipNiter=NITER, TabX=set(range(0, 7)), TabV=set(range(0, 6)), TabMax=4,
                     CovMaxN=3, CovDiag={1, 2, 4, 9}, CovOffN=6, CovShift=3, DefMaxW=12,
                     ScMaxLen=3, ScVals={0, 1, 3, 4}, ScWts={0, 1, 2, 8}, ScLawK=3, ScKExtra={8191, 8192, 21845, 65536, 65537}, ScHuge=True),
}
INVARIANTS = ["TkRefines", "InterpScaleLaw", "ScaleExpsOK", "DefsAgree", "MomentsSane", "MedSafe", "MedRefines", "ClipRefines", "ClipNonEmpty", "ClipStopsOK",
              "ClipStatsDefined", "InterpRefines", "CovSane", "DesignCovers", "RepAdmissible", "ScaleLaw", "PrintCovers"]
# quantify over SUBSET x SUBSET of the positions in every clipping state: checked in a run of their own on a small scope
CLIP_THEOREMS = ["ClipPredsAgree", "ClipTolSound"]
CLIP_THEOREM_BOUNDS = {"quick": dict(ClipMaxLen=3, ClipMaxLenW=3, ClipVals={0, 1, 3, 6}, ClipWts={1, 8}, NSigIdx={1, 2, 4}),
                       "thorough": dict(ClipMaxLen=4, ClipMaxLenW=3, ClipVals={0, 1, 2, 3, 6}, ClipWts={1, 8}, NSigIdx={1, 2, 4})}
ACTIONS = ["ChooseX1", "ChooseW1", "ChooseMu", "MedStart", "MedStep", "MedDone", "ChooseX2", "ChooseW2",
           "ChooseClipX", "ChooseClipW", "ClipStep", "ClipFinish", "ChooseNodes", "ChooseTabV", "ChooseCovDiag", "ChooseCovOff",
           "ChooseRpWm", "ChooseRpCl", "ChooseRpIp", "ChooseRpCv", "ChooseRpPrWm", "ChooseRpPrCl", "ChooseScX", "ChooseScW", "ChooseScRp",
           "ChooseTkX", "ChooseTkW", "TkStep", "TkFinish"]


def _su():
    import esutil.stat.util as su
    return su


# ---- the declared tables (StatsMC.tla) against the numbers ---------------------------------------------
def holds(rep, vals):
    """the integer representation holds every value exactly"""
    info = np.iinfo(np.dtype(DTYPE[rep]))
    return all(Fr(v).denominator == 1 and info.min <= v <= info.max for v in vals)


def lat_attrs(name):
    """what StatsMC.tla has to declare for the lattice, computed from the numbers"""
    l = LATNUM[name]
    km, ck = l["kmax"], l["ckmax"]
    data = [(k + l["off"]) * l["unit"] for k in (0, km)]
    nodes = [(k + l["xoff"]) * l["xunit"] for k in (0, km)]
    qs = [(Fr(k, 2) + l["xoff"]) * l["xunit"] for k in (-4, -3, 2 * km + 3, 2 * km + 4)]         # half-lattice, -2 .. kmax + 2
    wts = [0, l["wunit"], WMAX * l["wunit"]]
    unsigned = {r for r in INTREPS if KIND[r] == "uint"}
    return dict(big=abs(l["off"]) >= BIGOFF, kmax=km, ckmax=ck,
                fit=sorted(r for r in INTREPS if holds(r, data)), xfit=sorted(r for r in INTREPS if holds(r, nodes)),
                qfit=sorted(r for r in INTREPS if holds(r, qs)), wfit=sorted(r for r in INTREPS if holds(r, wts)),
                cfit=sorted(r for r in INTREPS if holds(r, [l["cunit"], ck * l["cunit"]] + ([] if r in unsigned else [CKMIN * l["cunit"]]))))


def check_tables(opts):
    """the attributes StatsMC.tla declares for each lattice must hold for the numbers used here"""
    names = [l["name"] for l in opts["lats"]]
    if sorted(names) != sorted(LATNUM) or sorted(opts["screps"]) != sorted(KIND) or sorted(opts["reps"] + ["f2"]) != sorted(KIND):
        raise MachineryError("lattice / representation names of StatsMC.tla and the adapter differ")
    if sorted(opts["lays"]) != sorted(LAYOUTS) or len(opts["prs"]) != 48:
        raise MachineryError("layout names / printing options of StatsMC.tla and the adapter differ")
    if sorted(t["name"] for t in opts["ticks"]) != sorted(TICKNUM) or Fr(*opts["ticktol"]) != TICKTOL:
        raise MachineryError("tick lattices of StatsMC.tla and the adapter differ")
    for t in opts["ticks"]:
        num, f4 = TICKNUM[t["name"]], t["name"] == "tick-f4"
        if set(t["reps"]) - set(KIND) or (f4 and set(t["reps"]) != {"f4"}) or (not f4 and "f4" in t["reps"]):
            raise MachineryError("tick lattice %s: representations" % t["name"])
        if any(KIND[r] in ("int", "uint") for r in t["reps"]) and num["unit"] != 1:
            raise MachineryError("tick lattice %s: integer representation on a fractional lattice" % t["name"])
        for k in range(-TICKTOL - 2, num["kmax"] + TICKTOL + 3):
            v = (k + num["off"]) * num["unit"]
            fv = np.float32(float(v)) if f4 else np.float64(float(v))
            if Fr(float(fv)) != v or Fr(float(np.spacing(fv))) != num["unit"]:
                raise MachineryError("tick lattice %s: %s is not a floating-point number with spacing %s" % (t["name"], v, num["unit"]))
        if (RELTOL4 if f4 else RELTOL) * (num["off"] + num["kmax"]) > TICKTOL:
            raise MachineryError("tick lattice %s: tolerance below 16 ulp" % t["name"])
    tolbig, tolf4 = Fr(*opts["tolbig"]), Fr(*opts["tolf4"])
    for l in opts["lats"]:
        num = LATNUM[l["name"]]
        want = lat_attrs(l["name"])
        got = {k: (sorted(l[k]) if isinstance(want[k], list) else (bool(l[k]) if isinstance(want[k], bool) else l[k])) for k in want}
        if got != want:
            raise MachineryError("lattice %s: StatsMC.tla declares %s, the numbers give %s" % (l["name"], got, want))
        # the tolerance the specification grants the clipping test covers 16 ulp of the operand scale
        need = (RELTOL if want["big"] else RELTOL4) * (abs(num["off"]) + num["kmax"] + 4)
        if need > (tolbig if want["big"] else tolf4):
            raise MachineryError("lattice %s: tolerance of StatsMC.tla below 16 ulp of the scale (%s)" % (l["name"], need))
        # every lattice value (half-lattice points included) is exactly representable in binary64 - and in float32
        # on the lattices float32 input is admitted on
        vals = ([(v + num["off"]) * num["unit"] for v in (0, num["kmax"])] +
                [(v + num["xoff"]) * num["xunit"] for v in (-2, num["kmax"] + 2, Fr(1, 2))] +
                [m * num["cunit"] for m in (CKMIN, num["ckmax"])] + [WMAX * num["wunit"]])
        # float16 holds every weight; every partial sum of a scale case (<= 2^17 elements) is exact in binary64
        for wv in range(WMAX + 1):
            if Fr(float(np.float16(float(wv * num["wunit"])))) != wv * num["wunit"]:
                raise MachineryError("lattice %s: weight %d not representable in float16" % (l["name"], wv))
        # (products w * x are multiples of the power of two in unit * wunit: the partial sums stay below 2^53 of them)
        q = num["unit"] * num["wunit"]
        pow2 = Fr(q.numerator & -q.numerator, q.denominator)
        if not want["big"] and max(abs(v) for v in vals[:2]) * WMAX * num["wunit"] * SCALE_NMAX / pow2 >= 2 ** 53:
            raise MachineryError("lattice %s: sums of a scale case not exact" % l["name"])
        for f in vals:
            if Fr(float(f)) != f or (not want["big"] and Fr(float(np.float32(float(f)))) != f):
                raise MachineryError("lattice %s: %s not representable" % (l["name"], f))


def lat(name, abscissa=False):
    """the placement of data / values (default) or of table nodes and query points"""
    l = LATNUM[name] if name in LATNUM else TICKNUM[name]
    return dict(unit=l["xunit"] if abscissa else l["unit"], off=l["xoff"] if abscissa else l["off"], wunit=l["wunit"],
                cunit=l["cunit"], big=abs(l["off"]) >= BIGOFF, kmax=l["kmax"], ckmax=l["ckmax"])


# ---- abstract <-> concrete -----------------------------------------------------------------
JUNK = 7777


def replicas(c):
    """how the pattern of a case is replicated: {} (as it is) or K / layout / shuffle key (the same for data and weights)"""
    K = c.get("K", 1)
    if K == 1:
        return {}
    if c["lay"] not in LAYOUTS:
        raise MachineryError("unknown layout %r" % (c["lay"],))
    n = len(c["x"][0]) if isinstance(c["x"][0], list) else len(c["x"])
    if n * K > SCALE_NMAX and c["lat"] != "unit":
        raise MachineryError("scale case larger than the lattice was verified for")
    return {"K": K, "lay": c["lay"], "key": zlib.crc32(json.dumps([c["x"], c["w"], K]).encode())}


def expand(a, K, lay, key):
    """K replicas of the 1-d pattern a (ndarray: element type and byte order kept; or list)"""
    if isinstance(a, list):
        if lay == "tile":
            return a * K
        if lay == "block":
            return [v for v in a for _ in range(K)]
        return [a[i] for i in expand(np.arange(len(a)), K, lay, key)]
    if lay == "block":
        return np.repeat(a, K)
    big = np.tile(a, K)
    if lay == "shuffle":
        big = big[np.random.RandomState(key).permutation(big.size)]
    return big


def mk(vals, rep, K=1, lay="tile", key=0):
    """exact values (Fractions; a flat list = 1-d, a list of rows = 2-d) -> the object handed to the code
    (K > 1: K replicas of the 1-d pattern in the given layout)"""
    two = bool(vals) and isinstance(vals[0], (list, tuple))
    if two and K > 1:
        raise MachineryError("replication of 2-d patterns not supported")
    flat_ = [Fr(v) for row in vals for v in row] if two else [Fr(v) for v in vals]
    for v in flat_:
        if Fr(float(v)) != v:
            raise MachineryError("value %s not representable in binary64" % (v,))
    if rep == "list":
        conv = int if all(v.denominator == 1 for v in flat_) else float
        return [[conv(v) for v in row] for row in vals] if two else expand([conv(v) for v in vals], K, lay, key)
    dt = np.dtype(DTYPE.get(rep, "<f8"))
    if dt.kind in "iu":
        if any(v.denominator != 1 for v in flat_):
            raise MachineryError("non-integer value for representation %s" % rep)
        a = np.array([[int(v) for v in row] for row in vals] if two else [int(v) for v in vals], dtype="O").astype(dt)
    else:
        a = np.array([[float(v) for v in row] for row in vals] if two else [float(v) for v in vals], dtype=dt)
    back = [Fr(int(v)) if dt.kind in "iu" else Fr(float(v)) for v in a.ravel()]
    if back != flat_:
        raise MachineryError("representation %s cannot hold the values exactly: %s" % (rep, flat_[:4]))
    if K > 1:
        a = expand(a, K, lay, key)
        if a.dtype != dt or a.size != K * len(flat_):
            raise MachineryError("replication changed the representation")
    if rep == "strided":
        base = np.full(tuple(2 * n + 1 for n in a.shape), float(JUNK), dtype=dt)
        view = base[tuple(slice(1, None, 2) for _ in a.shape)]
        view[...] = a
        return view
    if rep == "reversed":
        rv = tuple(slice(None, None, -1) for _ in a.shape)
        return a[rv].copy()[rv]
    if rep == "readonly":
        a.setflags(write=False)
    return a


def cdata(col, L, rep, **big):
    for v in col:
        if not 0 <= v <= L["kmax"]:
            raise MachineryError("abstract datum %s outside the range the lattice was verified for" % v)
    return mk([(Fr(v) + L["off"]) * L["unit"] for v in col], rep, **big)


def xcols(c, L):
    """the data columns of a wmom / get_stats case on its lattice"""
    for v in flat(c["x"]):
        if not 0 <= v <= L["kmax"]:
            raise MachineryError("abstract datum %s outside the range the lattice was verified for" % v)
    return cmat(c["x"], lambda col: [(Fr(v) + L["off"]) * L["unit"] for v in col], c["rep"]["x"], **replicas(c))


def cmat(cols, fn, rep, **big):
    """columns -> 1-d (one column) or N-by-d"""
    if len(cols) == 1:
        return mk(fn(cols[0]), rep, **big)
    if big:
        raise MachineryError("replication of N-by-d patterns not supported")
    cc = [fn(c) for c in cols]
    return mk([[cc[j][i] for j in range(len(cc))] for i in range(len(cc[0]))], rep)


def vec(val, d, bcast=False):
    a = np.atleast_1d(np.asarray(val, dtype=float)).ravel()
    if bcast and a.size == 1 and d > 1:
        a = np.repeat(a, d)
    return [float(v) for v in a]


class Frame:
    """frame condition: a non-in-place call must leave its arguments unchanged"""
    def __init__(self, *args):
        self.args = [a for a in args if a is not None]
        self.before = [self.snap(a) for a in self.args]

    @staticmethod
    def snap(a):
        return (str(a.dtype), a.shape, a.tobytes()) if isinstance(a, np.ndarray) else copy.deepcopy(a)

    def problems(self):
        return [] if all(self.snap(a) == b for a, b in zip(self.args, self.before)) else ["argument_modified"]


def call(fn, *a, **kw):
    with warnings.catch_warnings():
        warnings.simplefilter("ignore")
        with np.errstate(all="ignore"):
            return fn(*a, **kw)


@contextlib.contextmanager
def discard_output(fd2):
    """what the call prints is not observed: python-level stdout is captured and dropped; with fd2 also file descriptor 2
    (esutil binds sys.stderr at import time: the "everything clipped" message of sigma_clip(silent=False))"""
    saved = None
    if fd2:
        sys.stderr.flush()
        saved = os.dup(2)
        dn = os.open(os.devnull, os.O_WRONLY)
        os.dup2(dn, 2)
        os.close(dn)
    try:
        with contextlib.redirect_stdout(io.StringIO()):
            yield
    finally:
        if saved is not None:
            sys.stderr.flush()
            os.dup2(saved, 2)
            os.close(saved)


def nsp_of(pr):
    return pr["nsp"][0] / pr["nsp"][1]


# ---- projection of observed floats ------------------------------------------------------------------
def lreal(obs, S, D, cap, unit, off=0, square=False, reltol=RELTOL, K=1):
    """projection of one observed float on a LARGE-OFFSET lattice or for float32 input (as vh/adapters/c14.py big_real).

    Tolerance "to rounding", relative to the operand scale S = max |operand| in lattice units, OFFSET INCLUDED:
      value-type outputs (mean, min, max, median, interpolated value): |obs - exact| <= delta = 16 ulp * S;
      deviation-type outputs (std, err): every algorithm has to form differences x_i - m of operands of magnitude S, each
      determined only to ~ulp(S); the deviation is a root mean square of such differences and is granted the same ABSOLUTE
      tolerance delta on the deviation itself, recorded through its square: [(s - delta)^2, (s + delta)^2].  A two-pass
      deviation stays within ulp(S) of the exact value; the raw-moment formula E[x^2] - E[x]^2 carries an absolute error
      ~ S * ulp(S) in the VARIANCE (2^28 lattice units^2 at S = 2^40): far outside.
    Recording: if the tolerance interval is narrower than half the gap 1/D^2 between rationals of denominator <= D (D = the
    denominator bound of the quantity) at most one candidate lies inside and the nearest one is recorded ("rat"); otherwise
    the interval itself, rounded outward to multiples of 1/K and clamped to the range `cap` any expectation of the case can
    take ("ivl", K a power of two chosen so that TLC's 32-bit integers suffice) - Stats!SObsEqI then checks that the exact
    expectation lies inside.
    K > 1 (with square): an ERROR-type output of K replicas of a pattern, recorded in units of 1/sqrt(K) - the recorded
    quantity is K * obs^2, what Stats!SScaleLaw equates with the pattern's squared error; obs * sqrt(K) is a deviation-like
    quantity of the pattern and is granted the absolute tolerance delta (sqrt(K) bracketed to 2^-60)."""
    try:
        f = float(obs)
    except (TypeError, ValueError):
        return dict(R_OFF)
    if math.isnan(f) or math.isinf(f):
        return dict(R_NAN)
    delta = reltol * max(Fr(S), 1)
    q = Fr(f) / unit
    if square:
        if q < 0:
            return dict(R_OFF)
        if K == 1:
            a, lo, hi = q * q, max(q - delta, 0) ** 2, (q + delta) ** 2
        else:
            r0 = Fr(math.isqrt(K << 120), 2 ** 60)
            a, lo, hi = q * q * K, max(q * r0 - delta, 0) ** 2, (q * (r0 + Fr(1, 2 ** 60)) + delta) ** 2
    else:
        a = q - off
        lo, hi = a - delta, a + delta
    D = max(int(D), 1)
    if 2 * (hi - lo) < Fr(1, D * D):
        r = a.limit_denominator(D)
        if lo <= r <= hi and abs(r.numerator) <= INT31:
            return {"k": "rat", "n": r.numerator, "d": r.denominator}
        return dict(R_OFF)
    bound = int(math.ceil(cap)) + 1
    K = IVL_KMAX
    while K >= 1 and (bound + 2) * K * D >= INT31:
        K //= 2
    if K < 1:
        raise MachineryError("interval observation does not fit 32-bit integers (cap %s, denominator bound %s)" % (cap, D))
    if lo > bound or hi < -bound:
        return dict(R_OFF)
    return {"k": "ivl", "n": max(math.floor(lo * K), -bound * K), "d": min(math.ceil(hi * K), bound * K), "K": K}


class Proj:
    """projection of the outputs of one call: lattice, precision of the input, operand scale and expectation bounds"""
    def __init__(self, L, f4, xs, mu=None, K=1):
        """xs: every abstract datum of the call; mu: supplied mean (Fraction) or None; K: the arrays are K replicas of xs"""
        self.L, self.f4, self.K = L, f4, K
        pts = [Fr(v) for v in xs] + ([Fr(mu)] if mu is not None else [])
        self.S = max([abs(v + L["off"]) for v in pts] + [1])
        self.cap1 = max(abs(v) for v in pts) + 1
        self.cap2 = max([(max(xs) - min(xs)) ** 2] + ([max((Fr(v) - mu) ** 2 for v in xs)] if mu is not None else [])) + 1
        self.wide = L["big"] or f4 or K > 1
        # sums over N = K * n elements: pairwise / blocked summation adds at most ~log2(N) roundings to the chain
        self.reltol = (RELTOL4 if f4 else RELTOL) * (1 if K == 1 else 2 + (K * len(xs)).bit_length())

    def lin(self, v, D):                   # value-type output (lattice units, offset removed)
        if self.wide:
            return lreal(v, self.S, D, self.cap1, self.L["unit"], off=self.L["off"], reltol=self.reltol)
        return real(v, self.S, div=self.L["unit"], off=self.L["off"])

    def dev2(self, v, D):                  # deviation-type output, recorded squared
        if self.wide:
            return lreal(v, self.S, D, self.cap2, self.L["unit"], square=True, reltol=self.reltol)
        return real(v, 8 * self.S * self.S, div=self.L["unit"] ** 2, square=True)

    def edev2(self, v, D):                 # error-type output, recorded squared (in units of 1/K for K replicas)
        if self.K == 1:
            return self.dev2(v, D)
        return lreal(v, self.S, D, self.cap2, self.L["unit"], square=True, reltol=self.reltol, K=self.K)

    def inv2(self, v):                     # 1/sqrt(sum w): weights only (always binary64: the code converts them)
        return real(v, 1, mul=self.L["wunit"] * self.K, square=True)


def flat(cols):
    return [v for c in cols for v in c]


# ---- one executor per op: (abstract case, list of parameter records) -> runs -----------------------------
def ex_wmom(c, ps):
    su = _su()
    L = lat(c["lat"])
    d = len(c["x"])
    x = xcols(c, L)
    w = cmat(c["w"], lambda col: [Fr(v) * L["wunit"] for v in col], c["rep"]["w"], **replicas(c))
    W = max(sum(wc) for wc in c["w"])
    need_den(W ** 4, "wmom total weight")
    fr = Frame(x, w)
    runs, problems = [], []
    for p in ps:
        kw = dict(calcerr=bool(p["calcerr"]), sdev=bool(p["sdev"]))
        mu = Fr(*p["mu"]) if p["hasmu"] else None
        if p["hasmu"]:
            kw["inputmean"] = float((mu + L["off"]) * L["unit"])
        P = Proj(L, c["rep"]["x"] == "f4", flat(c["x"]), mu, K=c.get("K", 1))
        try:
            res = call(su.wmom, x, w, **kw)
            mean = vec(res[0], d, bcast=bool(p["hasmu"]))
            err = vec(res[1], d)
            sd = vec(res[2], d) if p["sdev"] else []
            o = {"err": "none",
                 "mean": [P.lin(v, max(W, 2)) for v in mean],
                 "err2": [P.edev2(v, max(W ** 4, 4 * W * W)) if p["calcerr"] else P.inv2(v) for v in err],
                 "var": [P.dev2(v, max(W * W, 4 * W)) for v in sd]}
            raw = {"mean": mean, "err": err, "sdev": sd}
        except Exception as e:  # noqa
            o = {"err": type(e).__name__, "mean": [], "err2": [], "var": []}
            raw = {"exc": repr(e)}
        runs.append({"p": p, "o": o, "raw": raw})
        # sdev=False returns the first two outputs of sdev=True (relation between two outputs: compared directly)
        if p["sdev"] and o["err"] == "none":
            try:
                r2 = call(su.wmom, x, w, **dict(kw, sdev=False))
                if len(r2) != 2 or not all(np.array_equal(np.asarray(a), np.asarray(b)) for a, b in zip(r2, res[:2])):
                    problems.append("sdev_variants_differ")
            except Exception:  # noqa
                problems.append("sdev_variants_differ")
    return runs, problems + fr.problems()


def ex_wmedian(c, ps):
    su = _su()
    L = lat(c["lat"])
    big = replicas(c)
    x = cdata(c["x"], L, c["rep"]["x"], **big)
    w = mk([Fr(v) * L["wunit"] for v in c["w"]], c["rep"]["w"], **big)
    fr = Frame(x, w)
    P = Proj(L, c["rep"]["x"] == "f4", c["x"])          # (a datum of the array: no summation involved)
    try:
        v = call(su.wmedian, x, w)
        o = {"err": "none", "val": P.lin(v, 1)}
        raw = {"val": float(v)}
    except Exception as e:  # noqa
        o = {"err": type(e).__name__, "val": real(float("nan"), 1)}
        raw = {"exc": repr(e)}
    return [{"p": ps[0], "o": o, "raw": raw}], fr.problems()


def _clip_out(res, c, P):
    n = len(c["x"])
    W = sum(c["w"]) if c["hasw"] else n
    return {"mean": P.lin(res[0], max(W, 2)),
            "var": P.dev2(res[1], max(W * W, 2)),
            "err2": P.dev2(res[2], max(W ** 4 if c["hasw"] else n ** 3, 2)),
            "err2i": P.inv2(res[2])}


def check_tol(c, x, L):
    """the clipping tolerance the exported case carries must cover 16 ulp of this concretisation's operand scale"""
    f4 = c["rep"]["x"] == "f4"
    if c.get("grid") and (c["lat"] not in TICKNUM or Fr(*c["tol"]) != TICKTOL or (c["rep"]["x"] == "f4") != (c["lat"] == "tick-f4")):
        raise MachineryError("tick case on a lattice that is not a tick lattice")
    if c["lat"] in TICKNUM and not c.get("grid"):
        raise MachineryError("tick lattice without the grid judgement")
    if L["big"] or f4:
        S = max(abs(v + L["off"]) for v in x)
        if (RELTOL4 if f4 else RELTOL) * S > Fr(*c["tol"]):
            raise MachineryError("clipping tolerance %s of the case below 16 ulp of its scale" % (c["tol"],))


def ex_clip(c, ps):
    """re-observes the iteration: one public call per iteration count 0..max(niter)"""
    su = _su()
    L = lat(c["lat"])
    check_tol(c, c["x"], L)
    x = cdata(c["x"], L, c["rep"]["x"])
    w = mk([Fr(v) * L["wunit"] for v in c["w"]], c["rep"]["w"]) if c["hasw"] else None
    if c["hasw"]:
        need_den(sum(c["w"]) ** 4, "sigma_clip total weight")
    else:
        need_den(len(c["x"]) ** 3, "sigma_clip length")
    nsig = c["nsn"] / c["nsd"]
    fr = Frame(x, w)
    P = Proj(L, c["rep"]["x"] == "f4", c["x"])
    top = max(p["niter"] for p in ps)
    steps, outs, err = [], [], None
    pr = c["pr"]
    noise = dict(verbose=bool(pr["verbose"]), silent=bool(pr["silent"]))      # what is printed is discarded
    extra_ok = True
    for it in range(top + 1):
        try:
            extra = {}
            with discard_output(not pr["silent"]):
                res = call(su.sigma_clip, x, weights=w, niter=it, nsig=nsig, get_err=True, get_indices=True, extra=extra, **noise)
            steps.append([int(i) + 1 for i in res[3]])
            outs.append(res)
            # the `extra` dictionary receives the indices too (relation between two outputs: compared directly)
            extra_ok = extra_ok and list(extra) == ["indices"] and np.array_equal(np.asarray(extra["indices"]), np.asarray(res[3]))
        except Exception as e:  # noqa
            err = e
            break
    runs = []
    for p in ps:
        if err is not None:
            nan = real(float("nan"), 1)
            runs.append({"p": p, "o": {"err": type(err).__name__, "steps": [], "mean": nan, "var": nan, "err2": nan, "err2i": nan},
                         "raw": {"exc": repr(err)}})
            continue
        res = outs[p["niter"]]
        o = dict({"err": "none", "steps": steps[:p["niter"] + 1]}, **_clip_out(res, c, P))
        runs.append({"p": p, "o": o, "raw": {"mean": float(res[0]), "std": float(res[1]), "err": float(res[2])}})
    # the optional outputs are positional: the same values must appear with every flag setting
    # (a relation between two outputs of the implementation - compared directly)
    flags_ok = True
    if err is None:
        full = outs[top]
        for ge, gi in ((False, False), (True, False), (False, True)):
            with discard_output(not pr["silent"]):
                r = call(su.sigma_clip, x, weights=w, niter=top, nsig=nsig, get_err=ge, get_indices=gi, **noise)
            exp = [full[0], full[1]] + ([full[2]] if ge else []) + ([full[3]] if gi else [])
            if len(r) != len(exp) or not all(np.array_equal(np.asarray(a), np.asarray(b)) for a, b in zip(r, exp)):
                flags_ok = False
    return runs, fr.problems() + ([] if flags_ok else ["flag_variants_differ"]) + ([] if extra_ok else ["extra_indices_differ"])


def ex_interp(c, ps):
    su = _su()
    L, LV = lat(c["lat"], abscissa=True), lat(c["vlat"])
    us_abs = [Fr(*u) for u in c["us"]]
    for u in us_abs:
        if not -2 <= u <= L["kmax"] + 2:
            raise MachineryError("query point outside the range the lattice was verified for")
    # SCALE COVARIANCE (round 4): abscissae rescaled by 2^sx, table values by 2^sv (exact: powers of two); what comes back is
    # divided by 2^sv and judged on the unscaled table (Stats!SInterpScaleLaw).  Every operation of a scale-covariant
    # evaluation commutes exactly with a power of two (no under- / overflow: |exponents| <= 40, 20 with float32), so the
    # tolerance "to rounding" of the unscaled case applies unchanged.
    sx, sv = int(c.get("sx", 0)), int(c.get("sv", 0))
    if (sx or sv) and (any(KIND[r] in ("int", "uint") for r in c["rep"].values()) or max(abs(sx), abs(sv)) > (20 if "f4" in c["rep"].values() else 40)):
        raise MachineryError("rescaled interpolation case with an integer representation / exponent out of range")
    fx, fv = Fr(2) ** sx, Fr(2) ** sv
    if max(c["xs"]) > L["kmax"] or max(c["vs"]) > LV["kmax"] or min(c["xs"] + c["vs"]) < 0:
        raise MachineryError("abstract datum outside the range the lattice was verified for")
    xs = mk([(Fr(v) + L["off"]) * L["unit"] * fx for v in c["xs"]], c["rep"]["x"])
    vs = mk([(Fr(v) + LV["off"]) * LV["unit"] * fv for v in c["vs"]], c["rep"]["v"])
    us = mk([(u + L["off"]) * L["unit"] * fx for u in us_abs], c["rep"]["u"])
    fr = Frame(xs, vs, us)
    dxs = [b - a for a, b in zip(c["xs"], c["xs"][1:])]
    span = max(us_abs + [Fr(c["xs"][-1])]) - min(us_abs + [Fr(c["xs"][0])])
    f4 = "f4" in c["rep"].values()
    wide = L["big"] or LV["big"] or f4
    if wide:
        # perturbing an operand x or u by one ulp of ITS scale moves the result by slope * ulp: the operand scale of the
        # result (lattice units of v) is  max|v| + max|slope| * (max|x|, |u| + span), offsets included
        slope = max(abs(Fr(b - a, dx)) for a, b, dx in zip(c["vs"], c["vs"][1:], dxs))
        sx = max(abs(v + L["off"]) for v in us_abs + [Fr(v) for v in c["xs"]])
        S = max(abs(v + LV["off"]) for v in c["vs"]) + slope * (sx + span) + 1
        cap = max(abs(v) for v in c["vs"]) + slope * (span + 1) + 1
        D = 2 * max(dxs)

        def proj(v):
            return lreal(v, S, D, cap, LV["unit"] * fv, off=LV["off"], reltol=RELTOL4 if f4 else RELTOL)
    else:
        sc = max([abs(v + LV["off"]) for v in c["vs"]] + [1]) * (1 + 2 * span / min(dxs))

        def proj(v):
            return real(v, sc, div=LV["unit"] * fv, off=LV["off"])
    try:
        vec_out = [float(v) for v in call(su.interplin, vs, xs, us)]
        one_out = [float(np.atleast_1d(call(su.interplin, vs, xs, us[i]))[0]) for i in range(len(us))]
        o = {"err": "none", "vals": [[proj(v) for v in vec_out], [proj(v) for v in one_out]]}
        raw = {"vec": vec_out, "one": one_out}
    except Exception as e:  # noqa
        o = {"err": type(e).__name__, "vals": []}
        raw = {"exc": repr(e)}
    return [{"p": ps[0], "o": o, "raw": raw}], fr.problems()


def ex_gstats(c, ps):
    su = _su()
    L = lat(c["lat"])
    d = len(c["x"])
    x = xcols(c, L)
    w = cmat(c["w"], lambda col: [Fr(v) * L["wunit"] for v in col], c["rep"]["w"], **replicas(c))
    fr = Frame(x, w)
    P = Proj(L, c["rep"]["x"] == "f4", flat(c["x"]), K=c.get("K", 1))
    n = len(c["x"][0])
    pr = c["pr"]
    fn = su.print_stats if pr["entry"] == "print_stats" else su.get_stats
    nsp = nsp_of(pr)
    W = max(sum(wc) for wc in c["w"])
    runs = []
    for p in ps:
        kw = {}
        if p["mode"] == "weights":
            kw["weights"] = w
            if not p["calcerr"]:
                kw["calcerr"] = False
        elif p["mode"] == "clip":
            check_tol(c, c["x"][0], L)
            kw.update(nsig=c["nsn"] / c["nsd"], niter=p["niter"], silent=bool(pr["silent"]))
            if pr["verbose"]:
                kw["verbose"] = True
            if c["hasw"]:
                kw["weights"] = w
        # the printing options (default values are not passed)
        if pr["entry"] == "print_stats":
            if nsp != 1:
                kw["nsigma"] = nsp
        else:
            if pr["doprint"]:
                kw["doprint"] = True
            if nsp != 1:
                kw["nsigma_print"] = nsp
        plain = p["mode"] == "plain" or (p["mode"] == "clip" and not c["hasw"])
        T = n if plain else W                  # total weight of the moments
        none = {"mean": [], "var": [], "err2": [], "err2i": [], "min": [], "max": []}
        try:
            with discard_output(p["mode"] == "clip" and not pr["silent"]):
                res = call(fn, x, **kw)
            if res is None:
                o = dict(none, err="none", ret="none")
                raw = {"returned": None}
            else:
                f = {key: vec(res[key], d) for key in ("mean", "std", "err", "min", "max")}
                o = {"err": "none", "ret": "dict",
                     "mean": [P.lin(v, max(T, 2)) for v in f["mean"]],
                     "var": [P.dev2(v, max(T * T, 2)) for v in f["std"]],
                     "err2": [P.edev2(v, max(T ** 3 if plain else T ** 4, 2)) for v in f["err"]],
                     "err2i": [P.inv2(v) for v in f["err"]],
                     "min": [P.lin(v, 1) for v in f["min"]],
                     "max": [P.lin(v, 1) for v in f["max"]]}
                raw = f
        except Exception as e:  # noqa
            o = dict(none, err=type(e).__name__, ret="none")
            raw = {"exc": repr(e)}
        runs.append({"p": p, "o": o, "raw": raw})
    return runs, fr.problems()


def ex_cov(c, ps):
    su = _su()
    LC = lat(c["lat"])
    u2 = LC["cunit"]
    if not all(CKMIN <= v <= LC["ckmax"] for row in c["m"] for v in row):
        raise MachineryError("matrix entry outside the range the lattice was verified for")
    rep = c["rep"]["m"]
    m = mk([[Fr(v) * u2 for v in row] for row in c["m"]], rep)
    fr = Frame(m)
    big = max(abs(v) for row in c["m"] for v in row)
    dmax = max(c["m"][i][i] for i in range(len(c["m"])))
    f4 = rep == "f4"

    def pcor(v):
        if f4:
            # (|cor| <= max|m| as the diagonal is >= 1 lattice unit; a matrix need not be positive definite)
            return lreal(abs(v), big, dmax * dmax, big * big, Fr(1), square=True, reltol=RELTOL4)
        return real(abs(v), max(1.0, v * v if v == v else 1.0), square=True)

    def pback(v):
        if f4:
            return lreal(v, big, 1, big, u2, reltol=RELTOL4)
        return real(v, big, div=u2)
    try:
        cor = call(su.cov2cor, m)
        back = call(su.cor2cov, cor, np.sqrt(np.diag(np.asarray(m)).astype("f8")))
        corl = [[float(cor[i][j]) for j in range(cor.shape[1])] for i in range(cor.shape[0])]
        o = {"err": "none",
             "cor": [[dict(pcor(v), s=(v > 0) - (v < 0)) for v in row] for row in corl],
             "back": [[pback(back[i][j]) for j in range(back.shape[1])] for i in range(back.shape[0])]}
        raw = {"cor": corl, "back": np.asarray(back, dtype=float).tolist()}
    except Exception as e:  # noqa
        o = {"err": type(e).__name__, "cor": [], "back": []}
        raw = {"exc": repr(e)}
    return [{"p": ps[0], "o": o, "raw": raw}], fr.problems()


EXEC = {"wmom": ex_wmom, "wmedian": ex_wmedian, "clip": ex_clip, "interp": ex_interp, "gstats": ex_gstats, "cov": ex_cov}


def execute(job):
    """job = (id, op, c, ps) -> record"""
    i, op, c, ps = job
    runs, problems = EXEC[op](c, ps)
    return {"id": i, "op": op, "c": c, "ps": ps, "runs": runs, "problems": problems}


# ---- exported case -> jobs -------------------------------------------------------------------------
def wmom_params(mus):
    """calcerr x inputmean with sdev=True (the sdev=False call is compared with it directly)"""
    out = []
    for calcerr in (False, True):
        out.append({"calcerr": calcerr, "sdev": True, "hasmu": False, "mu": [0, 1]})
        for mu in mus:
            out.append({"calcerr": calcerr, "sdev": True, "hasmu": True, "mu": list(mu)})
    return out


GSTATS_CLIP_MAXLEN = 8      # = Stats!SClipEnumMax
GS_MODES = [{"mode": "plain", "calcerr": True, "niter": 0}, {"mode": "weights", "calcerr": True, "niter": 0},
            {"mode": "weights", "calcerr": False, "niter": 0}]


def jobs_of(case, opts):
    """abstract case exported by StatsMC -> list of (op, c, ps)"""
    op = case["op"]
    if op == "wm":
        x, w = case["x"], case["w"]
        how = {"rep": case["rep"], "lat": case["lat"]}
        out = [("wmom", dict(how, x=x, w=w), wmom_params(opts["mus"]))]
        out.append(("gstats", dict(how, x=x, w=w, hasw=True, nsn=1, nsd=1, tol=[0, 1], pr=case["pr"]), GS_MODES))
        if len(x) == 1 and len(w) == 1:
            out.append(("wmedian", dict(how, x=x[0], w=w[0]), [{"v": 1}]))
        return out
    if op == "sc":
        # SCALE: K replicas of the 1-d pattern; every routine of the wm family
        x, w = case["x"], case["w"]
        how = {"rep": case["rep"], "lat": case["lat"], "K": case["K"], "lay": case["lay"]}
        if case["K"] > 100000:
            # (2^24.. elements: one call of each routine)
            return [("wmedian", dict(how, x=x[0], w=w[0]), [{"v": 1}]),
                    ("wmom", dict(how, x=x, w=w), [{"calcerr": True, "sdev": True, "hasmu": False, "mu": [0, 1]}]),
                    ("gstats", dict(how, x=x, w=w, hasw=True, nsn=1, nsd=1, tol=[0, 1], pr=case["pr"]), GS_MODES[1:2])]
        return [("wmom", dict(how, x=x, w=w), wmom_params(opts["mus"])),
                ("gstats", dict(how, x=x, w=w, hasw=True, nsn=1, nsd=1, tol=[0, 1], pr=case["pr"]), GS_MODES),
                ("wmedian", dict(how, x=x[0], w=w[0]), [{"v": 1}])]
    if op == "cl":
        c = {kk: case[kk] for kk in ("x", "w", "hasw", "nsn", "nsd", "rep", "lat", "tol", "pr", "grid") if kk in case}
        nit = case["niter"]
        out = [("clip", c, [{"niter": it} for it in sorted({1, nit})])]
        if len(case["x"]) <= GSTATS_CLIP_MAXLEN and not case.get("grid"):
            # get_stats reports no subset: the spec enumerates every subset the clipping may end on (3^n at worst)
            out.append(("gstats", dict(c, x=[case["x"]], w=[case["w"]]), [{"mode": "clip", "calcerr": True, "niter": nit}]))
        return out
    if op == "ip":
        return [("interp", {kk: case[kk] for kk in ("xs", "vs", "us", "rep", "lat", "vlat", "sx", "sv") if kk in case}, [{"v": 1}])]
    if op == "cv":
        return [("cov", {kk: case[kk] for kk in ("m", "rep", "lat")}, [{"v": 1}])]
    raise MachineryError("unknown exported case %r" % (case,))


# ---- signatures -------------------------------------------------------------------------------------
ENTRY = {"wmom": "wmom", "wmedian": "wmedian", "clip": "sigma_clip", "interp": "interplin", "gstats": "get_stats", "cov": "cov2cor/cor2cov"}


def how_class(op, c):
    """(the most unusual representation kind among the array arguments, the lattice has a large offset,
    the round-3 features of the call: large arrays, non-default printing options)"""
    kinds = {KIND[r] for r in c["rep"].values()}
    k = next(kk for kk in ("f2", "uint", "int", "f4", "list", "f8") if kk in kinds)
    feats = set()
    if c.get("K", 1) * (len(flat(c["x"])) if op in ("wmom", "gstats") else len(c.get("x", []))) >= 1000:
        feats.add("scale")
    if op == "interp" and (c.get("sx") or c.get("sv")):
        feats.add("rescaled")
    if c.get("grid"):
        feats.add("scatter-of-few-ulp")
    pr = c.get("pr")
    if pr and op == "gstats":
        feats |= {f for f, on in (("print_stats", pr["entry"] == "print_stats"), ("doprint", pr["doprint"]),
                                  ("nsigma_print", pr["doprint"] and pr["nsp"] != [1, 1])) if on}
    if pr and op == "clip":
        feats |= {f for f, on in (("verbose", pr["verbose"]), ("not-silent", not pr["silent"])) if on}
    return k, op != "cov" and (lat(c["lat"])["big"] or (op == "interp" and lat(c["vlat"])["big"])), frozenset(feats)


def struct_class(op, c, p):
    if op == "wmom":
        shape = "1d" if len(c["x"]) == 1 else ("Nxd,w1d" if len(c["w"]) == 1 else "Nxd,wNxd")
        return "%s|%s" % (shape, "inputmean" if p["hasmu"] else "nomean")
    if op == "wmedian":
        return "zero-weights" if 0 in c["w"] else "positive-weights"
    if op == "clip":
        return "weighted" if c["hasw"] else "unweighted"
    if op == "interp":
        return "2-nodes" if len(c["xs"]) == 2 else "n-nodes"
    if op == "gstats":
        return "%s|%s" % (p["mode"], "1d" if len(c["x"]) == 1 else "Nxd")
    if op == "cov":
        return "n=1" if len(c["m"]) == 1 else "n>1"
    return "?"


def how_suffix(hows):
    """which representation / lattice feature the failures of one (entry, clause, structure) group need:
    nothing if plain float64 data on a small lattice fail too; 'large-offset' if float64 data fail only there;
    else the representation kinds that fail (and 'large-offset' if they fail only there)"""
    feats = frozenset.intersection(*[f for _, _, f in hows])          # round-3 features every failing call has
    tail = ("|" + "+".join(sorted(feats))) if feats else ""
    hows = {(k, b) for k, b, _ in hows}
    if ("f8", False) in hows:
        return tail
    if ("f8", True) in hows:
        return "|large-offset" + tail
    return "|" + "+".join(sorted({k for k, _ in hows})) + ("" if any(not b for _, b in hows) else "|large-offset") + tail


def judge(ctx, recs, what):
    rejects = tracecheck.validate(ctx, "StatsTrace.tla",
                                  [{"id": r["id"], "op": r["op"], "c": r["c"],
                                    "runs": [{"p": u["p"], "o": u["o"]} for u in r["runs"]]} for r in recs], what=what)
    byid = {r["id"]: r for r in recs}
    fails, groups = [], {}
    for rid, failing in sorted(rejects.items()):
        r = byid[rid]
        for f in failing:
            ki, clause = f.split(":", 1)
            u = r["runs"][int(ki) - 1]
            key = "%s|%s|%s" % (ENTRY[r["op"]], clause, struct_class(r["op"], r["c"], u["p"]))
            fails.append((key, r, u, clause))
            groups.setdefault(key, set()).add(how_class(r["op"], r["c"]))
    for key, r, u, clause in fails:
        ctx.violation(key + how_suffix(groups[key]),
                      "esutil.stat.%s result not allowed by Stats.tla: clause %s" % (ENTRY[r["op"]], clause),
                      {"op": r["op"], "c": r["c"], "ps": [u["p"]], "observed": u["o"], "raw": u["raw"]})
    for r in recs:
        for pb in sorted(set(r["problems"])):
            ctx.violation("%s|%s" % (ENTRY[r["op"]], pb),
                          "call modified an argument / optional outputs differ between flag settings (%s)" % pb,
                          {"op": r["op"], "c": r["c"], "ps": r["ps"]})
    return rejects


# ---- larger seeded cases (code -> spec) -------------------------------------------------------------
class How:
    """draws an admissible (representations, lattice[, tolerance]) for a seeded case from the tables StatsMC.tla exported"""
    def __init__(self, opts):
        self.reps = list(opts["reps"])
        self.lats = [l["name"] for l in opts["lats"]]
        self.first = self.lats[0]
        self.kmax = {l["name"]: (l["kmax"], l["ckmax"]) for l in opts["lats"]}
        self.ok = {k: {tuple(t) for t in opts[k]} for k in ("okdata", "okwts", "oknodes", "okquery")}
        self.cfit = {l["name"]: set(l["cfit"]) for l in opts["lats"]}
        self.tols = {(t[0], t[1]): t[2] for t in opts["tols"]}

    def lattice(self, rng, mx, cov=False):
        """(a lattice that cannot hold the data is replaced by the first one, as StatsMC!LatFor does)"""
        ln = rng.choice(self.lats)
        return ln if mx <= self.kmax[ln][1 if cov else 0] else self.first

    def pick(self, rng, table, latname):
        r = rng.choice(self.reps)
        if (r, latname) in self.ok[table]:
            return r
        return "i8" if KIND[r] in ("int", "uint") and ("i8", latname) in self.ok[table] else "f8"

    def data(self, rng, mx):
        ln = self.lattice(rng, mx)
        rx = self.pick(rng, "okdata", ln)
        return {"rep": {"x": rx, "w": self.pick(rng, "okwts", ln)}, "lat": ln, "tol": self.tols[(ln, "f4" if rx == "f4" else "f8")]}

    def table(self, rng, mxx, mxv):
        ln, lv = self.lattice(rng, mxx), self.lattice(rng, mxv)
        return {"rep": {"v": self.pick(rng, "okdata", lv), "x": self.pick(rng, "oknodes", ln), "u": self.pick(rng, "okquery", ln)},
                "lat": ln, "vlat": lv}

    def cov(self, rng, m):
        ents = [v for row in m for v in row]
        ln = self.lattice(rng, max(ents), cov=True)
        r = rng.choice(self.reps)
        if r == "list" or (KIND[r] in ("int", "uint") and r not in self.cfit[ln]) or (KIND[r] == "uint" and min(ents) < 0):
            r = "i8" if KIND[r] == "int" and "i8" in self.cfit[ln] else "f8"
        return {"rep": {"m": r}, "lat": ln}


def seeded_jobs(rng, n, opts):
    out = []
    nsigs = opts["nsigs"]
    how = How(opts)
    for _ in range(n):
        kind = rng.choice(["wm", "wm", "wmNd", "clu", "clu", "clw", "ip", "cv", "tk"])
        small = rng.random() < 0.4          # data within 0..6: every lattice (the type-spanning placements too) can hold them
        if kind == "wm":
            ln = rng.randint(5, 12)
            x = [rng.randint(0, 6 if small else 12) for _ in range(ln)]
            w = [rng.choice([0, 1, 1, 2, 4]) for _ in range(ln)]
            while sum(w) > 16:
                w[rng.randrange(ln)] = 0
            if sum(w) == 0:
                w[rng.randrange(ln)] = 1
            h = how.data(rng, max(x))
            out.extend(jobs_of({"op": "wm", "x": [x], "w": [w], "rep": h["rep"], "lat": h["lat"], "pr": rng.choice(opts["prs"])}, opts))
        elif kind == "wmNd":
            ln, d = rng.randint(2, 6), rng.randint(2, 3)
            x = [[rng.randint(0, 6 if small else 8) for _ in range(ln)] for _ in range(d)]
            nw = rng.choice([1, d])
            w = [[rng.choice([0, 1, 2, 3]) for _ in range(ln)] for _ in range(nw)]
            for col in w:
                if sum(col) == 0:
                    col[rng.randrange(ln)] = 1
            h = how.data(rng, max(max(col) for col in x))
            out.extend(jobs_of({"op": "wm", "x": x, "w": w, "rep": h["rep"], "lat": h["lat"], "pr": rng.choice(opts["prs"])}, opts))
        elif kind == "tk":
            # stamps that agree to the tick except for a few (one or two ticks off) and up to two gross outliers
            hasw = rng.random() < 0.25
            ln = rng.randint(4, 10) if hasw else rng.choice([rng.randint(4, 16), rng.randint(17, 64)])
            centre = rng.randint(2, 20)
            x = [centre] * ln
            for _o in range(rng.choice([0, 1, 1, 1, 2, 3])):
                x[rng.randrange(ln)] = centre + rng.choice([-2, -1, 1, 1, 2])
            for _o in range(rng.randint(0, 2)):
                x[rng.randrange(ln)] = centre + rng.choice([5, 12, 25, 40])
            w = [rng.choice([1, 1, 2, 4]) for _ in range(ln)] if hasw else [1] * ln
            while hasw and sum(w) > 16:
                w[w.index(max(w))] = 1
            ns = nsigs[rng.randrange(len(nsigs))]
            t = rng.choice(opts["ticks"])
            out.extend(jobs_of(dict(op="cl", x=x, w=w, hasw=hasw, nsn=ns[0], nsd=ns[1], niter=rng.choice([3, 4, 6]), grid=True,
                                    rep={"x": rng.choice(t["reps"]), "w": "f8"}, lat=t["name"], tol=list(opts["ticktol"]),
                                    pr=rng.choice(opts["prs"])), opts))
        elif kind in ("clu", "clw"):
            hasw = kind == "clw"
            ln = rng.randint(5, 10) if hasw else rng.randint(6, 24)
            centre = rng.randint(2, 4) if small else rng.randint(8, 14)
            x = [centre + rng.choice([-1, 0, 0, 1, 2, -2]) for _ in range(ln)]
            for _o in range(rng.randint(0, 2)):                    # 0..2 injected outliers
                x[rng.randrange(ln)] = rng.choice([0, 6] if small else [0, 1, 30, 40, centre + 6, centre - 6])
            w = [rng.choice([1, 1, 2, 3]) for _ in range(ln)] if hasw else [1] * ln
            while hasw and sum(w) > 16:
                w[w.index(max(w))] = 1
            ns = nsigs[rng.randrange(len(nsigs))]
            out.extend(jobs_of(dict(how.data(rng, max(x)), op="cl", x=x, w=w, hasw=hasw, nsn=ns[0], nsd=ns[1], niter=rng.choice([3, 4, 6, 10]),
                                    pr=rng.choice(opts["prs"])), opts))
        elif kind == "ip":
            nn = rng.randint(2, 7 if small else 8)
            xs = sorted(rng.sample(range(0, 7 if small else 21), nn))
            vs = [rng.randint(0, 6 if small else 12) for _ in range(nn)]
            us = [rat(Fr(rng.randint(-4, 2 * xs[-1] + 4), 2)) for _ in range(12)] + [[v, 1] for v in xs[:3]]     # half-lattice, 2 beyond either end
            tb = how.table(rng, xs[-1], max(vs))
            if rng.random() < 0.5:
                tb["rep"] = {a: ("f8" if KIND[r] in ("int", "uint") else r) for a, r in tb["rep"].items()}
                half = 2 if "f4" in tb["rep"].values() else 1
                tb.update(sx=rng.choice([-1, 1]) * rng.randint(1, 40 // half), sv=rng.choice([-1, 1]) * rng.randint(1, 40 // half))
            out.append(("interp", dict(tb, xs=xs, vs=vs, us=us), [{"v": 1}]))
        else:
            nn = rng.randint(3, 6)
            m = [[0] * nn for _ in range(nn)]
            for i in range(nn):
                m[i][i] = rng.choice([1, 2, 4, 9] if small else [1, 2, 4, 9, 16, 25])
                for j in range(i):
                    m[i][j] = m[j][i] = rng.randint(-4, 4)
            out.append(("cov", dict(how.cov(rng, m), m=m), [{"v": 1}]))
    return out


# ---- the check ------------------------------------------------------------------------------------------
def has_interval(r):
    return '"ivl"' in json.dumps([u["o"] for u in r["runs"]])


def census(recs, cen):
    """which representations / lattices / kinds of observation the run really exercised (vacuity guard)"""
    for r in recs:
        c = r["c"]
        for arg, rp in c["rep"].items():
            cen["rep:" + rp] = cen.get("rep:" + rp, 0) + 1
            cen.setdefault("pairs", set()).add((r["op"], arg, rp, c["lat"]))
        cen["lat:" + c["lat"]] = cen.get("lat:" + c["lat"], 0) + 1
        big = lat(c["lat"])["big"] or (r["op"] == "interp" and lat(c["vlat"])["big"])
        if big and r["op"] != "cov":
            cen["large_offset:" + r["op"]] = cen.get("large_offset:" + r["op"], 0) + 1
        if any(c.get(k, "").startswith("span") for k in ("lat", "vlat")) and any(KIND[rp] in ("int", "uint") and rp not in ("i8", "u8") for rp in c["rep"].values()):
            cen["type_spanning_integers:" + r["op"]] = cen.get("type_spanning_integers:" + r["op"], 0) + 1
        if r["op"] == "interp" and c.get("sx"):
            for key in ("rescaled:interp", "rescaled:interp:x*2^%d" % c["sx"], "rescaled:interp:v*2^%d" % c["sv"]) + (("rescaled:interp:float32",) if "f4" in c["rep"].values() else ()):
                cen[key] = cen.get(key, 0) + 1
        if has_interval(r):
            cen["interval:" + r["op"]] = cen.get("interval:" + r["op"], 0) + 1
        if r["op"] == "clip" and c.get("grid"):
            steps = r["runs"][-1]["o"]["steps"]
            for key, yes in (("tick:clip:" + c["lat"], True), ("tick:clip:weighted", c["hasw"]),
                             ("tick:clip:something-clipped", bool(steps) and 0 < len(steps[-1]) < len(c["x"])), ("tick:clip:n>=32", len(c["x"]) >= 32)):
                if yes:
                    cen[key] = cen.get(key, 0) + 1
        if r["op"] == "clip" and Fr(*c["tol"]) > 0:
            cen["clip_with_tolerance"] = cen.get("clip_with_tolerance", 0) + 1
        # round 3: large arrays (by weight representation class), printing options really passed
        n = c.get("K", 1) * (len(c["x"][0]) if r["op"] in ("wmom", "gstats") else len(c.get("x", [])))
        if n >= 2048 and r["op"] in ("wmom", "wmedian", "gstats"):
            for key in ("scale>=2048:" + r["op"], "scale>=2048:weights-" + KIND[c["rep"]["w"]]):
                cen[key] = cen.get(key, 0) + 1
        pr = c.get("pr") if r["op"] in ("gstats", "clip") else None
        if pr:
            on = []
            if r["op"] == "gstats":
                ret = {u["o"].get("ret") for u in r["runs"]}
                on = [("print:get_stats,doprint", pr["entry"] == "get_stats" and pr["doprint"]),
                      ("print:get_stats,doprint,nsigma_print", pr["entry"] == "get_stats" and pr["doprint"] and pr["nsp"] != [1, 1]),
                      ("print:print_stats", pr["entry"] == "print_stats"),
                      ("print:print_stats,nsigma", pr["entry"] == "print_stats" and pr["nsp"] != [1, 1]),
                      ("print:print_stats_returned_statistics", pr["entry"] == "print_stats" and "dict" in ret)]
            mode_clip = r["op"] == "clip" or any(u["p"].get("mode") == "clip" for u in r["runs"])
            on += [("print:verbose:" + r["op"], mode_clip and pr["verbose"]), ("print:not-silent:" + r["op"], mode_clip and not pr["silent"])]
            for key, yes in on:
                if yes:
                    cen[key] = cen.get(key, 0) + 1
    return cen


def run(ctx):
    B = BOUNDS[ctx.tier]
    kinds = {"wm", "wm2", "cl", "ip", "cv", "rp", "sc", "tk"}
    consts = dict(B, Kinds=kinds, MedVariantGE=False, TkVariantBounds=False, DoExport=False, RepFull=not ctx.quick)
    # 1. design level: definitions agree, mechanisms refine the property, no overflow - the whole space.
    #    Per-action coverage (vacuity guard) is costly on the large space: in the thorough tier it is taken on the quick
    #    bounds and the large space is explored without it.
    if ctx.quick:
        ctx.tlc("StatsMC.tla", what="definitions agree + mechanisms refine property (exhaustive)",
                cfg_text=cfg(constants=consts, invariants=INVARIANTS, properties=["ClipShrinks"]),
                workers=16, require=ACTIONS, timeout=3000)
    else:
        ctx.tlc("StatsMC.tla", what="definitions agree + mechanisms refine property (quick bounds, action coverage)",
                cfg_text=cfg(constants=dict(consts, **dict(BOUNDS["quick"], RepFull=False)), invariants=INVARIANTS, properties=["ClipShrinks"]),
                workers=16, require=ACTIONS, timeout=3000)
        ctx.tlc("StatsMC.tla", what="definitions agree + mechanisms refine property (exhaustive)",
                cfg_text=cfg(constants=consts, invariants=INVARIANTS, properties=["ClipShrinks"]),
                workers=16, coverage=False, timeout=3000)
    # 1a. the predicate forms of the clipping relations (used by the trace module) equal the set forms, and the
    #     tolerance-aware relations contain the exact ones / coincide with them at tolerance 0: on every pair of subsets
    #     of every clipping state of a small scope (SUBSET x SUBSET per state - too expensive on the thorough bounds)
    r1a = ctx.tlc("StatsMC.tla", what="clipping relations: predicate = set form, tolerance-aware contains exact (small scope)",
                  cfg_text=cfg(constants=dict(consts, Kinds={"cl"}, **CLIP_THEOREM_BOUNDS[ctx.tier]), invariants=CLIP_THEOREMS, next_="NextExport"),
                  workers=16, coverage=False, timeout=3000)      # (NextExport: the cases only - the theorems do not read the iteration state)
    if r1a.distinct < 500:
        raise MachineryError("clipping-relation run too small: %d states" % r1a.distinct)
    # 1b. non-vacuity of MedRefines: a deviating loop test must violate it
    r1b = ctx.tlc("StatsMC.tla", what="self-test: deviating wmedian loop violates MedRefines",
                  cfg_text=cfg(constants=dict(consts, Kinds={"wm"}, MaxLen=2, MedVariantGE=True), invariants=["MedRefines"]),
                  workers=2, allow_violation=True, coverage=False)
    if "MedRefines" not in r1b.violated:
        raise MachineryError("self-test failed: MedRefines not violated by the deviating mechanism")
    # 1c. non-vacuity of TkRefines: a clipping test against bounds rounded to the floating-point grid must violate it
    r1c = ctx.tlc("StatsMC.tla", what="self-test: clipping bounds rounded to the grid violate TkRefines",
                  cfg_text=cfg(constants=dict(consts, Kinds={"tk"}, TkVariantBounds=True), invariants=["TkRefines"]),
                  workers=2, allow_violation=True, coverage=False)
    if "TkRefines" not in r1c.violated:
        raise MachineryError("self-test failed: TkRefines not violated by the deviating mechanism")
    # 2. export every case (spec -> code)
    r2 = ctx.tlc("StatsMC.tla", what="export cases",
                 cfg_text=cfg(constants=dict(consts, DoExport=True), next_="NextExport", constraints=["Export"]),
                 workers=1, coverage=False, timeout=3000)
    cases = r2.records.get("CASE", [])
    opts = (r2.records.get("OPTS") or [None])[0]
    if not cases or not opts:
        raise MachineryError("no cases / option tables exported")
    check_tables(opts)
    nkinds = {}
    for cse in cases:
        nkinds[cse["op"]] = nkinds.get(cse["op"], 0) + 1
    if set(nkinds) != {"wm", "cl", "ip", "cv", "sc"}:
        raise MachineryError("export incomplete: %s" % nkinds)
    jobs = []
    for cse in cases:
        for op, c, ps in jobs_of(cse, opts):
            jobs.append((len(jobs) + 1, op, c, ps))
    del cases
    cen, seen, probe = {}, set(), {}

    def batch(jobs, what):
        """replay + judge in chunks (a record carries every projected observation of every call: keep memory bounded)"""
        chunk = 40000
        for lo in range(0, len(jobs), chunk):
            recs = pmap(execute, jobs[lo:lo + chunk])
            for r in recs:
                ctx.count({"op": r["op"], "c": r["c"]}, n=len(r["runs"]))
            census(recs, cen)
            for r in recs:
                last = r["runs"][-1]["o"]
                key = (r["op"], r["op"] != "cov" and lat(r["c"]["lat"])["big"])
                if key not in seen and last["err"] == "none" and (r["op"] != "clip" or len(last["steps"][-1]) < len(r["c"]["x"])):
                    seen.add(key)
                    ctx.sample({"op": r["op"], "case": r["c"], "params": r["runs"][-1]["p"], "observed": r["runs"][-1]["o"]}, cap=12)
            rej = judge(ctx, recs, what if len(jobs) <= chunk else "%s [%d..%d]" % (what, lo + 1, lo + len(recs)))
            pick_probes(probe, recs, rej)
        return len(jobs)

    nrec = batch(jobs, "judge replayed cases (StatsTrace)")
    # 3. larger seeded cases (code -> spec)
    nrand = 1500 if ctx.quick else 20000

    sj = seeded_jobs(random.Random(ctx.seed), nrand, opts)
    nseed = batch([(nrec + 1 + i, op, c, ps) for i, (op, c, ps) in enumerate(sj)], "judge seeded larger cases (StatsTrace)")
    # 4. vacuity guards on the two added dimensions, binding self-test
    pairs = cen.pop("pairs")
    need = (["rep:" + r for r in opts["screps"]] + ["lat:" + l["name"] for l in opts["lats"]] +
            ["scale>=2048:" + op for op in ("wmom", "wmedian", "gstats")] +
            ["scale>=2048:weights-" + k for k in ("f2", "f4", "f8", "int", "uint", "list")] +
            ["print:get_stats,doprint", "print:get_stats,doprint,nsigma_print", "print:print_stats", "print:print_stats,nsigma",
             "print:verbose:clip", "print:not-silent:clip", "print:verbose:gstats", "print:not-silent:gstats"] +
            ["large_offset:" + op for op in ("wmom", "wmedian", "clip", "interp", "gstats")] +
            ["tick:clip:" + k for k in list(TICKNUM) + ["weighted", "something-clipped", "n>=32"]] +
            ["rescaled:interp", "rescaled:interp:float32"] + ["rescaled:interp:%s*2^%d" % (a, e) for a in "xv" for e in opts["exps"]] +
            ["interval:" + op for op in ("wmom", "clip", "interp", "gstats")] + ["clip_with_tolerance"] +
            ["type_spanning_integers:" + op for op in EXEC])
    missing = [k for k in need if not cen.get(k)]
    if missing and not ctx.violations:
        raise MachineryError("vacuous run: nothing exercised %s" % missing)
    selftest(ctx, probe)
    ctx.rule = ("every (data, weights) pair with data of length %d..%d over %d lattice values and weights over %s (total <= %d) x "
                "calcerr x sdev x inputmean in {none, %s}; every N-by-2 input (N <= %d) with 1-d and N-by-2 weights; every clipping "
                "input of length <= %d over %s (weighted: length <= %d, weights %s) x nsig in %s x niter 0..%d (each iteration "
                "re-observed); every interpolation table of 2..%d nodes from %s with values from %s at %d query points (inside, at "
                "nodes, outside); every symmetric matrix up to %dx%d with diagonal from %s and off-diagonal in %d..%d - all exported "
                "from StatsMC.tla, each with one (representation per array argument, lattice) row of a pairwise-covering design over "
                "%d representations (%s) and %d lattices (%d of them with offsets 10^8..2^40, %d placing the values across the whole range of "
                "an 8/16/32-bit integer type), plus a few data sets of every kind under "
                "%s; every wm / clipping / scale case carries one of the 48 combinations of the printing options (get_stats / print_stats x "
                "doprint x nsigma_print in {1, 2, 3, 1/2} x verbose x silent) and a few data sets are run under all 48; SCALE: every "
                "pattern of length 1..%d over values %s x weights %s, replicated K times (K from %s by a pairwise design with layout "
                "tiled / blocks / shuffled, data representation, lattice, weights in float16 for about half), two patterns under every "
                "K x every weight representation (float16 included)%s - judged on the pattern through Stats!SScaleLaw; "
                "every interpolation table also RESCALED (abscissae x 2^sx, values x 2^sv, exponents %s by the pairwise design, halved with "
                "float32) and judged on the unscaled table through Stats!SInterpScaleLaw; TICK lattices %s (unit = floating-point spacing "
                "at the offset): every clipping input of length <= %d over {0, 1, 6} and of length <= %d over {0, 1} (weighted: length <= %d) "
                "x nsig x niter as above, representation / lattice by hash, judged by Stats!SClipInSuccG; "
                "plus %d seeded larger cases with drawn representations / lattices / printing options. A case is distinct by its abstract record "
                "(op, data, representation, lattice) and counted once; evaluations count the calls made on it (option settings)." %
                (B["MinLen"], B["MaxLen"], len(B["Vals"]), sorted(B["Wts"]), B["MaxW"], opts["mus"], B["N2Max"], B["ClipMaxLen"],
                 sorted(B["ClipVals"]), B["ClipMaxLenW"], sorted(B["ClipWts"]), [opts["nsigs"][i - 1] for i in sorted(B["NSigIdx"])],
                 NITER, B["TabMax"], sorted(B["TabX"]), sorted(B["TabV"]), 2 * (max(B["TabX"]) - min(B["TabX"])) + 9,
                 B["CovMaxN"], B["CovMaxN"], sorted(B["CovDiag"]), -B["CovShift"], B["CovOffN"] - B["CovShift"],
                 len(opts["reps"]), ", ".join(opts["reps"]), len(opts["lats"]), sum(1 for l in opts["lats"] if l["big"]),
                 sum(1 for l in opts["lats"] if l["name"].startswith("span")),
                 "every row of the design" if ctx.quick else "the full product representation x representation x lattice",
                 B["ScMaxLen"], sorted(B["ScVals"]), sorted(B["ScWts"]), opts["scks"],
                 "" if ctx.quick else ", further K %s and two cases of 3 * 2^23 and 2^24 + 4 points with float32 weights" % sorted(B["ScKExtra"]),
                 opts["exps"], sorted(TICKNUM), B["ClipMaxLen"], B["ClipMaxLen"] + 2, B["ClipMaxLenW"],
                 len(sj)))
    ctx.exhaustive = True
    ctx.note(bounds={k: sorted(v) if isinstance(v, set) else v for k, v in B.items()}, exported_cases=nkinds,
             records=nrec, seeded_records=nseed, census={k: v for k, v in sorted(cen.items())},
             distinct_op_argument_representation_lattice_combinations=len(pairs))
    ctx.assumptions = [
        "dyadic lattice: data (x+off)*2^k, weights w*2^j; expected values are exact rationals with denominator <= 2^20",
        "real-valued outputs are compared 'to rounding': 16 ulp (4 roundings x 4 ulp) of the operand scale, by snapping the observed "
        "float to the nearest rational with denominator <= 2^20 (vh/ratproj.py)",
        "large-offset lattices (|off| 10^8..2^40 lattice units) and float32 input: value-type outputs within 16 ulp (of binary64, "
        "resp. float32) of the operand scale, OFFSET INCLUDED; deviation-type outputs (std, err) within the same absolute tolerance on "
        "the deviation itself; recorded as the nearest candidate rational where the tolerance interval isolates one, else as an "
        "interval (rounded outward to 1/256 or coarser) that must contain the exact expectation",
        "sigma clipping: points exactly on the nsig*sigma boundary (incl. zero deviation) may be kept or dropped; on large-offset "
        "lattices / float32 data also points within tol*(1+nsig) of it, tol = 16 ulp of the operand scale (mean and deviation are "
        "themselves known only to rounding); when nothing survives a round the current subset (or the empty set) is accepted",
        "weighted sigma_clip / get_stats error: either documented wmom convention accepted; wmom moments with inputmean: about the "
        "supplied or the weighted mean accepted",
        "interplin, rescaled cases: abscissae (nodes and query points) times 2^sx, table values times 2^sv, |sx|, |sv| <= 40 (<= 20 "
        "when an argument is float32), floating-point representations only; powers of two keep every lattice value exact and "
        "commute with every operation of a scale-covariant evaluation, so the tolerance of the unscaled case is applied unchanged "
        "to the result divided by 2^sv; nearly-regular tables (spacings equal to 1e-5 relative) are not exercised",
        "sigma clipping on tick lattices (unit = floating-point spacing at the offset; <= 64 points, total weight <= 32): a round is "
        "accepted if it is what the exact relation yields (ties free) or what |x_i - j| < nsig * sqrt(sum w (x - j)^2 / sum w) yields "
        "for SOME lattice point j within 32 ulp of the exact mean (ties free) - i.e. the computed mean is a floating-point number, "
        "differences to it are exact and the deviation is the root mean square about that same computed mean to a relative rounding; "
        "an implementation whose deviation is NOT taken about its computed mean is outside this reading; returned mean / deviation / "
        "error are judged to 16 ulp of the offset only (intervals); get_stats with clipping is not run on tick lattices",
        "interplin on large-offset lattices: operand scale of the result = max|v| + max|slope| * (max|x|,|u| + span), offsets included",
        "integer representations: a lattice is used with an integer type only where the type holds every value exactly; on the "
        "type-spanning placements (values about -max..max, unsigned about 0..max of int8/16/32) the data, table values, nodes, "
        "integer query points and matrix entries fit the type while their sums, differences, products and squares do not - the "
        "results must still follow the definitions (computed by the spec on the small abstract integers)",
        "cov2cor / cor2cov take arrays (a python list has no .shape): list representation not used for matrices; unsigned only for "
        "non-negative matrices / lattices",
        "inputmean given as an [ndim] array, boxcar_average and all-zero weights are outside the statement and not exercised",
        "printing options: what is written to stdout / stderr is discarded, not judged; print_stats may return nothing (it does on the "
        "unchanged tree - its docstring promises the statistics, the statement does not name it); whatever it returns is judged like "
        "get_stats; verbose / silent are passed where sigma_clip is involved (sigma_clip itself, get_stats with nsig / niter)",
        "scale: arrays of K replicas on the small-offset lattices only (all partial sums of w*x are exact in binary64); tolerance "
        "'to rounding' widened by the factor 2 + log2(N) for the summation over N elements; an error-type output e of K replicas is "
        "recorded as K*e^2 (units of 1/K), e*sqrt(K) being granted the absolute tolerance of a deviation; sigma clipping, "
        "interpolation and N-by-d inputs are not run at scale",
    ]
    ctx.trusted_base = ctx.trusted_base + ["fractions.Fraction arithmetic and Fraction.limit_denominator in the float->lattice projection"]


def pick_probes(picks, recs, rejected):
    """self-test material: the first ACCEPTED record of each kind (a broken tree must not break the self-test)"""
    if len(picks) == NPROBES:
        return
    for r in recs:
        if r["id"] in rejected or r["problems"] or not all(u["o"]["err"] == "none" for u in r["runs"]):
            continue
        last = r["runs"][-1]["o"]
        keys = [r["op"]]
        big = r["c"].get("K", 1) >= 1000
        if r["op"] == "gstats":
            if last["ret"] == "none":
                keys = ["gstats_nothing_returned"]
            elif big:
                keys.append("gstats_scale")
        if r["op"] == "wmedian" and big and len(set(r["c"]["x"])) > 1:
            keys.append("wmedian_scale")
        if r["op"] == "clip":
            if len(last["steps"][-1]) in (0, len(r["c"]["x"])):
                continue
            if last["var"]["k"] == "ivl":
                keys.append("clip_interval")
        if r["op"] == "wmom" and last["var"][0]["k"] == "ivl":
            keys.append("wmom_interval")
        for key in keys:
            picks.setdefault(key, r)


NPROBES = len(EXEC) + 5


def selftest(ctx, picks):
    saved = ctx.traces

    def bump(o):
        if o["k"] == "ivl":           # shift the recorded interval by 3 lattice units
            return dict(o, n=o["n"] + 3 * o["K"], d=o["d"] + 3 * o["K"])
        return dict(o, n=o["n"] + 1)
    probes, expect_reject = [], set()
    for n, (key, r) in enumerate(sorted(picks.items())):
        op = r["op"]
        good = {"id": 2 * n + 1, "op": op, "c": r["c"], "runs": [{"p": u["p"], "o": u["o"]} for u in r["runs"]]}
        bad = copy.deepcopy(good)
        bad["id"] = 2 * n + 2
        o = bad["runs"][-1]["o"]
        if key == "wmom":
            o["mean"][0] = bump(o["mean"][0])
        elif key == "wmom_interval":
            o["var"][0] = bump(o["var"][0])
        elif key in ("wmedian", "wmedian_scale"):
            o["val"] = bump(o["val"])
        elif key == "gstats_scale":
            o["err2i"][0] = bump(o["err2i"][0])             # (last run: weights, calcerr=False - the error is 1/sqrt(K sum w))
        elif key == "gstats_nothing_returned":
            bad["c"] = dict(bad["c"], pr=dict(bad["c"]["pr"], entry="get_stats"))       # only print_stats may return nothing
        elif key == "clip":
            o["steps"][-1] = o["steps"][0]            # claims nothing was clipped
        elif key == "clip_interval":
            o["var"] = bump(o["var"])
        elif key == "interp":
            o["vals"][0][0] = dict(o["vals"][0][0], k="off")
        elif key == "gstats":
            o["max"][0] = bump(o["max"][0])
        elif key == "cov":
            o["back"][0][0] = bump(o["back"][0][0])
        probes += [good, bad]
        expect_reject.add(bad["id"])
    if len(picks) != NPROBES and not ctx.violations:
        # (on a tree that breaks an operation every record of it may be rejected: its probe is then skipped)
        raise MachineryError("self-test: no clean record for some op: %s" % sorted(picks))
    rej = tracecheck.validate(ctx, "StatsTrace.tla", probes, what="self-test: corrupted records rejected", workers=1)
    ctx.traces = saved
    bad_accept = expect_reject - set(rej)
    good_reject = set(rej) - expect_reject
    if bad_accept or good_reject:
        raise MachineryError("binding self-test failed: corrupted accepted %s, untouched rejected %s" % (sorted(bad_accept), sorted(good_reject)))


def replay(ctx, case):
    rec = execute((1, case["op"], case["c"], case["ps"]))
    print("replay observed:", [(u["p"], u["o"], u["raw"]) for u in rec["runs"]])
    judge(ctx, [rec], "replay")
