"""C19 - random sky positions stay in their region; samplers invert the distribution.

spec -> code : SamplerMC.tla enumerates six bounded case spaces (inverse-CDF tables, integer
               Cholesky factors, (imax, n, unique), lon/lat boxes and spherical caps on the
               great-circle lattice, two seeded generators), checks the theorems of the
               property-level definitions of Sampler.tla and runs the implementation-shaped
               mechanisms (searchsorted + clamp + line; Cholesky column by column, reshape and
               multiply; choice without replacement; direct and rotated cap paths with the
               radians->degrees conversion count) as actions against them.  Every enumerated
               case is exported and executed against the real code (the SCALE cases - draws of 10^5 .. 2*10^6
               values across the 2^20 / 2^21 boundaries - as block summaries judged through laws that TLC
               checks on every small sequence: family "law"):
                 * stub generators feed lattice deviates (u = j/16, the exported cumulative
                   values and a point just above every flat stretch - density values include 0,
                   and accumulated input (cumulative=True) is a second kind of table; radial deviates 0, 1/4, 1- and position angles 0, 90, 180, 270 degrees;
                   box corners; recorded integer normal deviates), so that sampler / Cholesky /
                   cap outputs have exact lattice values;
                 * real seeded generators (legacy RandomState, new-style Generator) for count,
                   range, reproducibility and membership with margins.
code -> spec : what the real code returned is projected (rational snap, eps-angle snap, classes
               "in"/"lo"/"hi"/..., comparisons of two outputs) and written as ndjson; the
               property-level clauses of Sampler.tla judge it under TLC (SamplerTrace.tla).
Python never judges a result; it maps abstract <-> concrete, projects and records.

Tolerances (DESIGN 6 / 7): box membership 1e-12 degree; cap membership and returned radius =
separation through the validated longdouble chord kernel with a margin of 1e-9 degree; sampler and
Cholesky values "to rounding" (16 ulp of the operand scale, the inverse-CDF scale including the
steepest slope of the table).
"""
import math
import random
import warnings
from fractions import Fraction as Fr

import numpy as np

from .. import spherelat as sl
from .. import tracecheck
from ..core import MachineryError
from ..par import pmap
from ..ratproj import real as rat_real
from ..tlc import cfg

NEEDS_EXT = True          # `import esutil` needs the compiled sub-packages (build is cached)

ONE_MINUS = float(np.nextafter(1.0, 0.0))
TOL_BOX = Fr(1, 10 ** 12)
TOL_CAP = Fr(1, 10 ** 9)
DEN_BOUND = 2 ** 18
BMAX = 64
FAMILIES = ("smp", "chol", "idx", "cap", "box", "gen", "law", "scale", "wld")
SCALE_BLOCK = 1 << 18            # summary blocks, aligned with 2^20


def ecode(a, b, shift=0):
    return (a + shift) * 16 + (b + 8)


_LATS_Q = [(-90, 0), (-90, 1), (-45, 0), (0, 0), (0, 1), (30, 0), (89, 0), (90, -1), (90, 0)]
_LATS_T = _LATS_Q + [(-89, 0), (-30, -1), (60, 0), (80, 0), (88, 2)]
_RADS_Q = [(0, 2), (2, 0), (30, 0), (90, 0), (178, 0), (180, -2), (180, 0)]
_RADS_T = _RADS_Q + [(0, 4), (10, 2), (20, 0), (60, 0), (100, 0), (120, -2), (160, 0)]
_BLAT_Q = [(-90, 0), (-90, 1), (-30, 0), (0, 0), (45, 0), (90, -1), (90, 0)]
_BLAT_T = _BLAT_Q + [(-89, 0), (0, -1), (10, 2), (89, 0)]
BOUNDS = {
    "quick": dict(
        XVals=set(range(0, 5)), MaxNodes=5, PVals={0, 1, 2}, UDen=16, SmpKinds={"density", "cumulative"},
        LDiag={1, 2, 3}, LOffP={0, 2, 3}, LOffShift=2, CholMaxN=3, CholNs={1, 2, 3}, ZSels={1, 2},
        IdxMax=4,
        CapLonCodes={ecode(0, 0), ecode(360, -1), ecode(95, 0), ecode(180, 1)},
        CapLatCodes={ecode(l, b, 90) for l, b in _LATS_Q},
        CapRadCodes={ecode(a, b) for a, b in _RADS_Q},
        BoxLonCodes={ecode(0, 0), ecode(0, 1), ecode(10, 0), ecode(180, 0), ecode(360, -1), ecode(360, 0)},
        BoxLatCodes={ecode(l, b, 90) for l, b in _BLAT_Q},
        GenSeeds={1, 2}, GenMax=4, LawMax=3, LawLen=3,
        ScaleNs={1 << 20, (1 << 20) + 1000}, IdxScaleImax={1000000, 2000000}, SmpScaleNs={1000000},
        CholScaleKs={4}, WldGrids={11}, WldPVals={0, 1, 2}, WldMaxCalls=2,
        WldForms={"bound", "bound_call", "lambda", "closure", "table"}),
    "thorough": dict(
        XVals=set(range(0, 6)), MaxNodes=5, PVals={0, 1, 2, 3}, UDen=16, SmpKinds={"density", "cumulative"},
        LDiag={1, 2, 3}, LOffP={0, 1, 2, 3, 4}, LOffShift=2, CholMaxN=3, CholNs={1, 2, 3}, ZSels={1, 2},
        IdxMax=6,
        CapLonCodes={ecode(0, 0), ecode(0, 1), ecode(360, -1), ecode(95, 0), ecode(180, 1), ecode(270, 0), ecode(359, 2)},
        CapLatCodes={ecode(l, b, 90) for l, b in _LATS_T},
        CapRadCodes={ecode(a, b) for a, b in _RADS_T},
        BoxLonCodes={ecode(0, 0), ecode(0, 1), ecode(10, 0), ecode(180, 0), ecode(180, 1), ecode(359, 0), ecode(360, -1),
                     ecode(360, 0)},
        BoxLatCodes={ecode(l, b, 90) for l, b in _BLAT_T},
        GenSeeds={1, 2, 3}, GenMax=6, LawMax=3, LawLen=4,
        ScaleNs={(1 << 20) - 1, 1 << 20, (1 << 20) + 1000, (1 << 21) + 7}, IdxScaleImax={1000000, 2000000, 3000017},
        SmpScaleNs={1000000, (1 << 20) + 1},
        CholScaleKs={2, 3, 4, 8}, WldGrids={11, 7}, WldPVals={0, 1, 2}, WldMaxCalls=3,
        WldForms={"bound", "bound_call", "lambda", "closure", "table"}),
}
INVARIANTS = ["SmpTheorems", "SmpMechRefines", "CholFactorIsL0", "CholTheorems", "CholMechRefines", "CholScaleLaw", "WldFreshWorld",
              "WldTheorems", "IdxMechRefines",
              "IdxTheorem", "CapTheorems", "CapMechRefines", "CapPathsAgree", "BoxTheorems", "BoxMechRefines",
              "GenReproducible", "LawIdxSummary", "LawBlocks", "LawSorted", "ScaleTheorems"]
ACTIONS = ["SmpChooseGrid", "SmpChooseDens", "SmpMechSearch", "SmpMechEvalStep", "CholChooseN", "CholChooseL",
           "CholFactorStart", "CholFactorCol", "CholDraw", "CholMultiply", "IdxChoose", "IdxDrawOne", "IdxReturn", "IdxReject",
           "CapChooseCentre", "CapChooseRad", "CapChooseDraw", "CapDirectStep", "CapInner", "CapTurnTheta", "CapTurnPhi",
           "CapFinish", "BoxChooseLon", "BoxChooseLat", "BoxDrawCorner", "GenStart", "GenCall1", "GenCall2",
           "LawIdx", "LawPtsLen", "LawPts", "LawMonoLen", "LawMono", "ScaleChoose",
           "WldChoose", "WldChooseForm", "WldBuild", "WldSample", "WldScribble"]
MECH = dict(XShift=0, Dedup="lead_last", Transposed=False, FixedRadius=True, DiagTol=0, MemoKey="none")

# lattice concretisations ---------------------------------------------------------------------
SCONC = [(1.0, 0), (0.5, -3), (4.0, 2), (2.0 ** -10, 0), (8.0, -6), (1.0, 100)]        # abscissa = (x + off) * unit
CCONC = [(1.0, 1.0), (2.0, 0.5), (0.25, 4.0), (8.0, 2.0 ** -6)]                          # cov = sigma*s^2, deviate = z*zunit
NBASE = len(CCONC)
# the scale ladder (class M, law CholThmScale of Sampler.tla): the same lattice case transported to covariances of
# 1e-24 .. 1e24, densely around numpy.allclose's absolute 1e-8 (s^2 = 2^-24 .. 2^-30) and around 1e-5 / 1e-12 / 1e-16
CLADDER = [2.0 ** e for e in (-40, -30, -26, -20, -17, -15, -14, -13, -12, -10, -8, -5, 5, 10, 20, 30, 40)]
CCONC += [(sc, 1.0) for sc in CLADDER]
CAP_EPS = (2, 3)           # eps = 1e-6, 1e-3 degree (the statement's smallest radius is 1e-6)
BOX_EPS = (1, 2, 3)        # eps = 1e-9, 1e-6, 1e-3 degree


class StubUnsupported(Exception):
    """the code asked the stub generator for something it cannot script (not a verdict)"""


class StubRNG(object):
    """A scripted generator: random(size) returns the scripted radial deviates, uniform(low, high, size)
    returns low + t*(high-low) for the scripted fractions t of that call (t code 2 = the largest double
    below `high`).  Every call restarts its script; anything else raises StubUnsupported."""

    def __init__(self, random_codes=None, uniform_codes=None, uniform_values=None):
        self.random_codes = random_codes
        self.uniform_codes = uniform_codes or []       # one list of t codes per uniform() call (last one repeats)
        self.uniform_values = uniform_values           # or: explicit values for uniform(size=) with default bounds
        self.ncall = 0
        self.log = []

    @staticmethod
    def _n(size):
        if size is None:
            return 1, True
        if isinstance(size, (tuple, list)):
            return int(np.prod(size)), False
        return int(size), False

    def random(self, size=None):
        if self.random_codes is None:
            raise StubUnsupported("random")
        n, scalar = self._n(size)
        vals = [(0.0, 0.25, ONE_MINUS)[self.random_codes[i % len(self.random_codes)]] for i in range(n)]
        self.log.append(("random", n))
        return vals[0] if scalar else np.array(vals, dtype="f8").reshape(size)

    random_sample = random

    def uniform(self, low=0.0, high=1.0, size=None):
        n, scalar = self._n(size)
        if self.uniform_values is not None:
            if (low, high) != (0.0, 1.0):
                raise StubUnsupported("uniform with bounds on a value script")
            vals = [self.uniform_values[i % len(self.uniform_values)] for i in range(n)]
        else:
            if not self.uniform_codes:
                raise StubUnsupported("uniform")
            codes = self.uniform_codes[min(self.ncall, len(self.uniform_codes) - 1)]
            low, high = float(low), float(high)
            pick = (low, low + 0.5 * (high - low), float(np.nextafter(high, low)) if high > low else low,
                    low + 0.25 * (high - low), low + 0.75 * (high - low))
            vals = [pick[codes[i % len(codes)]] for i in range(n)]
        self.ncall += 1
        self.log.append(("uniform", n))
        return vals[0] if scalar else np.array(vals, dtype="f8").reshape(size)

    def __getattr__(self, name):
        raise StubUnsupported(name)


class RecordingRNG(object):
    """passes uniform() through to a real generator and remembers what it returned"""

    def __init__(self, rng):
        self._rng = rng
        self.chunks = []

    def uniform(self, *a, **kw):
        v = self._rng.uniform(*a, **kw)
        self.chunks.append(np.array(v, dtype="f8", copy=True).ravel())
        return v

    def array(self):
        return np.concatenate(self.chunks) if self.chunks else np.zeros(0)

    @property
    def got(self):
        return self.array().tolist()

    def __getattr__(self, name):
        return getattr(self._rng, name)


def mkgen(kind, seed):
    return np.random.RandomState(seed) if kind == "legacy" else np.random.default_rng(seed)


def disturb_global():
    """between the two runs of a reproducibility pair: code that used numpy's global state instead of
    the generator it was given would now return something else"""
    np.random.seed(987654321)
    np.random.random(7)


def call(fn, *a, **kw):
    with warnings.catch_warnings():
        warnings.simplefilter("ignore")
        with np.errstate(all="ignore"):
            return fn(*a, **kw)


def same_arrays(A, B):
    if len(A) != len(B):
        return False
    for a, b in zip(A, B):
        a, b = np.asarray(a), np.asarray(b)
        if a.shape != b.shape or a.dtype != b.dtype or a.tobytes() != b.tobytes():
            return False
    return True


def errname(e):
    return "StubUnsupported" if isinstance(e, StubUnsupported) else type(e).__name__


# ---------------------------------------------------------------------------------
# smp : inverse-CDF sampler
def smp_xs(c):
    """abscissae of the interpolation table: every node for cumulative input, all but the first for a density"""
    return c["x"] if c.get("kind", "density") == "cumulative" else c["x"][1:]


def smp_scale(c, off):
    """operand scale of the inverse interpolation in lattice units: the steepest non-flat segment
    (dx/dcum <= span * 2 max p for a trapezoid table of integers, span * p[last] for a cumulative one)
    plus the abscissae themselves"""
    x, p = c["x"], c["p"]
    steep = (x[-1] - x[0]) * (p[-1] if c.get("kind", "density") == "cumulative" else 2 * max(p))
    return steep + max(abs(v + off) for v in x) + 1


def smp_project(c, conc, vals):
    unit, off = SCONC[conc]
    scale = smp_scale(c, off)
    tol = Fr(16, 2 ** 52) * scale
    lat, v = [], []
    for t in vals:
        o = rat_real(t, scale, div=unit, off=off, den_bound=DEN_BOUND)
        v.append(o)
        try:
            f = float(t)
            lat.append(Fr(f) / Fr(unit) - off if math.isfinite(f) else (f if f == f else None))
        except (TypeError, ValueError):
            lat.append(None)
    xs = smp_xs(c)
    ing = [a is not None and xs[0] - tol <= a <= xs[-1] + tol for a in lat]
    nb = [-1 if a is None else sum(1 for t in xs if t < a - tol) for a in lat]      # (+-inf compare like numbers)
    mono = [lat[q] is not None and lat[q + 1] is not None and lat[q] <= lat[q + 1] + tol for q in range(len(lat) - 1)]
    return v, ing, nb, mono


def smp_build(c, conc, mode, rng=None, seed=None):
    import esutil.random as er
    unit, off = SCONC[conc]
    x = np.array([(t + off) * unit for t in c["x"]], dtype="f8")
    p = np.array(c["p"], dtype="i8" if mode in ("table_int", "cum_table_int") else "f8")
    kw = {"rng": rng} if rng is not None else {"seed": seed}
    if mode in ("table", "table_int", "scalar"):
        return er.Generator(p, x=x, **kw)
    if mode in ("cum_table", "cum_table_int", "cum_scalar"):
        return er.Generator(p, x=x, cumulative=True, **kw)
    table = dict(zip(c["x"], [float(t) for t in c["p"]]))

    def pofx(t):               # a function that takes the tabulated values on the grid
        r = np.array([table[int(round(float(v) / unit - off))] for v in np.atleast_1d(t)], dtype="f8")
        return r if np.ndim(t) else float(r[0])
    if mode == "func_x":
        return er.Generator(pofx, x=x, **kw)
    if mode == "func_range":
        return er.Generator(pofx, xrange=[float(x[0]), float(x[-1])], nx=len(x), **kw)
    if mode == "cum_func":
        return er.Generator(pofx, x=x, cumulative=True, **kw)
    raise MachineryError("unknown sampler mode " + mode)


def smp_modes(c, n=0):
    """entry modes of one case; the per-deviate scalar calls (one object per deviate) on every third case"""
    if c.get("kind", "density") == "cumulative":
        return ["cum_table", "cum_func", "cum_table_int"] + (["cum_scalar"] if n % 3 == 0 else [])
    d = [b - a for a, b in zip(c["x"], c["x"][1:])]
    return ["table", "func_x", "table_int"] + (["scalar"] if n % 3 == 0 else []) + (["func_range"] if len(set(d)) == 1 else [])


def smp_class(c):
    """structural class of a table (signature only): where its cumulative distribution is flat"""
    p = c["p"]
    if c.get("kind", "density") == "cumulative":
        flat = [p[k] == p[k + 1] for k in range(len(p) - 1)]
    else:
        flat = [p[k] == 0 and p[k + 1] == 0 for k in range(1, len(p) - 1)]
    return "leading_flat" if flat and flat[0] else "flat_stretch" if any(flat) else "strictly_increasing"


def ob_smp(c, meta):
    us = [float(Fr(n, d)) for n, d in c["us"]]
    obs, raw = [], []
    for k, mode in enumerate(meta["modes"], 1):
        o = {"k": k, "mode": mode}
        try:
            if mode in ("scalar", "cum_scalar"):
                vals = []
                for u in us:
                    g = call(smp_build, c, meta["conc"], mode, rng=StubRNG(uniform_values=[u]))
                    vals.extend(np.atleast_1d(call(g.sample)).ravel().tolist())     # (a scalar, as documented)
                vals = np.array(vals)
            else:
                g = call(smp_build, c, meta["conc"], mode, rng=StubRNG(uniform_values=us))
                vals = np.atleast_1d(call(g.sample, len(us)))
            v, ing, nb, mono = smp_project(c, meta["conc"], vals.ravel().tolist())
            o.update(err="none", cnt=int(vals.size), v=v, ing=ing, nb=nb, mono=mono)
            raw.append([float(t) for t in vals.ravel()])
        except Exception as e:  # noqa
            o.update(err=errname(e), cnt=0, v=[], ing=[], nb=[], mono=[])
            raw.append(repr(e))
        obs.append(o)
    return obs, raw


def ob_smpr(c, meta):
    """seeded real generators: count, in-grid, monotone in the deviates actually drawn, reproducible"""
    n = c["n"]
    first = Fr(*c["cum"][0])
    obs, raw = [], []
    for k, (kind, mode) in enumerate(meta["kinds"], 1):
        o = {"k": k, "kind": kind, "mode": mode}
        try:
            seed = meta["seed"] + k
            if kind == "seed":             # Generator(seed=): no handle on the deviates, count / in-grid flags / reproducibility only
                rec = RecordingRNG(None)
                g1 = call(smp_build, c, meta["conc"], mode, seed=seed)
                g2 = call(smp_build, c, meta["conc"], mode, seed=seed)
            else:
                rec = RecordingRNG(mkgen(kind, seed))
                g1 = call(smp_build, c, meta["conc"], mode, rng=rec)
                g2 = call(smp_build, c, meta["conc"], mode, rng=mkgen(kind, seed))
            a = np.atleast_1d(call(g1.sample, n))
            disturb_global()
            b = np.atleast_1d(call(g2.sample, n))
            v, ing, nb, _ = smp_project(c, meta["conc"], a.ravel().tolist())
            us = rec.got if len(rec.got) == a.size and kind != "seed" else None
            pts, mono = [], True
            for q in range(a.size):
                if us is None:
                    uc = "edge"
                else:
                    u = Fr(us[q])
                    uc = "tab" if u >= first + TOL_BOX else "below" if u < first - TOL_BOX else "edge"
                pts.append({"uc": uc, "ing": ing[q], "nb": nb[q]})
            if us is not None:
                order = sorted(range(a.size), key=lambda q: (us[q], q))
                unit, off = SCONC[meta["conc"]]
                tol = float(Fr(16, 2 ** 52) * smp_scale(c, off)) * unit
                vals = [float(a.ravel()[q]) for q in order]
                mono = all(vals[q] <= vals[q + 1] + tol for q in range(len(vals) - 1))
            o.update(err="none", cnt=int(a.size), pts=pts, mono=bool(mono), repro=same_arrays([a], [b]))
            raw.append({"vals": a.ravel().tolist()[:8], "us": None if us is None else us[:8]})
        except Exception as e:  # noqa
            o.update(err=errname(e), cnt=0, pts=[], mono=True, repro=True)
            raw.append(repr(e))
        obs.append(o)
    return obs, raw


# ---------------------------------------------------------------------------------
# wld : sessions over two Generator objects of twin densities in ONE (fresh) process
class _Dens(object):
    """a density object: the table is instance state, the methods are shared by all instances"""

    def __init__(self, table, unit, off):
        self.table, self.unit, self.off = table, unit, off

    def prob(self, t):
        r = np.array([self.table[int(round(float(v) / self.unit - self.off))] for v in np.atleast_1d(t)], dtype="f8")
        return r if np.ndim(t) else float(r[0])

    def __call__(self, t):
        return self.prob(t)


def _mk_lambda(d):
    return lambda t: d.prob(t)            # one code object, the parameters live in the closure


def wld_density(form, x, p, unit, off):
    d = _Dens(dict(zip(x, [float(t) for t in p])), unit, off)
    if form == "bound":
        return d.prob
    if form == "bound_call":
        return d.__call__
    if form == "lambda":
        return _mk_lambda(d)
    if form == "closure":
        def pofx(t):
            return d.prob(t)
        return pofx
    if form == "table":
        return np.array(p, dtype="f8")
    raise MachineryError("unknown hand-over form " + form)


def wld_session(c, meta):
    """executes the whole session; returns (calls, raw) - runs in a process of its own"""
    import esutil.random as er
    unit, off = SCONC[meta["conc"]]
    us = [float(Fr(n, d)) for n, d in c["us"]]
    xs = np.array([(t + off) * unit for t in c["x"]], dtype="f8")        # ONE grid object for both generators
    dens = {1: c["pa"], 2: c["pb"]}
    gens, last, calls, raw = {}, {}, [], []
    for st in c["sched"]:
        k = int(st[1])
        if st[0] == "B":
            f = wld_density(c["form"], c["x"], dens[k], unit, off)
            gens[k] = call(er.Generator, f, x=xs, cumulative=(c["kind"] == "cumulative"), rng=StubRNG(uniform_values=us))
        elif st[0] == "S":
            vals = call(gens[k].sample, len(us))
            last[k] = vals
            flat = np.atleast_1d(vals).ravel()
            v, ing, nb, mono = smp_project({"kind": c["kind"], "x": c["x"], "p": dens[k]}, meta["conc"], flat.tolist())
            calls.append({"err": "none", "cnt": int(flat.size), "v": v, "ing": ing, "nb": nb, "mono": mono})
            raw.append([st, [float(t) for t in flat]])
        else:                                   # the caller overwrites the array it was handed
            a = last.get(k)
            if isinstance(a, np.ndarray) and a.flags.writeable:
                a[...] = -777.0
    return calls, raw


def in_child(fn, *a):
    """run fn(*a) in a forked child (a fresh world for process-level state) and return its result"""
    import os
    import pickle
    r, w = os.pipe()
    pid = os.fork()
    if pid == 0:
        code = 0
        try:
            os.close(r)
            try:
                out = ("ok", fn(*a))
            except MachineryError as e:
                out = ("mach", str(e))
            except Exception as e:  # noqa
                out = ("err", errname(e), repr(e))
            with os.fdopen(w, "wb") as fh:
                pickle.dump(out, fh)
        except BaseException:  # noqa
            code = 1
        os._exit(code)
    os.close(w)
    with os.fdopen(r, "rb") as fh:
        data = fh.read()
    _, status = os.waitpid(pid, 0)
    if status != 0 or not data:
        raise MachineryError("session child failed (status %s)" % status)
    return pickle.loads(data)


def ob_wld(c, meta):
    """the whole session in one process: a forked child of its own (fresh world) when meta["fresh"] (replays and the
    confirmation of rejected sessions), else the worker process as it is (its earlier sessions are part of the world)"""
    import esutil.random  # noqa  (imported - not used - before the fork: the child need not import it again)
    import scipy.integrate  # noqa
    if meta.get("fresh", True):
        out = in_child(wld_session, c, meta)
    else:
        try:
            out = ("ok", wld_session(c, meta))
        except MachineryError:
            raise
        except Exception as e:  # noqa
            out = ("err", errname(e), repr(e))
    o = {"k": 1, "form": c["form"]}
    if out[0] == "mach":
        raise MachineryError(out[1])
    if out[0] == "ok":
        o.update(err="none", calls=out[1][0])
        raw = out[1][1]
    else:
        o.update(err=out[1], calls=[])
        raw = out[2]
    return [o], [raw]


# ---------------------------------------------------------------------------------
# chol : Cholesky sampler with a recording deviate source
class DeviateRecorder(object):
    def __init__(self, pool, zunit):
        self.pool, self.zunit, self.pos, self.drawn = pool, zunit, 0, []

    def __call__(self, *dims, **kw):
        if kw:
            raise StubUnsupported("dist(**%s)" % sorted(kw))
        if len(dims) == 1 and isinstance(dims[0], (tuple, list)):
            dims = tuple(dims[0])
        dims = tuple(int(d) for d in dims)
        n = int(np.prod(dims)) if dims else 1
        vals = [self.pool[(self.pos + i) % len(self.pool)] for i in range(n)]
        self.pos += n
        self.drawn.extend(vals)
        a = np.array([v * self.zunit for v in vals], dtype="f8")
        return a.reshape(dims) if dims else float(a[0])


def ob_chol(c, meta):
    import esutil.random as er
    s, zunit = CCONC[meta["conc"]]
    npar = len(c["L"])
    cov = np.array(c["sigma"], dtype="f8") * (s * s)
    obs, raw = [], []
    for k, entry in enumerate(meta["entries"], 1):
        o = {"k": k, "entry": entry}
        rec = DeviateRecorder(c["pool"], zunit)
        mean = np.array([m * s * zunit for m in c["mean"]], dtype="f8")
        try:
            if entry == "class":
                res = call(call(er.CholeskySampler, mean, cov, dist=rec).sample, c["n"])
            elif entry == "class_scalar":
                res = call(call(er.CholeskySampler, mean, cov, dist=rec).sample)
            elif entry == "func":
                res = call(er.cholesky_sample, cov, c["n"], means=mean, dist=rec)
            elif entry == "func_nomean":
                res = call(er.cholesky_sample, cov, c["n"], dist=rec)
            else:
                raise MachineryError("unknown entry " + entry)
            res = np.asarray(res)
            rows = res.reshape(1, -1) if res.ndim == 1 else res.reshape(res.shape[0], -1)
            mscale = max([abs(m) for m in c["mean"]] + [1])
            lscale = sum(max(abs(t) for t in row) for row in c["L"]) * max(abs(z) for z in c["pool"] + [1])
            scale = 4 * (mscale + lscale * npar)
            o.update(err="none", shape=[int(t) for t in res.shape], drawn=[int(z) for z in rec.drawn],
                     s=[[rat_real(t, scale, div=Fr(s) * Fr(zunit), den_bound=2 ** 10) for t in row] for row in rows.tolist()])
            raw.append(res.tolist())
        except MachineryError:
            raise
        except Exception as e:  # noqa
            o.update(err=errname(e), shape=[], drawn=[], s=[])
            raw.append(repr(e))
        obs.append(o)
    return obs, raw


# ---------------------------------------------------------------------------------
# idx : random index selection
def ob_idx(c, meta):
    import esutil.random as er
    obs, raw = [], []

    def one(src, seed):
        if src == "seed":
            return call(er.random_indices, c["imax"], c["n"], unique=c["unique"], seed=seed)
        return call(er.random_indices, c["imax"], c["n"], unique=c["unique"], rng=mkgen(src, seed))

    def ints(a):
        a = np.atleast_1d(np.asarray(a)).ravel()
        return [int(t) if float(t) == int(t) else -1 for t in a.tolist()]
    for k, src in enumerate(meta["srcs"], 1):
        o = {"k": k, "src": src}
        try:
            a = one(src, meta["seed"] + k)
            disturb_global()
            b = one(src, meta["seed"] + k)
            o.update(err="none", vals=ints(a), again=ints(b))
            raw.append(np.asarray(a).tolist())
        except Exception as e:  # noqa
            o.update(err=errname(e), vals=[], again=[])
            raw.append(repr(e))
        obs.append(o)
    return obs, raw


# ---------------------------------------------------------------------------------
# projections on the sphere
def cls(v, lo, hi, tol):
    if v is None:
        return "nan"
    return "lo" if v < lo - tol else "hi" if v > hi + tol else "in"


def fr_or_none(t):
    try:
        f = float(t)
    except (TypeError, ValueError):
        return None
    return Fr(f) if math.isfinite(f) else None


OFFP = {"on": False, "a": 0, "blo": 0, "bhi": 0}


def eproj(v, eps, tol):
    if v is None:
        return dict(OFFP)
    on, a, blo, bhi = sl.project_gc(v, eps, tol)
    # lattice values are a + b*eps with SMALL b (|b|*eps < 1/2 makes <<a,b>> unique and the spec's
    # lexicographic comparison valid); anything else is a generic number, judged through its classes
    if not on or abs(a) > 10 ** 6 or max(abs(blo), abs(bhi)) > BMAX:
        return dict(OFFP)
    return {"on": True, "a": int(a), "blo": int(blo), "bhi": int(bhi)}


def xyz_to_lonlat(x, y, z):
    L = np.longdouble
    x, y, z = (np.asarray(t, dtype="f8").astype(L) for t in (x, y, z))
    r2d = L(180) / sl._ld_pi()
    lon = np.arctan2(y, x) * r2d
    lon = np.where(lon < 0, lon + 360, lon)
    lat = np.arctan2(z, np.sqrt(x * x + y * y)) * r2d
    nrm = np.sqrt(x * x + y * y + z * z)
    return lon, lat, nrm


# ---------------------------------------------------------------------------------
# box : coords.randsphere
BOX_T = [(a, b) for a in (0, 1, 2) for b in (0, 1, 2)]      # t codes (ra, v): low, middle, just below high


def box_floats(c, meta):
    if meta.get("generic"):
        return [float.fromhex(t) for t in meta["box"]]
    eps = sl.EPS[meta["eps"]]
    return [float(sl.eangle(c[k], eps)) for k in ("ra0", "ra1", "dec0", "dec1")]


def ob_box(c, meta):
    import esutil.coords as co
    ra0, ra1, dec0, dec1 = box_floats(c, meta)
    eps = sl.EPS[meta["eps"]]
    n = c["n"]
    obs, raw = [], []

    def gen(src):
        if src == "stub":
            return StubRNG(uniform_codes=[[t[0] for t in BOX_T], [t[1] for t in BOX_T]])
        return mkgen(src, meta["seed"])
    for k, (src, system) in enumerate(meta["variants"], 1):
        o = {"k": k, "src": src, "system": system}
        try:
            kw = {}
            if not (meta.get("defaults") and (ra0, ra1, dec0, dec1) == (0.0, 360.0, -90.0, 90.0) and k % 2 == 0):
                kw = dict(ra_range=[ra0, ra1], dec_range=[dec0, dec1])
            a = call(co.randsphere, n, system=system, rng=gen(src), **kw)
            disturb_global()
            b = call(co.randsphere, n, system=system, rng=gen(src), **kw)
            a = [np.atleast_1d(np.asarray(t)) for t in a]
            unit = True
            if system == "xyz":
                lon, lat, nrm = xyz_to_lonlat(*a)
                unit = bool(np.all(np.abs(nrm - 1) <= 1e-12))
                lonF = [None if not np.isfinite(t) else sl.ld_fraction(t) for t in lon]
                latF = [None if not np.isfinite(t) else sl.ld_fraction(t) for t in lat]
            else:
                lonF = [fr_or_none(t) for t in a[0]]
                latF = [fr_or_none(t) for t in a[1]]
            pts = []
            for lo, la in zip(lonF, latF):
                lonb = cls(lo, Fr(ra0), Fr(ra1), TOL_BOX)
                if system == "xyz" and lo is not None and lonb != "in":
                    # a direction has no preferred multiple of 360 degrees, and no longitude at a pole
                    alt = [cls(lo + s, Fr(ra0), Fr(ra1), TOL_BOX) for s in (-360, 360)]
                    if "in" in alt or (la is not None and abs(la) > 90 - TOL_CAP):
                        lonb = "in"
                pts.append({"lonb": lonb, "latb": cls(la, Fr(dec0), Fr(dec1), TOL_BOX),
                            "lon360": cls(lo, Fr(0), Fr(360), 0), "lat90": cls(la, Fr(-90), Fr(90), 0),
                            "lonv": eproj(lo, eps, TOL_BOX) if system == "eq" and not meta.get("generic") else dict(OFFP),
                            "latv": eproj(la, eps, TOL_BOX) if system == "eq" and not meta.get("generic") else dict(OFFP)})
            o.update(err="none", cnt=[int(t.size) for t in a], pts=pts, unit=unit, repro=same_arrays(a, b))
            raw.append([t.tolist()[:12] for t in a])
        except Exception as e:  # noqa
            o.update(err=errname(e), cnt=[], pts=[], unit=True, repro=True)
            raw.append(repr(e))
        obs.append(o)
    return obs, raw


# ---------------------------------------------------------------------------------
# cap : coords.randcap
CAP_DRAWS = [{"ui": u, "pi": p} for u in (0, 1, 2) for p in (0, 1, 2, 3)]
PSI_CODE = (0, 3, 1, 4)            # t codes of the stub for psi/(2 pi) = 0, 1/4, 1/2, 3/4


def cap_floats(c, meta):
    if meta.get("generic"):
        return [float.fromhex(t) for t in meta["cap"]]
    eps = sl.EPS[meta["eps"]]
    return [float(sl.eangle(c[k], eps)) for k in ("lon", "lat", "r")]


def ob_cap(c, meta):
    import esutil.coords as co
    ra, dec, rad = cap_floats(c, meta)
    eps = sl.EPS[meta["eps"]]
    n = c["n"]
    generic = bool(meta.get("generic"))
    obs, raw = [], []

    def gen(src):
        if src == "stub":
            return StubRNG(random_codes=[d["ui"] for d in CAP_DRAWS], uniform_codes=[[PSI_CODE[d["pi"]] for d in CAP_DRAWS]])
        return mkgen(src, meta["seed"])
    for k, (src, getrad) in enumerate(meta["variants"], 1):
        o = {"k": k, "src": src, "getrad": bool(getrad)}
        try:
            kw = {"dorot": True} if c["dorot"] else ({} if k % 2 else {"dorot": False})
            a = call(co.randcap, n, ra, dec, rad, get_radius=bool(getrad), rng=gen(src), **kw)
            disturb_global()
            b = call(co.randcap, n, ra, dec, rad, get_radius=bool(getrad), rng=gen(src), **kw)
            a = [np.atleast_1d(np.asarray(t)) for t in a]
            sep = sl.sep_ld(np.full(a[0].shape, ra), np.full(a[0].shape, dec), a[0], a[1]) if a[0].size == a[1].size else None
            pts = []
            rF = Fr(rad)
            for q in range(a[0].size if sep is not None else 0):
                lo, la = fr_or_none(a[0][q]), fr_or_none(a[1][q])
                s = sl.ld_fraction(sep[q]) if np.isfinite(sep[q]) else None
                w = "nan" if s is None else "in" if s <= rF - TOL_CAP else "out" if s > rF + TOL_CAP else "edge"
                pt = {"lon360": cls(lo, Fr(0), Fr(360), 0), "lat90": cls(la, Fr(-90), Fr(90), 0), "w": w,
                      "sv": dict(OFFP) if generic else eproj(s, eps, TOL_CAP), "rq": "none", "rv": dict(OFFP)}
                if getrad and len(a) > 2 and a[2].size == a[0].size:
                    rr = fr_or_none(a[2][q])
                    pt["rq"] = "nan" if rr is None or s is None else "eq" if abs(rr - s) <= TOL_CAP else "ne"
                    pt["rv"] = dict(OFFP) if generic else eproj(rr, eps, TOL_CAP)
                elif getrad:
                    pt["rq"] = "nan"
                pts.append(pt)
            o.update(err="none", cnt=[int(t.size) for t in a], nret=len(a), pts=pts, repro=same_arrays(a, b))
            raw.append({"out": [t.tolist()[:40] for t in a], "sep": [] if sep is None else [float(t) for t in sep[:40]]})
        except Exception as e:  # noqa
            o.update(err=errname(e), cnt=[], nret=0, pts=[], repro=True)
            raw.append(repr(e))
        obs.append(o)
    return obs, raw


# ---------------------------------------------------------------------------------
# scale : large draws, observed as the summaries Sampler.tla section 7 judges
def ob_idxs(c, meta):
    import esutil.random as er
    o = {"k": 1, "src": meta["src"]}
    try:
        a = np.atleast_1d(call(er.random_indices, c["imax"], c["n"], unique=c["unique"], rng=mkgen(meta["src"], meta["seed"])))
        disturb_global()
        b = np.atleast_1d(call(er.random_indices, c["imax"], c["n"], unique=c["unique"], rng=mkgen(meta["src"], meta["seed"])))
        integral = a.dtype.kind in "iu" or bool(np.all(a == np.floor(a)))
        o.update(err="none", cnt=int(a.size), min=int(np.floor(a.min())) if a.size else 0,
                 max=(int(np.ceil(a.max())) if integral else c["imax"]) if a.size else 0,
                 nd=int(np.unique(a).size), repro=same_arrays([a], [b]))
        raw = {"first": a[:8].tolist(), "dtype": str(a.dtype)}
    except Exception as e:  # noqa
        o.update(err=errname(e), cnt=0, min=0, max=0, nd=0, repro=True)
        raw = repr(e)
    return [o], [raw]


def blocks_of(n):
    return [(b, min(b + SCALE_BLOCK, n)) for b in range(0, n, SCALE_BLOCK)] or [(0, 0)]


def ob_caps(c, meta):
    import esutil.coords as co
    ra, dec, rad = (float.fromhex(t) for t in meta["cap"])
    o = {"k": 1, "src": meta["src"], "getrad": c["getrad"]}
    try:
        kw = {"dorot": True} if meta["dorot"] else {}
        a = call(co.randcap, c["n"], ra, dec, rad, get_radius=bool(c["getrad"]), rng=mkgen(meta["src"], meta["seed"]), **kw)
        a = [np.atleast_1d(np.asarray(t)) for t in a]
        m = min(t.size for t in a)
        L = np.longdouble
        tol = L(1) / L(10 ** 9)
        blocks, worst = [], {"sep_over_r": 0.0, "rad_minus_sep": 0.0}
        for b0, b1 in blocks_of(m):
            lon, lat = a[0][b0:b1], a[1][b0:b1]
            sep = sl.sep_ld(np.full(lon.shape, ra), np.full(lon.shape, dec), lon, lat)
            blk = {"n": int(b1 - b0), "lon_range": int(np.sum(~((lon >= 0.0) & (lon <= 360.0)))),
                   "lat_range": int(np.sum(~((lat >= -90.0) & (lat <= 90.0)))),
                   "within": int(np.sum(~(sep <= L(rad) + tol))), "radius_eq_sep": 0}
            if c["getrad"] and len(a) > 2:
                dev = np.abs(a[2][b0:b1].astype(L) - sep)
                blk["radius_eq_sep"] = int(np.sum(~(dev <= tol)))
                if dev.size:
                    worst["rad_minus_sep"] = max(worst["rad_minus_sep"], float(np.nanmax(dev)))
            elif c["getrad"]:
                blk["radius_eq_sep"] = blk["n"]
            if sep.size:
                worst["sep_over_r"] = max(worst["sep_over_r"], float(np.nanmax(sep)) / rad)
            blocks.append(blk)
        o.update(err="none", nret=len(a), cnt=[int(t.size) for t in a], blocks=blocks)
        raw = dict(worst, bad_blocks=[i for i, b in enumerate(blocks) if any(b[k] for k in b if k != "n")], nblocks=len(blocks))
    except Exception as e:  # noqa
        o.update(err=errname(e), nret=0, cnt=[], blocks=[])
        raw = repr(e)
    return [o], [raw]


def ob_boxs(c, meta):
    import esutil.coords as co
    ra0, ra1, dec0, dec1 = (float.fromhex(t) for t in meta["box"])
    o = {"k": 1, "src": meta["src"], "system": meta["system"]}
    try:
        a = call(co.randsphere, c["n"], ra_range=[ra0, ra1], dec_range=[dec0, dec1], system=meta["system"],
                 rng=mkgen(meta["src"], meta["seed"]))
        a = [np.atleast_1d(np.asarray(t)) for t in a]
        m = min(t.size for t in a)
        unit, blocks = True, []
        for b0, b1 in blocks_of(m):
            if meta["system"] == "xyz":
                lon, lat, nrm = xyz_to_lonlat(*(t[b0:b1] for t in a))
                unit = unit and bool(np.all(np.abs(nrm - 1) <= 1e-12))
            else:
                lon, lat = a[0][b0:b1], a[1][b0:b1]
            t12 = 1e-12
            blocks.append({"n": int(b1 - b0), "lon_in_box": int(np.sum(~((lon >= ra0 - t12) & (lon <= ra1 + t12)))),
                           "lat_in_box": int(np.sum(~((lat >= dec0 - t12) & (lat <= dec1 + t12)))),
                           "lon_range": int(np.sum(~((lon >= 0) & (lon <= 360)))),
                           "lat_range": int(np.sum(~((lat >= -90) & (lat <= 90))))})
        o.update(err="none", cnt=[int(t.size) for t in a], blocks=blocks, unit=unit)
        raw = {"bad_blocks": [i for i, b in enumerate(blocks) if any(b[k] for k in b if k != "n")], "nblocks": len(blocks)}
    except Exception as e:  # noqa
        o.update(err=errname(e), cnt=[], blocks=[], unit=True)
        raw = repr(e)
    return [o], [raw]


def ob_smps(c, meta):
    o = {"k": 1, "src": meta["src"], "mode": meta["mode"]}
    try:
        rec = RecordingRNG(mkgen(meta["src"], meta["seed"]))
        g = call(smp_build, c, meta["conc"], meta["mode"], rng=rec)
        a = np.atleast_1d(call(g.sample, c["n"])).ravel()
        us = rec.array()
        unit, off = SCONC[meta["conc"]]
        tol = float(Fr(16, 2 ** 52) * smp_scale(c, off)) * unit
        xs = [(t + off) * unit for t in smp_xs(c)]
        first = float(Fr(*meta["first"]))
        if us.size == a.size:
            tab, below = us >= first + 1e-12, us < first - 1e-12
            ingbad = int(np.sum(tab & ~((a >= xs[0] - tol) & (a <= xs[-1] + tol))))
            belowbad = int(np.sum(below & ~(a <= xs[meta["lr"] - 1] + tol)))
            order = np.lexsort((a, us))
            v = a[order]
            mono = bool(np.all(v[:-1] <= v[1:] + tol)) if v.size > 1 else True
        else:                                   # no handle on the deviates: only the count is judged
            ingbad, belowbad, mono = 0, 0, True
        o.update(err="none", cnt=int(a.size), ingbad=ingbad, belowbad=belowbad, mono=mono)
        raw = {"first": a[:6].tolist(), "deviates_seen": int(us.size)}
    except Exception as e:  # noqa
        o.update(err=errname(e), cnt=0, ingbad=0, belowbad=0, mono=True)
        raw = repr(e)
    return [o], [raw]


def work_scale(exp, ctx, start):
    """the exported scale cases; quick takes a covering subset (every size, both paths / sources / options at least once)"""
    W = []
    caps = sorted((x for x in exp if x["op"] == "caps"), key=lambda x: (x["n"], x["rot"], x["getrad"], x["src"]))
    boxs = sorted((x for x in exp if x["op"] == "boxs"), key=lambda x: (x["n"], x["system"], x["src"]))
    rest = sorted((x for x in exp if x["op"] in ("idxs", "smps")), key=lambda x: json_key(x))
    if ctx.quick:
        ns = sorted({x["n"] for x in caps})
        pick = []
        for i, n in enumerate(ns):
            pick += [x for x in caps if x["n"] == n and x["getrad"] and x["rot"] == bool(i % 2) and x["src"] == ("legacy", "generator")[i % 2]]
        big = ns[-1]
        pick += [x for x in caps if x["n"] == big and x["getrad"] and x["rot"] != bool((len(ns) - 1) % 2) and x["src"] == "legacy"]
        caps = pick
        boxs = [x for x in boxs if x["n"] == big and (x["system"], x["src"]) in (("eq", "legacy"), ("xyz", "generator"))]
        rest = [x for x in rest if x["op"] == "idxs" or x["src"] == "legacy"]
    for i, x in enumerate(caps + boxs + rest):
        seed = ctx.seed * 86028121 + 7 * i + 1
        if x["op"] == "caps":
            polar = x["rot"] and x["src"] == "generator"          # rotated: forced by dorot, or chosen by a polar centre
            cap = (30.0, 89.95, 2.5) if polar else (217.3, -41.7, 2.5)
            W.append((start + len(W) + 1, "caps", {"n": x["n"], "getrad": x["getrad"]},
                      {"src": x["src"], "seed": seed, "cap": [float(t).hex() for t in cap], "dorot": x["rot"] and not polar,
                       "rot": x["rot"]}))
        elif x["op"] == "boxs":
            W.append((start + len(W) + 1, "boxs", {"n": x["n"]},
                      {"src": x["src"], "seed": seed, "system": x["system"], "box": [float(t).hex() for t in (200.0, 220.0, 18.0, 25.0)]}))
        elif x["op"] == "idxs":
            W.append((start + len(W) + 1, "idxs", {"imax": x["imax"], "n": x["n"], "unique": x["unique"]},
                      {"src": x["src"], "seed": seed}))
        else:
            c = {"kind": x["kind"], "x": x["x"], "p": x["p"], "n": x["n"]}
            mode = ("table" if x["src"] == "legacy" else "func_x") if x["kind"] == "density" else \
                   ("cum_table" if x["src"] == "legacy" else "cum_func")
            W.append((start + len(W) + 1, "smps", c, {"src": x["src"], "seed": seed, "conc": i % len(SCONC), "mode": mode,
                                                       "first": x["first"], "lr": x["lr"]}))
    return W


def json_key(x):
    import json
    return json.dumps(x, sort_keys=True)


OBSERVERS = {"smp": ob_smp, "smpr": ob_smpr, "chol": ob_chol, "idx": ob_idx, "box": ob_box, "cap": ob_cap,
             "wld": ob_wld, "idxs": ob_idxs, "caps": ob_caps, "boxs": ob_boxs, "smps": ob_smps}


def observe(item):
    if item is None:                 # (padding that makes the fork pool take the few heavy scale cases in parallel)
        return None
    rid, op, c, meta = item
    obs, raw = OBSERVERS[op](c, meta)
    skipped = [o for o in obs if o["err"] == "StubUnsupported"]
    obs = [o for o in obs if o["err"] != "StubUnsupported"]
    return {"id": rid, "op": op, "c": c, "obs": obs, "meta": meta, "raw": raw, "unsupported": len(skipped)}


# ---------------------------------------------------------------------------------
# work lists
def work_from_export(exp, ctx):
    quick, seed = ctx.quick, ctx.seed
    W = []

    def add(op, c, meta):
        W.append((len(W) + 1, op, c, meta))
    for i, c0 in enumerate(exp["SMP"]):
        c = {"kind": c0["kind"], "x": c0["x"], "p": c0["p"], "us": c0["us"]}
        add("smp", c, {"conc": i % len(SCONC), "modes": smp_modes(c, i)})
        if len(c0["cum"]) >= 2 and i % (3 if quick else 2) == 0:
            kinds = ([("legacy", "table"), ("generator", "func_x"), ("seed", "table")] if c["kind"] == "density" else
                     [("legacy", "cum_table"), ("generator", "cum_func"), ("seed", "cum_table")])
            add("smpr", {"kind": c["kind"], "x": c["x"], "p": c["p"], "cum": c0["cum"], "n": 48},
                {"conc": (i + 1) % len(SCONC), "kinds": kinds, "seed": seed * 100003 + i})
    # sessions: quick takes a third of the (pair x form x session) product - every pair of twin tables still runs
    # through 3-4 of its 10 (form, session) combinations
    for i, c0 in enumerate(sorted(exp.get("WLD", []), key=json_key)):
        if not quick or i % 3 == 0:
            add("wld", c0, {"conc": i % len(SCONC), "fresh": False})
    for i, c0 in enumerate(exp["CHOL"]):
        add("chol", c0, {"conc": i % NBASE, "entries": ["class", "func", "func_nomean", "class_scalar"]})
        # the same case transported along the scale ladder (law CholThmScale); both entry points that factorise
        if not quick or i % 2 == 0:
            add("chol", c0, {"conc": NBASE + (i // 2 + i // (2 * len(CLADDER))) % len(CLADDER), "entries": ["class", "func"]})
    for i, c0 in enumerate(exp["IDX"]):
        add("idx", c0, {"srcs": ["seed", "generator", "legacy"], "seed": seed * 7919 + 31 * i})
    for i, c0 in enumerate(exp["BOX"]):
        e = BOX_EPS[i % len(BOX_EPS)]
        add("box", dict(c0, n=len(BOX_T)), {"eps": e, "variants": [("stub", "eq"), ("stub", "xyz")], "seed": 0})
        if not quick or i % 2 == 0:
            add("box", dict(c0, n=40), {"eps": e, "variants": [("legacy", "eq"), ("generator", "eq"), ("generator", "xyz")],
                                        "seed": seed * 104729 + i, "defaults": True})
    for i, c0 in enumerate(exp["CAP"]):
        c = {"lon": c0["lon"], "lat": c0["lat"], "r": c0["r"], "dorot": c0["dorot"], "generic": False}
        e = CAP_EPS[i % len(CAP_EPS)]
        draws = [d for d in CAP_DRAWS]
        add("cap", dict(c, n=len(draws), getrad=True, draws=draws), {"eps": e, "variants": [("stub", True)], "seed": 0,
                                                                      "exp": c0["exp"], "rot": c0["rot"]})
        add("cap", dict(c, n=len(draws), getrad=False, draws=draws), {"eps": e, "variants": [("stub", False)], "seed": 0,
                                                                       "rot": c0["rot"]})
        if not quick or i % 2 == 0:
            add("cap", dict(c, n=40, getrad=True, draws=[]), {"eps": e, "variants": [("legacy", True), ("generator", True)],
                                                               "seed": seed * 15485863 + i, "rot": c0["rot"]})
    return W


def lower(rng, n, lo, hi):
    return [[(rng.randint(1, 3) if i == j else rng.randint(lo, hi) if j < i else 0) for j in range(n)] for i in range(n)]


def work_seeded(ctx, start):
    """larger / generic cases (code -> spec only): 4x4 and 5x5 Cholesky factors, longer tables with u = j/32,
    generic centres, radii log-uniform over 1e-6..180 degrees, generic boxes"""
    rng = random.Random(ctx.seed * 2654435761 + 17)
    W = []
    nq = 1 if ctx.quick else 8

    def add(op, c, meta):
        W.append((start + len(W) + 1, op, c, meta))
    for i in range(60 * nq):
        n = rng.choice([4, 5])
        L = lower(rng, n, -2, 2)
        sig = [[sum(L[a][k] * L[b][k] for k in range(n)) for b in range(n)] for a in range(n)]
        ns = rng.choice([1, 2, 3, 7])
        pool = [rng.randint(-3, 3) for _ in range(n * ns + 4)] if i % 2 else [(-1) ** k * k for k in range(1, n * ns + 5)]
        add("chol", {"mean": [rng.randint(-4, 4) for _ in range(n)], "L": L, "sigma": sig, "n": ns, "pool": pool,
                     "entry": "class"}, {"conc": i % len(CCONC), "entries": ["class", "func", "func_nomean", "class_scalar"]})
    us32 = [[j // math.gcd(j, 32), 32 // math.gcd(j, 32)] for j in range(33)]
    # density values incl. 0 on 7-node grids: leading / trailing zeros, interior runs of 1, 2, 3, 4 zeros, two gaps,
    # all but one zero - as densities and, read as increments, as accumulated input
    ZPAT = [(0, 0, 1, 2, 1, 1, 1), (0, 0, 0, 1, 1, 2, 1), (0, 1, 1, 1, 1, 1, 1), (1, 2, 1, 1, 0, 0, 0), (1, 1, 1, 1, 1, 0, 0),
            (1, 1, 0, 1, 1, 1, 1), (1, 1, 0, 0, 1, 1, 1), (1, 1, 0, 0, 0, 1, 1), (1, 0, 0, 0, 0, 1, 1), (1, 0, 0, 1, 0, 0, 1),
            (2, 1, 0, 0, 3, 0, 0), (0, 0, 0, 1, 0, 0, 0), (0, 0, 0, 0, 0, 0, 1), (0, 0, 0, 0, 0, 1, 0), (1, 0, 0, 0, 0, 0, 0),
            (0, 1, 0, 0, 0, 0, 0), (0, 0, 1, 0, 0, 1, 0)]
    n = 0
    for x in ([0, 1, 2, 3, 4, 5, 6], [0, 1, 3, 4, 6, 7, 8]):
        for pat in ZPAT:
            for kind in ("density", "cumulative"):
                pp = list(pat) if kind == "density" else [sum(pat[:k + 1]) for k in range(len(pat))]
                if kind == "cumulative" and pp[-1] == 0:
                    continue
                c = {"kind": kind, "x": x, "p": pp, "us": us32}
                add("smp", c, {"conc": n % len(SCONC), "modes": smp_modes(c, 0)})
                n += 1
    for i in range(120 * nq):
        m = rng.choice([3, 4, 5, 6])
        x = sorted(rng.sample(range(0, 9), m))
        kind = ("density", "cumulative")[i % 2]
        p = [rng.choice([0, 0, 1, 2, 3, 5]) for _ in range(m)]
        if not any(p):
            p[rng.randrange(m)] = 1
        if kind == "cumulative":
            p = [sum(p[:k + 1]) for k in range(m)]
        c = {"kind": kind, "x": x, "p": p, "us": us32}
        add("smp", c, {"conc": i % len(SCONC), "modes": smp_modes(c, i)})
    placeholder = {"lon": [0, 0], "lat": [0, 0], "r": [180, 0], "generic": True, "draws": []}
    for i in range(400 * nq):
        ra = rng.choice([0.0, 359.9999999, 1e-7, 180.0, rng.uniform(0, 360), rng.uniform(0, 360)])
        dec = rng.choice([90.0, -90.0, 89.95, -89.95, 89.85, 0.0, math.degrees(math.asin(rng.uniform(-1, 1))),
                          math.degrees(math.asin(rng.uniform(-1, 1)))])
        rad = rng.choice([1e-6, 180.0, 10 ** rng.uniform(-6, math.log10(180)), 10 ** rng.uniform(-6, math.log10(180)),
                          10 ** rng.uniform(0, math.log10(180))])
        kind = ("legacy", "generator")[i % 2]
        add("cap", dict(placeholder, dorot=bool(i % 3 == 0), n=30, getrad=bool(i % 4)),
            {"eps": 2, "generic": True, "cap": [float(t).hex() for t in (ra, dec, rad)], "variants": [(kind, bool(i % 4))],
             "seed": ctx.seed * 32452843 + i, "rot": bool(i % 3 == 0) or abs(dec) >= 89.9})
    pbox = {"ra0": [0, 0], "ra1": [360, 0], "dec0": [-90, 0], "dec1": [90, 0]}
    for i in range(200 * nq):
        a, b = sorted([rng.choice([0.0, 360.0, rng.uniform(0, 360)]), rng.uniform(0, 360)])
        d0, d1 = sorted([rng.choice([-90.0, 90.0, rng.uniform(-90, 90), math.degrees(math.asin(rng.uniform(-1, 1)))]),
                         rng.uniform(-90, 90)])
        if i % 5 == 0:
            d1 = d0
        if i % 7 == 0:
            b = a
        if i % 6 == 0:                       # thin boxes hugging a pole
            s = rng.choice([-1, 1])
            d0, d1 = sorted([s * 90.0, s * (90.0 - 10 ** rng.uniform(-7, -1))])
        kind = ("legacy", "generator")[i % 2]
        add("box", dict(pbox, n=30), {"eps": 2, "generic": True, "box": [float(t).hex() for t in (a, b, d0, d1)],
                                      "variants": [(kind, "eq"), (kind, "xyz")], "seed": ctx.seed * 49979687 + i})
    return W


# ---------------------------------------------------------------------------------
# judging
def cap_triggers(rec, o, clause):
    """structural classes of the failing points of a cap observation (for the signature only): the
    configurations in which the spherical-triangle solution is singular or ill-conditioned, else the path"""
    bad = [q for q, pt in enumerate(o.get("pts", []))
           if (clause == "within" and pt["w"] not in ("in", "edge")) or (clause == "radius_eq_sep" and pt["rq"] != "eq")
           or (clause == "lon_range" and pt["lon360"] != "in") or (clause == "lat_range" and pt["lat90"] != "in")]
    raws = rec["raw"][o["k"] - 1]
    out = raws["out"] if isinstance(raws, dict) else []
    seps = raws["sep"] if isinstance(raws, dict) else []
    path = "rotated" if rec["meta"].get("rot") else "direct"
    draws = rec["c"].get("draws") or []
    r = cap_floats(rec["c"], rec["meta"])[2]
    trig = set()
    for q in bad:
        if len(out) < 2 or q >= len(out[0]) or q >= len(seps):
            trig.add(path)
            continue
        vals = [t[q] for t in out]
        rho = None if q >= len(draws) else r * (0.0, 0.5, 1.0)[draws[q]["ui"]]
        if not all(math.isfinite(v) for v in vals):
            trig.add("nan_output")
        elif min(seps[q], vals[2] if len(vals) > 2 else seps[q]) <= 0.0101 or seps[q] >= 179.99:
            trig.add("drawn_point_within_0.01deg_of_centre_or_antipode")
        elif abs(vals[1]) >= 89.999 or (path == "rotated" and rho is not None and draws[q]["pi"] in (0, 2) and abs(rho - 90) <= 1e-3):
            trig.add("drawn_point_within_0.001deg_of_pole")      # (of the computation about (90,0) on the rotated path)
        else:
            trig.add(path)
    return sorted(trig) or [path]


def box_trigger(rec):
    ra0, ra1, dec0, dec1 = box_floats(rec["c"], rec["meta"])
    return "box_edge_within_0.1deg_of_pole" if max(abs(dec0), abs(dec1)) >= 89.9 else "generic_box"


def signatures(rec, o, clause):
    op = rec["op"]
    if op in ("smp", "smpr"):
        klass = smp_class(rec["c"])
        raw = rec["raw"][o["k"] - 1] if o["k"] - 1 < len(rec["raw"]) else None
        if klass == "leading_flat" and isinstance(raw, list) and any(isinstance(t, float) and t != t for t in raw):
            # 0/0 on the zero-width first segment: one signature whatever clause / entry mode the nan trips
            return ["Generator.sample|nan_output|leading_flat"]
        return ["Generator.sample|%s|%s|%s" % (clause, o.get("mode", ""), klass)]
    if op == "wld":
        return ["Generator.sample|two_objects_one_process|%s|%s" % (clause, o.get("form", ""))]
    if op == "chol":
        cov = "cov_%s" % ("order_one" if rec["meta"]["conc"] < NBASE else "below_1e-7" if CCONC[rec["meta"]["conc"]][0] ** 2 < 1e-7 else
                          "scaled")
        return ["cholesky|%s|%s|%s" % (clause, o.get("entry", ""), cov)]
    if op == "idx":
        return ["random_indices|%s|%s|%s" % (clause, "unique" if rec["c"]["unique"] else "replace", o.get("src", ""))]
    if op == "box":
        trig = box_trigger(rec)
        if clause == "lat_in_box" and trig != "generic_box":
            return ["randsphere|lat_in_box|%s" % trig]
        return ["randsphere|%s|%s|%s" % (clause, o.get("system", ""), trig)]
    if op == "cap":
        path = "rotated" if rec["meta"].get("rot") else "direct"
        if clause not in ("within", "radius_eq_sep", "lon_range", "lat_range"):
            return ["randcap|%s|%s" % (clause, path)]
        out = []
        for trig in cap_triggers(rec, o, clause):
            if trig == "nan_output":            # one signature whatever clause the nan trips
                out.append("randcap|nan_output|drawn_point_at_pole")
            elif trig not in ("direct", "rotated"):
                out.append("randcap|%s|%s" % ("position" if clause in ("within", "radius_eq_sep") else clause, trig))
            else:
                out.append("randcap|%s|%s" % (clause, trig))
        return out
    if op == "idxs":
        return ["random_indices|%s|%s|%s|large_range" % (clause, "unique" if rec["c"]["unique"] else "replace", o.get("src", ""))]
    if op == "caps":
        return ["randcap|%s|%s|%s" % (clause, "rotated" if rec["meta"].get("rot") else "direct",
                                      "n>2^20" if rec["c"]["n"] > (1 << 20) else "n<=2^20_large")]
    if op == "boxs":
        return ["randsphere|%s|%s|large_n" % (clause, o.get("system", ""))]
    if op == "smps":
        return ["Generator.sample|%s|%s|large_n" % (clause, o.get("mode", ""))]
    return ["%s|%s" % (op, clause)]


NAMES = {"wld": "Generator.sample (session of two objects)", "smp": "Generator.sample", "smpr": "Generator.sample", "chol": "the Cholesky sampler", "idx": "random_indices",
         "box": "randsphere", "cap": "randcap", "idxs": "random_indices", "caps": "randcap", "boxs": "randsphere",
         "smps": "Generator.sample"}


def judge(ctx, recs, what, leads=None, cap_per_sig=4):
    rejects = tracecheck.validate(ctx, "SamplerTrace.tla",
                                  [{"id": r["id"], "op": r["op"], "c": r["c"], "obs": r["obs"]} for r in recs if r["obs"]],
                                  what=what)
    byid = {r["id"]: r for r in recs}
    emitted = {}
    # a session that ran in a worker's world (after that worker's earlier sessions) is a violation only if it is
    # rejected again when re-executed alone in a fresh process - which is what the replay file will do
    again = [rid for rid in sorted(rejects) if byid[rid]["op"] == "wld" and not byid[rid]["meta"].get("fresh", True)]
    if again:
        fresh = []
        for rid in again[:40]:
            r = byid[rid]
            fresh.append(observe((rid, "wld", r["c"], dict(r["meta"], fresh=True))))
        saved = ctx.traces
        rej2 = tracecheck.validate(ctx, "SamplerTrace.tla", [{"id": r["id"], "op": r["op"], "c": r["c"], "obs": r["obs"]} for r in fresh],
                                   what="re-judge rejected sessions re-executed in a fresh process", workers=1)
        ctx.traces = saved
        for r in fresh:
            byid[r["id"]] = r
        dropped = [rid for rid in again if rid not in rej2]          # (beyond the first 40: not re-executed, not reported)
        unconfirmed = [rid for rid in again[:40] if rid not in rej2]
        if unconfirmed and leads is not None:
            leads["lead_session_rejected_only_after_other_sessions_in_the_worker"] = len(unconfirmed)
        rejects = {rid: (rej2[rid] if rid in rej2 else v) for rid, v in rejects.items() if rid not in dropped}
    for rid in sorted(rejects):
        r = byid[rid]
        for cl, k in rejects[rid]:
            if cl in ("malformed_case", "unknown_op"):
                raise MachineryError("SamplerTrace rejected the case itself (%s): %s" % (cl, r["c"]))
            o = next(t for t in r["obs"] if t["k"] == k)
            if cl.startswith("lead_"):
                if leads is not None:
                    leads[cl] = leads.get(cl, 0) + 1
                continue
            for sig in signatures(r, o, cl):
                emitted[sig] = emitted.get(sig, 0) + 1
                if emitted[sig] > cap_per_sig:
                    continue
                ctx.violation(sig, "clause %s of Sampler.tla rejects what %s returned (observation %d: %s)" %
                              (cl, NAMES[r["op"]], k,
                               {kk: vv for kk, vv in o.items() if kk in ("mode", "kind", "entry", "src", "system", "getrad", "err", "form")}),
                              {"op": r["op"], "c": r["c"], "meta": r["meta"], "clause": cl, "k": k, "sig": sig,
                               "raw": r["raw"][k - 1] if k - 1 < len(r["raw"]) else None})
    return rejects, emitted


def kernel_cases(exp):
    out = []
    for i, c0 in enumerate(exp["CAP"]):
        for e in CAP_EPS:
            eps = sl.EPS[e]
            for x in c0["exp"][:: 3]:
                out.append(((sl.eangle(c0["lon"], eps), sl.eangle(c0["lat"], eps), sl.eangle(x["q"]["lon"], eps),
                             sl.eangle(x["q"]["lat"], eps)), sl.eangle(x["rho"], eps)))
    return out


def run(ctx):
    sl.self_validate()
    B = BOUNDS[ctx.tier]
    only = getattr(ctx, "only", None)
    fams = set(FAMILIES) if not only else (set(only) & set(FAMILIES)) or set(FAMILIES)
    consts = dict(B, Families=fams, DoExport=False, **MECH)
    # 1. theorems of the definitions + every mechanism refines them, exhaustively over the bounded spaces
    ctx.tlc("SamplerMC.tla", what="theorems + mechanisms refine the property (exhaustive)",
            cfg_text=cfg(constants=consts, invariants=INVARIANTS), workers=16,
            require=[a for a in ACTIONS if any(a.lower().startswith(f) for f in fams)], timeout=3000)
    # 1b. non-vacuity of the refinement checks: each deviating mechanism must violate its invariant
    small = dict(BOUNDS["quick"], DoExport=False, XVals={0, 1, 3, 4}, MaxNodes=4, PVals={0, 1}, UDen=4, CholMaxN=2, CholNs={2},
                 ZSels={1}, WldPVals={1, 2}, CholScaleKs={2}, CapLonCodes={ecode(10, 0)}, CapLatCodes={ecode(30, 0, 90)}, CapRadCodes={ecode(20, 0)})
    for fam, dev, inv in (("smp", {"XShift": 1}, "SmpMechRefines"), ("smp", {"Dedup": "unique_first"}, "SmpMechRefines"),
                          ("smp", {"Dedup": "none_strict"}, "SmpMechRefines"),
                          ("chol", {"Transposed": True}, "CholMechRefines"), ("cap", {"FixedRadius": False}, "CapMechRefines"),
                          ("chol", {"DiagTol": 1}, "CholScaleLaw"), ("wld", {"MemoKey": "func_only"}, "WldFreshWorld")):
        if fam not in fams:
            continue
        r = ctx.tlc("SamplerMC.tla", what="self-test: deviating %s mechanism %s violates %s" % (fam, dev, inv),
                    cfg_text=cfg(constants=dict(small, Families={fam}, **dict(MECH, **dev)), invariants=[inv]),
                    workers=1, allow_violation=True, coverage=False)
        if inv not in r.violated:
            raise MachineryError("self-test failed: %s not violated by the deviating mechanism %s" % (inv, dev))
    if "wld" in fams:      # ... and the faithful memo (keyed by function AND parameters) must satisfy the world invariant
        ctx.tlc("SamplerMC.tla", what="self-test: a memo keyed by function and parameters keeps WldFreshWorld",
                cfg_text=cfg(constants=dict(small, Families={"wld"}, **dict(MECH, MemoKey="full")), invariants=["WldFreshWorld"]),
                workers=1, coverage=False)
    # 2. export every case (spec -> code)
    r2 = ctx.tlc("SamplerMC.tla", what="export cases",
                 cfg_text=cfg(constants=dict(consts, DoExport=True), next_="NextExport", constraints=["Export"]),
                 workers=1, coverage=False, timeout=3000)
    exp = {t: r2.records.get(t, []) for t in ("SMP", "CHOL", "IDX", "BOX", "CAP", "SCALE", "WLD")}
    if "scale" in fams and len(exp["SCALE"]) < 10:
        raise MachineryError("too few scale cases exported (%d)" % len(exp["SCALE"]))
    for t, f in (("SMP", "smp"), ("CHOL", "chol"), ("IDX", "idx"), ("BOX", "box"), ("CAP", "cap"), ("WLD", "wld")):
        if f in fams and len(exp[t]) < 20:
            raise MachineryError("too few %s cases exported (%d)" % (t, len(exp[t])))
    # 2b. the projection kernel must reproduce the exact separations of the exported lattice expectations
    if "cap" in fams:
        nk, worst = sl.validate_kernel(kernel_cases(exp), [])
        ctx.note(kernel_validation={"cases": nk, "worst_deg": worst})
    # 3. execute (stub deviates + seeded real generators), then the larger seeded cases
    W = work_from_export(exp, ctx)
    n_exported = len(W)
    W += [w for w in work_seeded(ctx, len(W)) if w[1].rstrip("r") in fams or w[1] in fams]
    recs = pmap(observe, W, chunk=64)
    WS = work_scale(exp["SCALE"], ctx, len(W)) if "scale" in fams else []
    recs += pmap(observe, WS + [None] * max(0, 64 - len(WS)), chunk=1)[:len(WS)] if WS else []
    unsupported = sum(r["unsupported"] for r in recs)
    stubbed = sum(1 for r in recs for o in r["obs"] if o.get("src") == "stub" or r["op"] == "smp")
    if stubbed < 50 and fams == set(FAMILIES):
        raise MachineryError("the stub generators no longer fit the code's use of its generator (%d stub observations, "
                             "%d unsupported requests)" % (stubbed, unsupported))
    for r in recs:
        ctx.count({"op": r["op"], "c": r["c"], "m": {k: v for k, v in r["meta"].items() if k not in ("exp",)}})
        ctx.evaluations += max(0, len(r["obs"]) - 1)
    for op in ("smp", "chol", "cap", "box", "idx"):
        for r in recs:
            if r["op"] == op and r["obs"] and r["obs"][0]["err"] == "none":
                ctx.sample({"op": op, "case": {k: v for k, v in r["c"].items() if k != "draws"}, "meta": {k: v for k, v in r["meta"].items() if k != "exp"},
                            "returned": r["raw"][0] if not isinstance(r["raw"][0], dict) else r["raw"][0]["out"]})
                break
    # 4. TLC judges (code -> spec)
    leads = {}
    rej, emitted = judge(ctx, recs, "judge replayed + seeded cases (SamplerTrace)", leads)
    # 5. binding self-test: corrupted observations must be rejected, their untouched twins accepted
    probes = []

    def twin(op, mutate, need):
        for r in recs:
            if r["op"] == op and r["id"] not in rej and r["obs"] and need(r):
                o = r["obs"][0]
                bad = mutate(r, o)
                if bad is not None:
                    probes.append({"id": len(probes) + 1, "op": op, "c": r["c"], "obs": [bad]})
                    probes.append({"id": len(probes) + 1, "op": op, "c": r["c"], "obs": [o]})
                    return
    def m_smp(r, o):
        q = len(o["v"]) - 1                 # u = 1: the last grid point
        if o["v"][q]["k"] != "rat":
            return None
        v = [dict(t) for t in o["v"]]
        v[q]["n"] += 1
        return dict(o, v=v)
    def m_chol(r, o):
        s = [[dict(t) for t in row] for row in o["s"]]
        s[0][0]["n"] += s[0][0]["d"]
        return dict(o, s=s)
    def m_idx(r, o):
        return dict(o, vals=[o["vals"][0]] + o["vals"][:-1]) if r["c"]["unique"] and len(o["vals"]) >= 2 else None
    def m_cap(r, o):
        pts = [dict(t) for t in o["pts"]]
        pts[-1]["rq"] = "ne"
        return dict(o, pts=pts)
    def m_box(r, o):
        pts = [dict(t) for t in o["pts"]]
        pts[0]["latb"] = "hi"
        return dict(o, pts=pts)
    if "smp" in fams:
        twin("smp", m_smp, lambda r: len(r["c"]["x"]) >= 3 and smp_class(r["c"]) == "strictly_increasing" and
             r["obs"][0]["err"] == "none")
    def m_wld(r, o):
        calls = [dict(t) for t in o["calls"]]
        v = [dict(t) for t in calls[-1]["v"]]
        if v[-1]["k"] != "rat":
            return None
        v[-1]["n"] += v[-1]["d"]
        calls[-1]["v"] = v
        return dict(o, calls=calls)
    if "wld" in fams:
        twin("wld", m_wld, lambda r: r["obs"][0]["err"] == "none" and r["obs"][0]["calls"] and all(
            smp_class({"kind": r["c"]["kind"], "p": r["c"][t]}) == "strictly_increasing" for t in ("pa", "pb")))
    if "chol" in fams:
        twin("chol", m_chol, lambda r: r["obs"][0]["err"] == "none")
    if "idx" in fams:
        twin("idx", m_idx, lambda r: r["obs"][0]["err"] == "none")
    if "cap" in fams:
        twin("cap", m_cap, lambda r: r["c"]["getrad"] and r["obs"][0]["err"] == "none" and r["obs"][0]["pts"])
    if "scale" in fams:
        twin("caps", lambda r, o: dict(o, blocks=[dict(o["blocks"][0], within=1)] + o["blocks"][1:]),
             lambda r: r["obs"][0]["err"] == "none" and r["obs"][0]["blocks"])
        twin("idxs", lambda r, o: dict(o, nd=o["nd"] - 1), lambda r: r["c"]["unique"] and r["obs"][0]["err"] == "none")
    if "box" in fams:
        twin("box", m_box, lambda r: r["obs"][0]["err"] == "none" and r["obs"][0]["pts"])
    if len(probes) < 2 * len([f for f in fams if f not in ("gen", "law")]):
        ctx.log("binding self-test: only %d probe pairs (some family has no accepted record on this tree)" % (len(probes) // 2))
    if not probes:
        raise MachineryError("binding self-test has no accepted record to corrupt")
    saved = ctx.traces
    prej = tracecheck.validate(ctx, "SamplerTrace.tla", probes, what="self-test: corrupted records rejected", workers=1)
    ctx.traces = saved
    if any((p["id"] % 2 == 1) != (p["id"] in prej) for p in probes):
        raise MachineryError("binding self-test failed: rejected %s of %d probes" % (sorted(prej), len(probes)))
    ctx.rule = ("every case exported from SamplerMC.tla: tables on every 2..%d-node subset of %s with non-negative values in %s, read "
                "as a density (zeros = flat stretches of the cumulative distribution: leading, trailing, interior runs, all but "
                "one zero) and, as increments, as accumulated input (cumulative=True) (u = j/16, every tabulated cumulative value "
                "and a point just above every flat stretch; array / integer array / function with x / function with xrange,nx / "
                "per-deviate scalar calls, %d lattices); every lower-triangular integer "
                "factor up to %dx%d with diagonal %s, off-diagonal %s, n in %s (4 entry points, recorded deviates); every "
                "(imax, n, unique) up to %d (3 generator sources); every lattice box and every cap (centre x radius x dorot: "
                "%d cases) with stub deviates (3 radial x 4 position angles; 3x3 box fractions) and seeded legacy / new-style "
                "generators; plus seeded larger cases (4x4, 5x5 factors; 17 zero patterns on two 7-node grids and random tables "
                "with zeros up to 6 nodes, both kinds, u = j/32; generic centres with radii "
                "log-uniform over 1e-6..180 deg; generic and pole-hugging boxes); plus the exported SCALE cases judged through "
                "the laws TLC checks on the small scope (summary law for index selection, block law for pointwise sky clauses, "
                "sorted-pairs law for monotonicity): random_indices on ranges 10^6..3*10^6 with n = range/10, randcap / randsphere "
                "with 2^20-1 .. 2^21+7 points (direct, forced-rotated and polar, with and without radii, eq / xyz; summaries per "
                "block of 2^18 points), Generator.sample with 10^6 draws; plus the WORLD sessions exported from the wld machine "
                "(two Generator objects of twin tables on one grid, handed over as the same bound method / __call__ of two "
                "instances, lambdas / closures of one code object, or arrays; built and sampled interleaved, results scribbled "
                "over by the caller; every sample call judged by the inverse-CDF clauses for ITS density) and every Cholesky "
                "case transported along a scale ladder s = 2^-40 .. 2^40 (covariances 1e-24 .. 1e24, dense around 1e-8; law "
                "CholThmScale checked by TLC on the integer scope); a case is distinct by (operation, abstract "
                "case, concretisation) and non-trivial always" %
                (B["MaxNodes"], sorted(B["XVals"]), sorted(B["PVals"]), len(SCONC), B["CholMaxN"], B["CholMaxN"],
                 sorted(B["LDiag"]), sorted(t - B["LOffShift"] for t in B["LOffP"]), sorted(B["CholNs"]), B["IdxMax"],
                 len(exp["CAP"])))
    ctx.exhaustive = True
    ctx.note(bounds={k: sorted(v) if isinstance(v, set) else v for k, v in B.items()},
             exported={k: len(v) for k, v in exp.items()}, records=len(recs), records_from_export=n_exported,
             rejected_records=len(rej), violation_counts_by_signature=emitted, mechanism_leads=leads,
             stub_requests_unsupported=unsupported,
             tolerances={"box_membership_deg": "1e-12", "cap_membership_and_radius_deg": "1e-9",
                         "sampler_and_cholesky_values": "16 ulp of the operand scale (table span * max/min density + |x|)"})
    ctx.trusted_base += ["vh.spherelat longdouble chord kernel (validated per run against the exported exact separations)",
                         "vh.ratproj rational snap (denominator bound 2^18) of returned floats",
                         "stub generator objects (scripted random()/uniform()) and the recording deviate source"]
    ctx.assumptions = ["uniformity / distributional correctness of the draws is not in the statement and not checked",
                       "the statement's 'positive densities' is widened to non-negative densities with positive total and to "
                       "accumulated input: on a flat stretch of the cumulative distribution any of the grid points that share the "
                       "value is accepted AT that value; strictly above it the interpolation must start from the right end, "
                       "strictly below it end at the left end (SmpThmBracket)",
                       "a table with fewer than two distinct tabulated cumulative values (two-node density table, all mass in the "
                       "first interval) admits no interpolation: every outcome is accepted",
                       "below the first tabulated cumulative value only monotonicity (value <= right end of the leading stretch "
                       "of nodes sharing that value) is demanded; 'exactly' for grid points is read as 'to rounding'",
                       "large draws are judged on summaries (count, min, max, distinct values; per-block counts of points "
                       "failing each pointwise clause; sortedness of (deviate, value) pairs) whose sufficiency is a theorem of "
                       "Sampler.tla section 7 checked by TLC on all small sequences (family law); reproducibility of the large sky "
                       "draws is not re-checked",
                       "world sessions run in a worker process after that worker's earlier sessions; a rejected session counts "
                       "as a violation only if it is rejected again when re-executed alone in a fresh forked process (what the "
                       "replay does) - otherwise it is reported as a lead",
                       "only functions and bound methods are handed over as functional densities (what Generator documents and "
                       "accepts); the caller does not modify x or p(x) arrays after construction (the statement is silent on it)",
                       "method='cut' (rejection sampling) is not the cumulative method of the statement and is not checked",
                       "which drawn deviate goes to which Cholesky sample is not stated: any arrangement is accepted",
                       "membership margins: box 1e-12 deg, cap 1e-9 deg; returned radius = separation to 1e-9 deg",
                       "that the cap point lies at r*sqrt(u1) from the centre is a mechanism-level lead, not demanded"]


def replay(ctx, case):
    sl.self_validate()
    rec = observe((1, case["op"], case["c"], case["meta"]))
    k = case.get("k", 1)
    print("replay observed (observation %d): %s" % (k, rec["raw"][k - 1] if k - 1 < len(rec["raw"]) else rec["raw"]))
    judge(ctx, [rec], "replay")
