"""C20 - sorting, chunking and progress/parallel wrappers preserve items and order.

Four sub-checks, each with the same shape (TLC model -> exported cases -> real code
-> recorded observations -> TLA+ trace module); Python only maps abstract <->
concrete and records, the specification judges.

  sort   Quicksort.tla (PlusCal, explicit stack, hole-based partition, plain + key-value)
         -> esutil.algorithm.quicksort / quicksort_keyvalue  -> QuicksortTrace.tla
  chunk  Isplit.tla (isplit's divmod/cumsum steps, splitarray's slices)
         -> esutil.algorithm.isplit, esutil.numpy_util.splitarray -> ChunkTrace.tla
  pbar   ProgressIter.tla (consumer / wrapper / source protocol)
         -> esutil.pbar.pbar / PBar / prange (sbar behind simple=True) -> ProgressIterTrace.tla
  pmap   PoolMap.tla (Take / Eval / Finish / Deliver under every schedule)
         -> esutil.pbar.pmap with a logging task function whose completion order is the
            one TLC exported -> PoolMapTrace.tla (result = map, and an interleaving of
            the model's actions that explains the per-process event streams)

`./check C20 --only sort,chunk,pbar,pmap` runs a subset (development aid).
"""
import array
import collections
import io
import os
import random
import shutil
import tempfile

import numpy as np

from .. import c20_tasks, tracecheck
from ..core import MachineryError
from ..tlc import cfg

NEEDS_EXT = True      # `import esutil` imports sfile -> recfile, which needs its extension (build is cached)

PARTS = ("sort", "chunk", "pbar", "pmap")


def _want(ctx, part):
    only = getattr(ctx, "only", None)
    return not only or part in only


def _err(e):
    return type(e).__name__


# =====================================================================================
# 1. sorting
# =====================================================================================
SORT_BOUNDS = {"quick": dict(MaxLen=5, Vals={0, 1, 2, 3}), "thorough": dict(MaxLen=6, Vals={0, 1, 2, 3})}

# key containers: name -> (monotone injection of the abstract key, container constructor, class)
_KEYMAPS = {
    "int": lambda v: v - 2,
    "float": lambda v: v * 0.25 - 1.0,
    "str": lambda v: "k%04d" % v,
    "bigint": lambda v: v * 2 ** 70 - 2 ** 71,
    "tuple": lambda v: (v // 2, v % 2),
}


def _memmap(vals, dtype):
    f = tempfile.NamedTemporaryFile(prefix="c20-mm-", suffix=".bin")
    m = np.memmap(f.name, dtype=dtype, mode="w+", shape=(max(len(vals), 1),))
    m = m[:len(vals)]
    m[:] = vals
    try:
        m._c20_file = f      # keep the file alive as long as the map
    except AttributeError:   # an empty slice of a memmap is a plain ndarray (numpy 2): nothing to keep alive
        pass
    return m


KEY_KINDS = {
    "list-int":    ("int", list, "list"),
    "list-float":  ("float", list, "list"),
    "list-str":    ("str", list, "list"),
    "list-bigint": ("bigint", list, "list"),
    "list-tuple":  ("tuple", list, "list"),
    "np-i8":       ("int", lambda x: np.array(x, dtype="i8"), "ndarray"),
    "np-f8":       ("float", lambda x: np.array(x, dtype="f8"), "ndarray"),
    "np-i2":       ("int", lambda x: np.array(x, dtype="i2"), "ndarray"),
    "np-f4>":      ("float", lambda x: np.array(x, dtype=">f4"), "ndarray"),
    "np-U":        ("str", lambda x: np.array(x, dtype="U5"), "ndarray"),
    "memmap-i4":   ("int", lambda x: _memmap(x, "i4"), "memmap"),
    "array-d":     ("float", lambda x: array.array("d", x), "array.array"),
    "deque-int":   ("int", collections.deque, "deque"),
}
PLAIN_KINDS = ["list-int", "list-float", "list-str", "list-bigint", "list-tuple", "np-i8", "np-f8", "np-i2",
               "np-f4>", "np-U", "memmap-i4", "array-d", "deque-int"]
KV_KEY_KINDS = ["list-int", "np-f8", "list-str", "np-i8", "memmap-i4"]

# value containers of the key-value variant: name -> (make(abstract list), back(container) -> abstract list, class)
_VSTRUCT = np.dtype([("a", "i4"), ("b", "f8"), ("s", "S3")])


def _vstruct(x):
    v = np.zeros(len(x), dtype=_VSTRUCT)
    for i, a in enumerate(x):
        v[i] = (a, a * 0.5, b"%03d" % (a % 1000))
    return v


def _vstruct_back(v):
    return [int(r["a"]) if (r["b"] == r["a"] * 0.5 and r["s"] == b"%03d" % (int(r["a"]) % 1000)) else -1 for r in v]


def _v2d_back(v):
    return [int(r[0]) if int(r[1]) == int(r[0]) + 1000 else -1 for r in v]


VAL_KINDS = {
    "list-int":   (list, lambda v: [x if isinstance(x, int) else -1 for x in v], "scalar"),
    "np-i8":      (lambda x: np.array(x, dtype="i8"), lambda v: [int(x) for x in v], "scalar"),
    "np-f8":      (lambda x: np.array(x, dtype="f8") * 0.5, lambda v: [int(x * 2) if float(x * 2).is_integer() else -1 for x in v], "scalar"),
    "list-str":   (lambda x: ["v%d" % a for a in x], lambda v: [int(s[1:]) if isinstance(s, str) and s[1:].isdigit() else -1 for s in v], "scalar"),
    "list-tuple": (lambda x: [(a, "t") for a in x], lambda v: [t[0] if isinstance(t, tuple) and len(t) == 2 else -1 for t in v], "pyobj"),
    "list-list":  (lambda x: [[a, a + 1000] for a in x], lambda v: [t[0] if isinstance(t, list) and t[1] == t[0] + 1000 else -1 for t in v], "pyobj"),
    "np-struct":  (_vstruct, _vstruct_back, "npview"),
    "np-2d":      (lambda x: np.array([[a, a + 1000] for a in x], dtype="i8").reshape(len(x), 2), _v2d_back, "npview"),
}
KV_VAL_KINDS = ["list-int", "np-i8", "np-f8", "list-str", "list-tuple", "list-list", "np-struct", "np-2d"]


def _keys_make(kind, keys_abs):
    m, ctor, _ = KEY_KINDS[kind]
    g = _KEYMAPS[m]
    conc = [g(v) for v in keys_abs]
    back = {}
    for v in set(keys_abs):
        back[g(v)] = v
    return ctor(conc), back


def _keys_back(kind, cont, back):
    out = []
    for x in cont:
        if isinstance(x, np.generic):
            x = x.item()
        if isinstance(x, bytes):
            x = x.decode()
        out.append(back.get(x, -1))
    return out


def sort_obs(variant, kkind, vkind, keys_abs, vals_abs):
    """run the real sort on one concretisation; returns the abstract observation"""
    from esutil import algorithm as al
    k, back = _keys_make(kkind, keys_abs)
    try:
        if variant == "plain":
            al.quicksort(k)
            o = {"err": "none", "keys": _keys_back(kkind, k, back), "vals": []}
        else:
            mk, bk, _ = VAL_KINDS[vkind]
            v = mk(list(vals_abs))
            al.quicksort_keyvalue(k, v)
            o = {"err": "none", "keys": _keys_back(kkind, k, back), "vals": [int(x) for x in bk(v)]}
    except Exception as e:  # noqa
        o = {"err": _err(e), "keys": [], "vals": []}
    o["kkind"], o["vkind"] = kkind, (vkind if variant == "kv" else "")
    return o


class _RecList(list):
    """list that logs element writes (diagnosis of the swap sequence only)"""
    def __init__(self, x):
        super().__init__(x)
        self.writes = []

    def __setitem__(self, i, v):
        self.writes.append([i + 1, v])
        super().__setitem__(i, v)


def sort_writes(keys_abs, kv):
    from esutil import algorithm as al
    k = _RecList(keys_abs)
    if kv:
        al.quicksort_keyvalue(k, list(range(1, len(keys_abs) + 1)))
    else:
        al.quicksort(k)
    return k.writes


def _sort_sig(c, o, clause):
    if c["variant"] == "plain":
        return "quicksort|%s|%s" % (clause, KEY_KINDS[o["kkind"]][2])
    return "quicksort_keyvalue|%s|keys=%s,vals=%s" % (clause, KEY_KINDS[o["kkind"]][2], VAL_KINDS[o["vkind"]][2])


def _judge_sort(ctx, recs, what):
    rej = tracecheck.validate(ctx, "QuicksortTrace.tla",
                              [{"id": r["id"], "c": r["c"], "obs": [{"err": o["err"], "keys": o["keys"], "vals": o["vals"]} for o in r["obs"]]}
                               for r in recs], what=what)
    byid = {r["id"]: r for r in recs}
    for rid, failing in rej.items():
        r = byid[rid]
        for k, clause in failing:
            o = r["obs"][k - 1]
            ctx.violation(_sort_sig(r["c"], o, clause),
                          "in-place sort result not allowed by Algo!SortFailing: clause %s" % clause,
                          {"kind": "sort", "c": r["c"], "kkind": o["kkind"], "vkind": o["vkind"], "observed": o})
    return rej


def _sort_record(i, variant, keys_abs, vals_abs, kkinds, vkinds):
    c = {"variant": variant, "keys": list(keys_abs), "vals": list(vals_abs) if variant == "kv" else []}
    if variant == "plain":
        obs = [sort_obs("plain", kk, "", keys_abs, []) for kk in kkinds]
    else:
        obs = [sort_obs("kv", kk, vk, keys_abs, vals_abs) for kk in kkinds for vk in vkinds]
    return {"id": i, "c": c, "obs": obs}


def _seeded_arrays(rng, n, maxlen):
    out = []
    for k in range(n):
        ln = rng.choice([0, 1, 2, 3, 7, 16, 50, maxlen // 2, maxlen, rng.randrange(0, maxlen + 1)])
        nv = rng.choice([1, 2, 3, 10, 100, 1000])
        shape = rng.choice(["random", "sorted", "reversed", "constant", "organ", "nearly", "sawtooth"])
        a = [rng.randrange(nv) for _ in range(ln)]
        if shape == "sorted":
            a.sort()
        elif shape == "reversed":
            a.sort(reverse=True)
        elif shape == "constant":
            a = [a[0]] * ln if ln else []
        elif shape == "organ":
            a.sort()
            a = a[::2] + a[1::2][::-1]
        elif shape == "nearly":
            a.sort()
            for _ in range(min(3, ln)):
                i, j = rng.randrange(ln), rng.randrange(ln)
                a[i], a[j] = a[j], a[i]
        elif shape == "sawtooth":
            a = [i % max(1, nv % 7 + 1) for i in range(ln)]
        out.append((shape, a))
    return out


def part_sort(ctx):
    B = SORT_BOUNDS[ctx.tier]
    labels = ["choose_n", "choose_a", "qs", "enter", "part", "outer", "up", "dn", "fin", "recurse"]
    # model: termination + sorted/permutation/pairs for every array of the scope; export every run
    r1 = ctx.tlc("Quicksort.tla", what="Quicksort: termination, Sorted /\\ Perm (pairs), partition invariants; export",
                 cfg_text=cfg(spec="Spec", constants=dict(B, KVCarry=True, Log=True, DoExport=True),
                              invariants=["MechRefines", "PairsTogether", "HoleInv", "SplitInv", "StackInv"],
                              properties=["Termination"], constraints=["Export"]),
                 workers=1, require=labels, timeout=3000)
    r1b = ctx.tlc("Quicksort.tla", what="self-test: key-value partition that leaves a value behind violates MechRefines",
                  cfg_text=cfg(spec="Spec", constants=dict(B, MaxLen=3, KVCarry=False, Log=False, DoExport=False),
                               invariants=["MechRefines"]), workers=2, allow_violation=True, coverage=False)
    if "MechRefines" not in r1b.violated:
        raise MachineryError("self-test failed: Quicksort MechRefines not violated by the deviating partition")
    seen, cases = set(), []
    for cse in r1.records.get("CASE", []):
        key = tuple(cse["keys"])
        if key not in seen:
            seen.add(key)
            cases.append(cse)
    nexp = sum(len(B["Vals"]) ** k for k in range(B["MaxLen"] + 1))
    if len(cases) != nexp:
        raise MachineryError("Quicksort export: %d cases, expected %d" % (len(cases), nexp))
    recs, nid, wlog_diff = [], 0, []
    for i, cse in enumerate(cases):
        keys = cse["keys"]
        pos = list(range(1, len(keys) + 1))
        nid += 1
        recs.append(_sort_record(nid, "plain", keys, [], PLAIN_KINDS, None))
        nid += 1
        recs.append(_sort_record(nid, "kv", keys, pos, [KV_KEY_KINDS[i % len(KV_KEY_KINDS)]], KV_VAL_KINDS))
        # mechanism conformance (diagnosis only): the model's write sequence = the code's on a recording list
        for kv in (False, True):
            w = sort_writes(keys, kv)
            if w != cse["wlog"]:
                wlog_diff.append({"keys": keys, "kv": kv, "model": cse["wlog"], "code": w})
        # the model's own final state is what the code leaves (same deterministic algorithm)
        ctx.count({"sort": keys})
    for r in recs[:: max(1, len(recs) // 3)][:2]:
        ctx.sample({"sort_case": r["c"], "observed": r["obs"][0]})
    _judge_sort(ctx, recs, "judge replayed sort cases (QuicksortTrace)")
    # larger seeded arrays, code -> spec
    nrand, maxlen = (150, 200) if ctx.quick else (2500, 200)
    rng = random.Random(ctx.seed * 7919 + 1)
    rrecs = []
    for j, (shape, a) in enumerate(_seeded_arrays(rng, nrand, maxlen)):
        nid += 1
        pk = [PLAIN_KINDS[(j + t) % len(PLAIN_KINDS)] for t in range(3)]
        if any(k == "np-i2" for k in pk) and a and max(a) > 30000:
            pk = [k for k in pk if k != "np-i2"]
        rrecs.append(_sort_record(nid, "plain", a, [], pk, None))
        nid += 1
        vals = [rng.randrange(max(1, len(a) // 2 + 1)) for _ in a] if j % 2 else list(range(1, len(a) + 1))
        rrecs.append(_sort_record(nid, "kv", a, vals, [KV_KEY_KINDS[j % len(KV_KEY_KINDS)]],
                                  [KV_VAL_KINDS[(j + t) % len(KV_VAL_KINDS)] for t in range(3)]))
        ctx.count({"sort": a, "shape": shape})
    _judge_sort(ctx, rrecs, "judge seeded larger sort cases (QuicksortTrace)")
    # binding self-test: a corrupted observation must be rejected, the genuine one accepted
    probe = next(r for r in recs if r["c"]["variant"] == "kv" and len(set(r["c"]["keys"])) >= 3 and r["obs"][0]["err"] == "none")
    good = dict(probe["obs"][0])
    bad1 = dict(good, keys=list(reversed(good["keys"])), vals=list(reversed(good["vals"])))
    bad2 = dict(good, vals=good["vals"][1:] + good["vals"][:1])
    bad3 = dict(good, keys=[good["keys"][0]] + good["keys"][:-1])
    saved = ctx.traces
    rej = tracecheck.validate(ctx, "QuicksortTrace.tla",
                              [{"id": 1, "c": probe["c"], "obs": [good]}] +
                              [{"id": 2 + t, "c": probe["c"], "obs": [b]} for t, b in enumerate((bad1, bad2, bad3))],
                              what="self-test: corrupted sort results rejected", workers=1)
    ctx.traces = saved
    want = {2: "not_sorted", 3: "pairs_broken", 4: "not_permutation"}
    if 1 in rej or any(k not in rej or want[k] not in [f[1] for f in rej[k]] for k in want):
        raise MachineryError("binding self-test failed (sort): %s" % rej)
    ctx.note(sort=dict(bounds={"MaxLen": B["MaxLen"], "Vals": sorted(B["Vals"])}, exported_arrays=len(cases),
                       plain_containers=PLAIN_KINDS, kv_key_containers=KV_KEY_KINDS, kv_value_containers=KV_VAL_KINDS,
                       seeded_arrays=nrand, seeded_maxlen=maxlen,
                       write_sequence_mismatches=len(wlog_diff), write_sequence_mismatch_example=wlog_diff[:1]))
    if wlog_diff:
        ctx.log("LEAD (mechanism, not a verdict): %d write sequences differ between Quicksort.tla and the code, e.g. %s"
                % (len(wlog_diff), wlog_diff[0]))
    return ("every array of length 0..%d over %d keys (exported from Quicksort.tla) through %d plain containers and "
            "%d key x %d value containers, plus %d seeded arrays (ties, sorted, reversed, constant, organ-pipe, length 0..%d)"
            % (B["MaxLen"], len(B["Vals"]), len(PLAIN_KINDS), len(KV_KEY_KINDS), len(KV_VAL_KINDS), nrand, maxlen))


# =====================================================================================
# 2. isplit / splitarray
# =====================================================================================
CHUNK_BOUNDS = {"quick": dict(MaxNum=200, MaxChunks=60, MaxLen=24, MaxNper=26),
                "thorough": dict(MaxNum=200, MaxChunks=60, MaxLen=60, MaxNper=62)}

SPLIT_KINDS = {
    "np-i8":    (lambda a: np.array([x * 3 - 5 for x in a], dtype="i8"), lambda ch: [(int(x) + 5) // 3 if (int(x) + 5) % 3 == 0 else -1 for x in ch]),
    "list":     (lambda a: [x * 3 - 5 for x in a], lambda ch: [(int(x) + 5) // 3 if (int(x) + 5) % 3 == 0 else -1 for x in ch]),
    "tuple":    (lambda a: tuple(x * 3 - 5 for x in a), lambda ch: [(int(x) + 5) // 3 if (int(x) + 5) % 3 == 0 else -1 for x in ch]),
    "np-f8":    (lambda a: np.array([x * 0.5 for x in a], dtype="f8"), lambda ch: [int(x * 2) if float(x * 2).is_integer() else -1 for x in ch]),
    "np-U":     (lambda a: np.array(["s%d" % x for x in a], dtype="U8"), lambda ch: [int(str(x)[1:]) if str(x)[1:].isdigit() else -1 for x in ch]),
    "np-strided": (lambda a: np.array([y for x in a for y in (x, -7)], dtype="i4")[::2], lambda ch: [int(x) for x in ch]),
}
SPLIT_KIND_LIST = ["np-i8", "list", "tuple", "np-f8", "np-U", "np-strided"]


def isplit_obs(num, nchunks, flavour):
    from esutil import algorithm as al
    a, b = (num, nchunks) if flavour == "int" else (np.int64(num), np.int32(nchunks))
    try:
        s = al.isplit(a, b)
        return {"err": "none", "starts": [int(x) for x in s["start"]], "ends": [int(x) for x in s["end"]], "flavour": flavour}
    except Exception as e:  # noqa
        return {"err": _err(e), "starts": [], "ends": [], "flavour": flavour}


def split_obs(nper, a_abs, kind):
    from esutil import numpy_util as nu
    mk, bk = SPLIT_KINDS[kind]
    arr = mk(a_abs)
    before = arr.tobytes() if isinstance(arr, np.ndarray) else repr(arr)
    try:
        chunks = nu.splitarray(nper, arr)
        if not isinstance(chunks, (list, tuple)):
            raise TypeError("splitarray did not return a list")
        o = {"err": "none", "chunks": [bk(ch) for ch in chunks]}
    except Exception as e:  # noqa
        o = {"err": _err(e), "chunks": []}
    o["kind"] = kind
    o["frame_ok"] = (arr.tobytes() if isinstance(arr, np.ndarray) else repr(arr)) == before
    return o


def _chunk_class(c):
    if c["fn"] == "isplit":
        n, k = c["num"], c["nchunks"]
        return "num=0" if n == 0 else "num<nchunks" if n < k else "num%nchunks=0" if n % k == 0 else "num%nchunks>0"
    n, p = len(c["a"]), c["nper"]
    return "empty" if n == 0 else "len<nper" if n < p else "len%nper=0" if n % p == 0 else "len%nper>0"


def _judge_chunks(ctx, recs, what):
    def strip(o):
        return {k: v for k, v in o.items() if k in ("err", "starts", "ends", "chunks")}
    rej = tracecheck.validate(ctx, "ChunkTrace.tla", [{"id": r["id"], "c": r["c"], "obs": [strip(o) for o in r["obs"]]} for r in recs],
                              what=what)
    byid = {r["id"]: r for r in recs}
    for rid, failing in rej.items():
        r = byid[rid]
        for k, clause in failing:
            o = r["obs"][k - 1]
            ctx.violation("%s|%s|%s" % (r["c"]["fn"], clause, _chunk_class(r["c"])),
                          "%s result not allowed by Algo.tla: clause %s" % (r["c"]["fn"], clause),
                          {"kind": "chunk", "c": r["c"], "flavour": o.get("flavour") or o.get("kind"), "observed": o})
    for r in recs:
        for o in r["obs"]:
            if o.get("frame_ok") is False:
                ctx.violation("splitarray|argument_modified", "splitarray modified its argument",
                              {"kind": "chunk", "c": r["c"], "flavour": o.get("kind")})
    return rej


def _chunk_record(i, c, k=0):
    if c["fn"] == "isplit":
        obs = [isplit_obs(c["num"], c["nchunks"], "int" if (i + k) % 2 else "npint")]
    else:
        kinds = [SPLIT_KIND_LIST[(i + t) % len(SPLIT_KIND_LIST)] for t in range(2)]
        obs = [split_obs(c["nper"], c["a"], kd) for kd in kinds]
    return {"id": i, "c": c, "obs": obs}


def part_chunk(ctx):
    B = CHUNK_BOUNDS[ctx.tier]
    consts = dict(B, SizesFirst=True, DoExport=False)
    ctx.tlc("Isplit.tla", what="Isplit/SplitArray: mechanism refines property, reference accepted and unique (exhaustive)",
            cfg_text=cfg(constants=consts, invariants=["MechRefines", "RefAccepted", "RefUnique"]), workers=16,
            require=["ChooseNum", "ChooseChunks", "ChooseLen", "ChooseNper", "Divmod", "Sizes", "Cumsum", "Fill", "SCount", "SSlice", "SReturn"],
            timeout=3000)
    rb = ctx.tlc("Isplit.tla", what="self-test: smaller sections first violates MechRefines",
                 cfg_text=cfg(constants=dict(consts, SizesFirst=False, MaxNum=7, MaxChunks=4, MaxLen=1, MaxNper=1), invariants=["MechRefines"]),
                 workers=2, allow_violation=True, coverage=False)
    if "MechRefines" not in rb.violated:
        raise MachineryError("self-test failed: Isplit MechRefines not violated by the deviating section order")
    r2 = ctx.tlc("Isplit.tla", what="export (num, nchunks) and (nper, array) cases",
                 cfg_text=cfg(constants=dict(consts, DoExport=True), next_="NextExport", constraints=["Export"]),
                 workers=1, coverage=False, timeout=3000)
    cases = r2.records.get("CASE", [])
    nexp = (B["MaxNum"] + 1) * B["MaxChunks"] + (B["MaxLen"] + 1) * B["MaxNper"]
    if len(cases) != nexp:
        raise MachineryError("Isplit export: %d cases, expected %d" % (len(cases), nexp))
    recs = [_chunk_record(i, c) for i, c in enumerate(cases, 1)]
    for r in recs:
        ctx.count(r["c"])
    ctx.sample({"chunk_case": recs[len(recs) // 3]["c"], "observed": recs[len(recs) // 3]["obs"][0]})
    ctx.sample({"chunk_case": recs[-7]["c"], "observed": recs[-7]["obs"][0]})
    _judge_chunks(ctx, recs, "judge replayed isplit/splitarray cases (ChunkTrace)")
    # larger seeded cases, code -> spec
    nrand = 300 if ctx.quick else 5000
    rng = random.Random(ctx.seed * 104729 + 2)
    rrecs, nid = [], len(recs)
    for j in range(nrand):
        nid += 1
        if j % 2:
            k = rng.choice([1, 2, 3, 7, 61, 100, 333, 500])
            num = rng.choice([0, 1, k - 1, k, k + 1, 10 * k - 1, rng.randrange(0, 10 ** 6), rng.randrange(0, 10 ** 8)])
            c = {"fn": "isplit", "num": max(0, num), "nchunks": k}
        else:
            ln = rng.choice([0, 1, 5, 64, 100, 255, rng.randrange(0, 300)])
            nper = rng.choice([1, 2, 3, 7, 64, max(1, ln - 1), max(1, ln), ln + 1, ln + 5])
            c = {"fn": "splitarray", "a": list(range(1, ln + 1)), "nper": nper}
        rrecs.append(_chunk_record(nid, c, j // 2))
        ctx.count(c)
    _judge_chunks(ctx, rrecs, "judge seeded larger isplit/splitarray cases (ChunkTrace)")
    # binding self-test
    pi = next(r for r in recs if r["c"]["fn"] == "isplit" and r["c"]["num"] == 7 and r["c"]["nchunks"] == 3)
    ps = next(r for r in recs if r["c"]["fn"] == "splitarray" and len(r["c"]["a"]) == 7 and r["c"]["nper"] == 3)
    gi, gs = pi["obs"][0], ps["obs"][0]
    bi = dict(gi, starts=[0, 2, 5], ends=[2, 5, 7])                       # sizes 2,3,2: larger not first
    bs = dict(gs, chunks=[gs["chunks"][0], gs["chunks"][1][:2], gs["chunks"][1][2:] + gs["chunks"][2]])
    saved = ctx.traces

    def strip(o):
        return {k: v for k, v in o.items() if k in ("err", "starts", "ends", "chunks")}
    rej = tracecheck.validate(ctx, "ChunkTrace.tla",
                              [{"id": 1, "c": pi["c"], "obs": [strip(gi)]}, {"id": 2, "c": pi["c"], "obs": [strip(bi)]},
                               {"id": 3, "c": ps["c"], "obs": [strip(gs)]}, {"id": 4, "c": ps["c"], "obs": [strip(bs)]}],
                              what="self-test: corrupted isplit/splitarray results rejected", workers=1)
    ctx.traces = saved
    if set(rej) != {2, 4} or [1, "larger_not_first"] not in rej[2] or [1, "chunk_size_ne_nper"] not in rej[4]:
        raise MachineryError("binding self-test failed (chunks): %s" % rej)
    ctx.note(chunk=dict(bounds=B, exported_cases=len(cases), seeded_cases=nrand, splitarray_containers=SPLIT_KIND_LIST))
    return ("every (num, nchunks) in 0..%d x 1..%d and every (nper, array) with length 0..%d, nper 1..%d (exported from Isplit.tla), "
            "plus %d seeded larger cases (num up to 1e8, nchunks up to 500, arrays up to length 300)"
            % (B["MaxNum"], B["MaxChunks"], B["MaxLen"], B["MaxNper"], nrand))


# =====================================================================================
# 3. progress wrappers
# =====================================================================================
PBAR_BOUNDS = {"quick": dict(MaxN=2), "thorough": dict(MaxN=3)}
PBAR_CONSTS = dict(Kinds={"list", "range", "gen", "iter"}, Totals={"none", "exact", "low", "high"},
                   Lazy=True, FixedMeter=True, DoExport=False)


class _Obj:
    """a source item; identified by object identity, equal-looking twins allowed"""
    __slots__ = ("v",)

    def __init__(self, v):
        self.v = v


class _Recorder:
    def __init__(self):
        self.ev = []
        self.live = True

    def add(self, op, v=0):
        if self.live:
            self.ev.append({"op": op, "v": v})


class _RecIter:
    """iterator without __len__ that records every pull"""
    def __init__(self, items, rec):
        self._it = iter(items)
        self._rec = rec
        self._i = 0

    def __iter__(self):
        return self

    def __next__(self):
        try:
            x = next(self._it)
        except StopIteration:
            self._rec.add("pullend")
            raise
        self._i += 1
        self._rec.add("pull", self._i)
        return x


class _RecSeq(list):
    """list (has __len__) whose iteration records every pull"""
    def bind(self, rec):
        self._rec = rec
        return self

    def __iter__(self):
        return _RecIter(list.__iter__(self), self._rec)


def _rec_gen(items, rec):
    i = 0
    for x in items:
        i += 1
        rec.add("pull", i)
        yield x
    rec.add("pullend")


def pbar_run(c, entry):
    """drive one real wrapper as the case says; returns (events, exception class or '')"""
    from esutil import pbar as pb
    n = len(c["src"])
    rec = _Recorder()
    if c["kind"] == "range":
        items = list(range(n))
        ident = {("int", v): v + 1 for v in items}
        src = range(n)
    else:
        items = [_Obj(i % 2) for i in range(n)]          # twins: only identity tells them apart
        ident = {id(x): i + 1 for i, x in enumerate(items)}
        src = {"list": lambda: _RecSeq(items).bind(rec), "gen": lambda: _rec_gen(items, rec),
               "iter": lambda: _RecIter(items, rec)}[c["kind"]]()

    def pos(x):
        if c["kind"] == "range":
            return ident.get(("int", x), -1) if type(x) is int else -1
        return ident.get(id(x), -1)
    kw = {"file": io.StringIO()}
    if c["total"] != "none":
        kw["total"] = {"exact": n, "low": n - 1, "high": n + 2}[c["total"]]
    if c.get("simple"):
        kw["simple"] = True
    if "desc" in c:
        kw.update(desc=c["desc"], leave=bool(c["leave"]), mininterval=0.0 if c["mininterval"] == 0 else 0.5,
                  miniters=int(c["miniters"]), n_bars=int(c["nbars"]))
    errcls = ""
    it = None
    try:
        if entry == "prange":
            it = iter(pb.prange(n, **kw))
        else:
            it = iter(getattr(pb, entry)(src, **kw))
    except Exception as e:  # noqa  (a wrapper that rejects at construction: the consumer learns it at once)
        rec.add("request")
        rec.add("error")
        return rec.ev, _err(e)
    ended = False
    for _ in range(c["k"]):
        rec.add("request")
        try:
            x = next(it)
            rec.add("yield", pos(x))
        except StopIteration:
            rec.add("stop")
            ended = True
            break
        except Exception as e:  # noqa
            rec.add("error")
            errcls = _err(e)
            ended = True
            break
    if not ended:
        rec.add("close")
        rec.live = False
        try:
            it.close()
        except Exception:  # noqa
            pass
    return rec.ev, errcls


def _pbar_entry(c, i):
    if c["kind"] == "range":
        return ("prange", "pbar", "PBar")[i % 3]
    return ("pbar", "PBar")[i % 2]


def _pbar_sig(c, entry, clause):
    from esutil import pbar as pb
    e = "pbar" if (entry == "PBar" and getattr(pb, "PBar", None) is pb.pbar) else entry
    return "%s|%s|%s,total=%s,simple=%s" % (e, clause, "len" if c["haslen"] else "nolen", c["total"], bool(c["simple"]))


def _pbar_strip(c):
    return {k: c[k] for k in ("src", "haslen", "obspull", "total", "simple", "k")}


def _judge_pbar(ctx, recs, what):
    rej = tracecheck.validate(ctx, "ProgressIterTrace.tla", [{"id": r["id"], "c": _pbar_strip(r["c"]), "ev": r["ev"]} for r in recs],
                              what=what, constants=dict(PBAR_CONSTS, MaxN=1))
    byid = {r["id"]: r for r in recs}
    for rid, failing in rej.items():
        r = byid[rid]
        for clause in failing:
            ctx.violation(_pbar_sig(r["c"], r["entry"], clause),
                          "progress wrapper event stream not a run of ProgressIter.tla: clause %s%s"
                          % (clause, (" (" + r["errcls"] + ")") if r["errcls"] else ""),
                          {"kind": "pbar", "c": r["c"], "entry": r["entry"], "events": r["ev"], "exception": r["errcls"]})
    return rej


def part_pbar(ctx):
    B = PBAR_BOUNDS[ctx.tier]
    consts = dict(PBAR_CONSTS, **B)
    ctx.tlc("ProgressIter.tla", what="ProgressIter: prefix, laziness, no loss, completion (every case, most general wrapper)",
            cfg_text=cfg(spec="Spec", constants=consts, invariants=["PrefixInv", "LazyInv", "NoLoss", "MechRefines"],
                         properties=["Completes", "AllYielded"]),
            workers=4, require=["ChooseSrc", "ChooseProto", "Request", "Abandon", "PullAny", "PullEnd", "YieldAny", "Exhaust", "Reject"])
    for var, inv in (("Lazy", "LazyInv"), ("FixedMeter", "MechRefines")):
        rb = ctx.tlc("ProgressIter.tla", what="self-test: %s = FALSE violates %s" % (var, inv),
                     cfg_text=cfg(spec="Spec", constants=dict(consts, **{var: False}), invariants=[inv]),
                     workers=2, allow_violation=True, coverage=False)
        if inv not in rb.violated:
            raise MachineryError("self-test failed: %s not violated with %s = FALSE" % (inv, var))
    r2 = ctx.tlc("ProgressIter.tla", what="export cases (kind x length x total x simple x requests x cosmetic options)",
                 cfg_text=cfg(constants=dict(consts, DoExport=True), init="MInit", next_="NextExport", constraints=["Export"]),
                 workers=1, coverage=False, timeout=3000)
    cases = r2.records.get("CASE", [])
    if len(cases) < 1000:
        raise MachineryError("ProgressIter export: only %d cases" % len(cases))
    recs = []
    for i, c in enumerate(cases, 1):
        entry = _pbar_entry(c, i)
        ev, errcls = pbar_run(c, entry)
        recs.append({"id": i, "c": c, "entry": entry, "ev": ev, "errcls": errcls})
        ctx.count({k: v for k, v in c.items() if k != "src"} | {"n": len(c["src"]), "entry": entry})
    ctx.sample({"pbar_case": recs[len(recs) // 2]["c"], "entry": recs[len(recs) // 2]["entry"], "events": recs[len(recs) // 2]["ev"]})
    _judge_pbar(ctx, recs, "judge replayed progress-wrapper cases (ProgressIterTrace)")
    # larger seeded runs, code -> spec
    nrand = 400 if ctx.quick else 6000
    rng = random.Random(ctx.seed * 15485863 + 3)
    rrecs, nid = [], len(recs)
    for j in range(nrand):
        nid += 1
        kind = rng.choice(["list", "range", "gen", "iter"])
        n = rng.choice([0, 1, 2, 9, 10, 11, 25, rng.randrange(0, 60)])
        tot = rng.choice(["none", "exact", "high"] + (["low"] if n >= 2 else []))
        c = {"kind": kind, "src": list(range(1, n + 1)), "haslen": kind in ("list", "range"), "obspull": kind != "range",
             "total": tot, "simple": rng.random() < 0.4, "k": rng.choice([n + 1, n + 1, n, n // 2, rng.randrange(0, n + 2)]),
             "desc": rng.choice(["", "d", "a longer description"]), "leave": rng.random() < 0.5,
             "mininterval": rng.choice([0, 1]), "miniters": rng.choice([1, 2, 5, 100]), "nbars": rng.choice([0, 1, 3, 20, 77])}
        entry = _pbar_entry(c, j)
        ev, errcls = pbar_run(c, entry)
        rrecs.append({"id": nid, "c": c, "entry": entry, "ev": ev, "errcls": errcls})
        ctx.count({k: v for k, v in c.items() if k != "src"} | {"entry": entry})
    _judge_pbar(ctx, rrecs, "judge seeded larger progress-wrapper runs (ProgressIterTrace)")
    # binding self-test: corrupted streams are rejected with the right clause
    probe = next(r for r in recs if r["c"]["kind"] == "list" and len(r["c"]["src"]) == 2 and r["c"]["k"] == 3
                 and not r["errcls"] and [e["op"] for e in r["ev"]].count("yield") == 2)
    ev = probe["ev"]
    iy = [i for i, e in enumerate(ev) if e["op"] == "yield"]
    ip = [i for i, e in enumerate(ev) if e["op"] == "pull"]
    swapped = [dict(e) for e in ev]
    swapped[iy[0]]["v"], swapped[iy[1]]["v"] = swapped[iy[1]]["v"], swapped[iy[0]]["v"]
    eager = [ev[0]] + [ev[i] for i in ip] + [e for i, e in enumerate(ev) if i not in ip and i != 0]
    lossy = [e for i, e in enumerate(ev) if i not in (iy[1], ip[1] - 1)]                      # second item pulled, never yielded
    cc = _pbar_strip(probe["c"])
    saved = ctx.traces
    rej = tracecheck.validate(ctx, "ProgressIterTrace.tla",
                              [{"id": 1, "c": cc, "ev": ev}, {"id": 2, "c": cc, "ev": swapped},
                               {"id": 3, "c": cc, "ev": eager}, {"id": 4, "c": cc, "ev": lossy}],
                              what="self-test: corrupted progress streams rejected", constants=dict(PBAR_CONSTS, MaxN=1), workers=1)
    ctx.traces = saved
    want = {2: "yielded_item_not_next_of_source", 3: "not_lazy_pulled_ahead_of_consumer", 4: "stopped_before_all_items"}
    if 1 in rej or any(rej.get(k) != [v] for k, v in want.items()):
        raise MachineryError("binding self-test failed (pbar): %s (lossy stream %s)" % (rej, lossy))
    ctx.note(pbar=dict(bounds=B, exported_cases=len(cases), seeded_runs=nrand,
                       options="desc x leave x mininterval{0,0.5} x miniters{1,2} x n_bars{0,3,20} x total{none,exact,low,high} x simple"))
    return ("every (iterable kind in list/range/generator/len-less iterator, length 0..%d, total, simple, number of requests "
            "0..len+1, desc, leave, mininterval, miniters, n_bars) exported from ProgressIter.tla driven through pbar/PBar/prange, "
            "plus %d seeded runs up to length 60" % (B["MaxN"], nrand))


# =====================================================================================
# 4. parallel map
# =====================================================================================
PMAP_BOUNDS = {"quick": dict(MaxItems=4, MaxW=3, MaxCS=3), "thorough": dict(MaxItems=5, MaxW=3, MaxCS=3)}
_PM_STATE = {"giveups": 0}


def pmap_run(n, W, cs, vals, forder, opt, sleeps=None, itkind="list"):
    """one real pmap call; returns the trace record (without id)"""
    from esutil import pbar as pb
    d = tempfile.mkdtemp(prefix="c20-pm-")
    try:
        nch = (n + cs - 1) // cs
        last = {k: min(k * cs, n) for k in range(1, nch + 1)}          # last item of chunk k
        wait = {}
        use_dep = bool(forder) and _PM_STATE["giveups"] < 3
        if use_dep:
            for a, b in zip(forder, forder[1:]):
                wait[last[b]] = [last[a]]
        items = [(d, i + 1, vals[i], wait.get(i + 1, []), (sleeps[i] if sleeps else 0)) for i in range(n)]
        arg = {"list": lambda: items, "tuple": lambda: tuple(items), "gen": lambda: (x for x in items)}[itkind]()
        kw = {"file": io.StringIO()}
        if opt["total"] == "exact":
            kw["total"] = n
        if opt["simple"]:
            kw["simple"] = True
        try:
            res = pb.pmap(c20_tasks.task, arg, chunksize=cs, nproc=W, **kw)
            if type(res) is not list:
                out = {"err": "result_not_a_list:" + type(res).__name__, "val": []}
            else:
                out = {"err": "none", "val": [x if type(x) is int else -1 for x in res]}
        except Exception as e:  # noqa
            out = {"err": _err(e), "val": []}
        streams = c20_tasks.read_streams(d)
        gave_up = any(e["op"] == "giveup" for s in streams for e in s)
        if gave_up:
            _PM_STATE["giveups"] += 1
            streams = [[e for e in s if e["op"] != "giveup"] for s in streams]
        return {"c": {"n": n, "W": W, "cs": cs, "items": list(vals)}, "opt": opt, "res": out, "workers": streams,
                "forder": list(forder) if (use_dep and not gave_up) else [], "gave_up": gave_up, "itkind": itkind}
    finally:
        shutil.rmtree(d, ignore_errors=True)


def _pm_strip(r):
    return {k: r[k] for k in ("id", "c", "opt", "res", "workers", "forder")}


def _pm_consts(reduce_=True):
    return dict(MaxItems=1, MaxW=1, MaxCS=1, AnyOrder=False, DoExport=False, Reduce=reduce_)


def _pm_tlc(ctx, recs, what, next_, constraint, reduce_=True, workers=4):
    """PoolMapTrace.tla has two judgements with their own INIT/NEXT: run it directly"""
    import json
    from ..core import jsonable
    fd, path = tempfile.mkstemp(prefix="vh-trace-", suffix=".ndjson")
    try:
        with os.fdopen(fd, "w") as f:
            for r in recs:
                f.write(json.dumps(_pm_strip(r), separators=(",", ":"), default=jsonable) + "\n")
        r = ctx.tlc("PoolMapTrace.tla", what=what,
                    cfg_text=cfg(constants=_pm_consts(reduce_), init="TInit", next_=next_, constraints=[constraint]),
                    workers=workers, env={"TRACE_FILE": path}, coverage=False, timeout=1800)
        if r.garbled:
            if workers == 1:
                raise MachineryError("unparsed PrintT lines in PoolMapTrace output:\n" + r.tail(20))
            return _pm_tlc(ctx, recs, what, next_, constraint, reduce_, 1)
        if r.distinct < len(recs) + 1:
            raise MachineryError("PoolMapTrace visited %d states for %d records" % (r.distinct, len(recs)))
        return r
    finally:
        os.unlink(path)


def pmap_judge(ctx, recs, what):
    """(1) property level -> violations; returns the set of record ids accepted"""
    r = _pm_tlc(ctx, recs, what + " - result = list(map(fn, items))", "JNext", "Check")
    rej = {x["id"]: sorted(x["failing"]) for x in r.records.get("REJECT", [])}
    ctx.traces += len(recs) - len(rej)
    byid = {x["id"]: x for x in recs}
    for rid, failing in rej.items():
        x = byid[rid]
        for clause in failing:
            ctx.violation("pmap|%s|total=%s,simple=%s" % (clause, x["opt"]["total"], x["opt"]["simple"]),
                          "pmap result not list(map(fn, items)) (PoolMapTrace!PMFailing): clause %s%s"
                          % (clause, (" (" + x["res"]["err"] + ")") if x["res"]["err"] != "none" else ""),
                          {"kind": "pmap", "c": x["c"], "opt": x["opt"], "forder": x["forder"], "itkind": x["itkind"],
                           "sleeps": x.get("sleeps"), "res": x["res"], "workers": x["workers"]})
    return rej


def pmap_explain(ctx, recs, what, reduce_=True):
    """(2) mechanism level: ids of the records whose streams TLC could explain"""
    todo = [x for x in recs if x["res"]["err"] == "none"]
    if not todo:
        return set(), todo
    r = _pm_tlc(ctx, todo, what, "XNext", "Explained", reduce_)
    return {x["id"] for x in r.records.get("EXPLAINED", [])}, todo


def _out_of_order(rec):
    """did some chunk finish before an earlier one (per TLC's schedule, reproduced)?"""
    f = rec["forder"]
    return any(a > b for a, b in zip(f, f[1:]))


def part_pmap(ctx):
    B = PMAP_BOUNDS[ctx.tier]
    consts = dict(B, AnyOrder=False, DoExport=True)
    # model: every schedule; ordered delivery; liveness under weak fairness (no state constraint besides the export print)
    r1 = ctx.tlc("PoolMap.tla", what="PoolMap: delivered = prefix of map(fn, items) under every schedule; <>all delivered (WF); export",
                 cfg_text=cfg(spec="Spec", constants=consts, invariants=["PrefixInv", "ConserveInv", "FinalInv"],
                              properties=["AllDelivered"], constraints=["Export"]),
                 workers=1, require=["ChooseN", "ChooseWC", "TakeAny", "EvalAny", "FinishAny", "Deliver"], timeout=3000)
    rb = ctx.tlc("PoolMap.tla", what="self-test: Deliver of ANY finished chunk violates PrefixInv",
                 cfg_text=cfg(spec="Spec", constants=dict(B, MaxItems=3, AnyOrder=True, DoExport=False), invariants=["PrefixInv"]),
                 workers=2, allow_violation=True, coverage=False)
    if "PrefixInv" not in rb.violated:
        raise MachineryError("self-test failed: PoolMap PrefixInv not violated by unordered delivery")
    scheds = sorted({(c["n"], c["W"], c["cs"], tuple(c["forder"])) for c in r1.records.get("CASE", [])})
    if len(scheds) < 20:
        raise MachineryError("PoolMap export: only %d schedules" % len(scheds))
    rng = random.Random(ctx.seed * 32452843 + 4)
    opts = [{"total": "exact", "simple": False}, {"total": "none", "simple": False},
            {"total": "exact", "simple": True}, {"total": "exact", "simple": False}]
    recs, nid = [], 0
    for j, (n, W, cs, forder) in enumerate(scheds):
        nid += 1
        vals = [rng.randrange(0, 4) for _ in range(n)]            # ties among the items
        rec = pmap_run(n, W, cs, vals, list(forder), opts[j % 4], itkind=("list", "gen", "tuple")[j % 3])
        rec["id"] = nid
        recs.append(rec)
        ctx.count({"pmap": [n, W, cs, list(forder)], "opt": opts[j % 4]})
    # the documented rejection and the remaining option corner
    for opt in ({"total": "none", "simple": True},):
        nid += 1
        rec = pmap_run(3, 2, 1, [1, 2, 3], [], opt)
        rec["id"] = nid
        recs.append(rec)
        ctx.count({"pmap": [3, 2, 1], "opt": opt})
    nsched = len(recs)
    # seeded latencies, nproc 1..8 (quick: 1..3), chunksize 1..len+1
    nrand, maxw, maxn = (25, 3, 7) if ctx.quick else (400, 8, 13)
    for j in range(nrand):
        nid += 1
        n = rng.choice([0, 1, 2, 5, maxn, rng.randrange(0, maxn + 1)])
        W = 1 + (j % maxw)
        cs = rng.randrange(1, n + 2)
        vals = [rng.randrange(0, 6) for _ in range(n)]
        sleeps = [rng.choice([0, 0, 300, 1500, 4000]) for _ in range(n)]
        if n >= 2:
            sleeps[0] = 6000                                       # the first item is the slowest
        rec = pmap_run(n, W, cs, vals, [], opts[j % 4], sleeps=sleeps, itkind=("list", "gen", "tuple")[j % 3])
        rec["id"], rec["sleeps"] = nid, sleeps
        recs.append(rec)
        ctx.count({"pmap": [n, W, cs], "sleeps": sleeps, "opt": opts[j % 4]})
    ctx.sample({"pmap_case": recs[nsched // 2]["c"], "forder": recs[nsched // 2]["forder"], "returned": recs[nsched // 2]["res"],
                "worker_streams": recs[nsched // 2]["workers"]})
    pmap_judge(ctx, recs, "judge pmap runs (PoolMapTrace)")
    explained, todo = pmap_explain(ctx, recs, "explain worker streams by an interleaving of PoolMap actions (PoolMapTrace)")
    unexplained = [x for x in todo if x["id"] not in explained]
    # cross-check of the priority reduction on the small schedule replays
    small = [x for x in todo if x["id"] <= nsched][:60]
    ex2, _ = pmap_explain(ctx, small, "cross-check: unreduced interleaving search on %d records" % len(small), reduce_=False)
    if ex2 != {x["id"] for x in small if x["id"] in explained}:
        raise MachineryError("PoolMapTrace: reduced and unreduced searches disagree: %s vs %s" % (sorted(ex2), sorted(explained)))
    reproduced = [x for x in recs[:nsched] if x["forder"] and x["id"] in explained]
    ooo = [x for x in reproduced if _out_of_order(x)]
    gave = [x for x in recs if x["gave_up"]]
    # binding self-tests on a reproduced out-of-order schedule
    if ooo:
        probe = max(ooo, key=lambda x: (x["res"]["err"] == "none", len(x["forder"])))
        val = probe["res"]["val"]
        done_order = [i for k in probe["forder"] for i in range((k - 1) * probe["c"]["cs"], min(k * probe["c"]["cs"], probe["c"]["n"]))]
        bad1 = dict(probe, id=2, res={"err": "none", "val": [val[i] for i in done_order]})        # completion order
        bad2 = dict(probe, id=3, res={"err": "none", "val": val[:-1]})
        w = [list(s) for s in probe["workers"]]
        w[0] = w[0][2:] + w[0][:2] if len(w[0]) > 2 else w[0][::-1]
        bad3 = dict(probe, id=4, workers=w)                                                       # a stream the model cannot produce
        good = dict(probe, id=1)
        saved, nv = ctx.traces, len(ctx.violations)
        rej = pmap_judge(ctx, [good, bad1, bad2, bad3], "self-test: corrupted pmap results rejected")
        ex, _ = pmap_explain(ctx, [good, bad1, bad2, bad3], "self-test: corrupted pmap streams not explained")
        ctx.traces = saved
        del ctx.violations[nv:]
        distinct_vals = [val[i] for i in done_order] != val
        if 1 in rej or 3 not in rej or (distinct_vals and 2 not in rej) or 1 not in ex or 4 in ex or 3 in ex:
            raise MachineryError("binding self-test failed (pmap): rejected=%s explained=%s" % (rej, sorted(ex)))
    elif not gave:
        raise MachineryError("no out-of-order schedule was reproduced on the real pool (vacuous pmap check)")
    ctx.note(pmap=dict(bounds=B, schedules_exported=len(scheds), schedules_reproduced=len(reproduced),
                       reproduced_out_of_order=len(ooo), seeded_latency_runs=nrand, max_nproc=maxw,
                       streams_explained=len(explained), streams_unexplained=[x["id"] for x in unexplained][:20],
                       schedule_waits_given_up=len(gave)))
    if unexplained or gave:
        ctx.log("LEAD (mechanism, not a verdict): %d pmap runs not explained by PoolMap.tla, %d schedule waits given up"
                % (len(unexplained), len(gave)))
    return ("every completion order of every (items 0..%d, nproc 1..%d, chunksize 1..%d) schedule exported from PoolMap.tla imposed "
            "on the real pool, plus %d seeded-latency runs with nproc 1..%d, chunksize 1..len+1, up to %d items"
            % (B["MaxItems"], B["MaxW"], B["MaxCS"], nrand, maxw, maxn))


# =====================================================================================
def run(ctx):
    rules = []
    if _want(ctx, "sort"):
        rules.append("sort: " + part_sort(ctx))
    if _want(ctx, "chunk"):
        rules.append("chunk: " + part_chunk(ctx))
    if _want(ctx, "pbar"):
        rules.append("pbar: " + part_pbar(ctx))
    if _want(ctx, "pmap"):
        rules.append("pmap: " + part_pmap(ctx))
    ctx.rule = "; ".join(rules) + ("; a case is distinct by its abstract record (+ container / entry point) and counted once; "
                                   "trivial cases (empty inputs) are included in the count, they are a named part of the quantifier")
    ctx.exhaustive = True
    ctx.assumptions = [
        "keys are totally ordered values without NaN; key-value inputs have equal length",
        "splitarray: 1-d inputs (the docstring's 'number of elements in each sub-array'); an empty trailing chunk is accepted",
        "total=, when given, is the exact count or a positive estimate (n-1 >= 1, n+2); total=0 for a non-empty iterable is outside the reading",
        "simple=True without total= on a length-less iterable (and therefore pmap(simple=True) without total=) may be rejected (documented)",
        "laziness is read as the weaker invariant pulled <= yielded + 1",
        "text written to file= is not constrained",
        "pmap worker streams that PoolMap.tla cannot explain are reported as leads in the evidence, never as violations",
    ]
    ctx.trusted_base = ctx.trusted_base + [
        "CPython generator / iterator protocol and concurrent.futures.ProcessPoolExecutor as the substrate the wrappers run on",
        "the recording iterables and the logging task function of harness/vh/c20_tasks.py (exercised by the corrupted-stream self-tests)",
    ]


def replay(ctx, case):
    kind = case.get("kind")
    if kind == "sort":
        c = case["c"]
        o = sort_obs(c["variant"], case["kkind"], case["vkind"], c["keys"], c["vals"])
        print("replay observed:", o)
        _judge_sort(ctx, [{"id": 1, "c": c, "obs": [o]}], "replay")
    elif kind == "chunk":
        c = case["c"]
        o = isplit_obs(c["num"], c["nchunks"], case["flavour"]) if c["fn"] == "isplit" else split_obs(c["nper"], c["a"], case["flavour"])
        print("replay observed:", o)
        _judge_chunks(ctx, [{"id": 1, "c": c, "obs": [o]}], "replay")
    elif kind == "pbar":
        ev, errcls = pbar_run(case["c"], case["entry"])
        print("replay observed:", ev, errcls)
        _judge_pbar(ctx, [{"id": 1, "c": case["c"], "entry": case["entry"], "ev": ev, "errcls": errcls}], "replay")
    elif kind == "pmap":
        c = case["c"]
        rec = pmap_run(c["n"], c["W"], c["cs"], c["items"], case.get("forder") or [], case["opt"], sleeps=case.get("sleeps"),
                       itkind=case.get("itkind", "list"))
        rec["id"] = 1
        print("replay observed:", rec["res"], rec["workers"])
        pmap_judge(ctx, [rec], "replay")
    else:
        raise MachineryError("unknown replay case kind %r" % kind)
