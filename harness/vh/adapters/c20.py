"""C20 - sorting, chunking and progress/parallel wrappers preserve items and order.

Nine sub-checks, each with the same shape (TLC model -> exported cases -> real code
-> recorded observations -> TLA+ trace module); Python only maps abstract <->
concrete and records, the specification judges.

  sort   Quicksort.tla (PlusCal, explicit stack, hole-based partition, plain + key-value)
         -> esutil.algorithm.quicksort / quicksort_keyvalue  -> QuicksortTrace.tla
  chunk  Isplit.tla (isplit's divmod/cumsum steps, splitarray's slices)
         -> esutil.algorithm.isplit, esutil.numpy_util.splitarray -> ChunkTrace.tla
  pbar   ProgressIter.tla (consumer / wrapper / source protocol)
         -> esutil.pbar.pbar / PBar / prange (sbar behind simple=True) -> ProgressIterTrace.tla
  pmap   PoolMap.tla (Take / Eval / Finish / Deliver under every schedule)
         -> esutil.pbar.pmap with a logging task function whose completion order is the
            one TLC exported -> PoolMapTrace.tla (result = map, and an interleaving of
            the model's actions that explains the per-process event streams)

  sortscale  SortScale.tla (structured inputs of 39..2500 elements as run-length encoded ramps; law: the clauses on the
         encoding = the clauses on the arrays) -> the real sorts at the default recursion limit -> QuicksortTrace.tla
         (Algo!SortFailingR on the run-length encoded result)
  pbarhist   ProgressHist.tla (several wrapper objects over shared / exhausted / failing iterables, finished wrappers
         asked again, consumers walking away) -> consumer scripts (tlc -simulate) on pbar / PBar -> ProgressHistTrace.tla
  pmaphist   PoolHist.tla (histories of pmap calls in ONE process: module state the task function reads, the caller's
         list object and a long-lived iterator change between the calls; failing and rejected calls are stutter
         steps; mechanism variant with a pool kept between calls) -> histories (tlc -simulate), each executed in a
         forked child of its own -> PoolHistTrace.tla (call k = list(map(fn_k, items_k)) in the parent AT THAT TIME)

  sortalias  QuicksortAlias.tla (ALIASING between the two arguments of quicksort_keyvalue as a dimension of the sort cases:
         separate arrays / sibling columns of one table / the same array twice / the keys a column of the table passed as
         values; memory model with views, AliasLaw: any program of pair moves leaves through the views what it leaves on
         separate arrays; deviating mechanisms: pivot by reference, whole-array reordering) -> the real aliased calls in
         several representations (structured, 2-d, recarray, memmap, list) -> QuicksortTrace.tla through the views
  chunkworld IsplitWorld.tla (WORLD machine: sessions of isplit / splitarray calls in one process with caller steps
         scribble(result) and mutarr(argument); WorldInv: every call returns the fresh-world outcome, results handed out
         change only by their holder's hand; deviating mechanism: a memo handing out its own storage / keyed by identity)
         -> sessions (tlc -simulate, the ones richest in collisions), each executed in a forked child of its own
         -> IsplitWorldTrace.tla; a replay re-executes the whole session in one fresh process

The model-level TLC runs of all parts are independent of the real code and of each other: `_prefetch` starts them
side by side.  `./check C20 --only sort,sortalias,sortscale,chunk,chunkworld,pbar,pbarhist,pmap,pmaphist` runs a subset
(development aid).
"""
import array
import collections
import io
import os
import random
import shutil
import tempfile

import numpy as np

from .. import c20_tasks, tracecheck
from ..core import MachineryError
from ..tlc import cfg

NEEDS_EXT = True      # `import esutil` imports sfile -> recfile, which needs its extension (build is cached)

PARTS = ("sort", "sortalias", "sortscale", "chunk", "chunkworld", "pbar", "pbarhist", "pmap", "pmaphist")


def _want(ctx, part):
    only = getattr(ctx, "only", None)
    return not only or part in only


def _err(e):
    return type(e).__name__


# =====================================================================================
# 0. the model-level TLC runs of all parts (independent of each other and of the real code): started together
# =====================================================================================
QS_LABELS = ["choose_n", "choose_a", "qs", "enter", "part", "outer", "up", "dn", "fin", "recurse"]


def _model_table(ctx):
    """key -> (module, kwargs of ctx.tlc); the key's prefix is the part that uses the run"""
    t = {}
    B = SORT_BOUNDS[ctx.tier]
    t["sort.mc"] = ("Quicksort.tla", dict(
        what="Quicksort: termination, Sorted /\\ Perm (pairs), partition invariants; export",
        cfg_text=cfg(spec="Spec", constants=dict(B, KVCarry=True, SmallerFirst=True, Log=True, DoExport=True),
                     invariants=["MechRefines", "PairsTogether", "HoleInv", "SplitInv", "StackInv", "DepthInv"],
                     properties=["Termination"], constraints=["Export"]),
        workers=1, require=QS_LABELS, timeout=3000))
    t["sort.self"] = ("Quicksort.tla", dict(
        what="self-test: key-value partition that leaves a value behind violates MechRefines",
        cfg_text=cfg(spec="Spec", constants=dict(B, MaxLen=3, KVCarry=False, SmallerFirst=True, Log=False, DoExport=False), invariants=["MechRefines"]),
        workers=2, allow_violation=True, coverage=False))
    t["sort.selfdepth"] = ("Quicksort.tla", dict(
        what="self-test: the pinned control flow (a call for either part) sorts but violates DepthInv",
        cfg_text=cfg(spec="Spec", constants=dict(B, MaxLen=4, KVCarry=True, SmallerFirst=False, Log=False, DoExport=False),
                     invariants=["MechRefines", "DepthInv"]),
        workers=2, allow_violation=True, coverage=False))
    T = SCALE_TIERS[ctx.tier]
    sc = dict(Sizes=set(T["small"]) | set(T["large"]), SmallSizes=SCALE_SMALLSIZES, LawModes={"plain", "lin", "pos"},
              LawK=T["LawK"], LawN=T["LawN"], DoExport=False)
    t["sortscale.law"] = ("SortScale.tla", dict(
        what="SortScale: clauses on run-length encoded arrays = clauses on the arrays (RampLaw); shapes are what they say (ShapeLaw)",
        cfg_text=cfg(constants=sc, invariants=["RampLaw", "ShapeLaw"]), workers=4, coverage=False, timeout=3000))
    t["sortscale.self"] = ("SortScale.tla", dict(
        what="self-test: a sortedness clause that ignores ramp boundaries violates the law",
        cfg_text=cfg(constants=dict(sc, LawModes={"plain"}), invariants=["RampLawNoBoundary"]), workers=2, allow_violation=True, coverage=False))
    t["sortscale.export"] = ("SortScale.tla", dict(
        what="export scale cases (shape x size x variant)",
        cfg_text=cfg(constants=dict(sc, DoExport=True), constraints=["Export"]), workers=1, coverage=False, timeout=3000))
    AL = dict(ALIAS_LAW, Modes=ALIAS_MODES, Mech="pairwise")
    t["sortalias.law"] = ("QuicksortAlias.tla", dict(
        what="QuicksortAlias: any program of pair moves leaves the same through aliased views as on separate arrays (AliasLaw, no step bound)",
        cfg_text=cfg(constants=AL, invariants=["AliasLaw", "RowsIntact", "TypeInv"]), workers=4, coverage=False, timeout=3000))
    t["sortalias.self.tmpref"] = ("QuicksortAlias.tla", dict(
        what="self-test: a pivot held by reference instead of a copy violates AliasLaw",
        cfg_text=cfg(constants=dict(AL, Mech="tmpref"), invariants=["AliasLaw"]), workers=2, allow_violation=True, coverage=False))
    t["sortalias.self.twophase"] = ("QuicksortAlias.tla", dict(
        what="self-test: keys[:] = keys[order]; data[:] = data[order] violates AliasLaw when the keys are a column of the values",
        cfg_text=cfg(constants=dict(AL, Mech="twophase", Modes={"field", "same"}), invariants=["AliasLaw"]), workers=2, allow_violation=True, coverage=False))
    if ctx.tier != "quick":
      t["sortalias.twophase_separate"] = ("QuicksortAlias.tla", dict(
          what="the whole-array mechanism is right on separate arrays and sibling columns",
          cfg_text=cfg(constants=dict(AL, Mech="twophase", Modes={"none", "sibling"}), invariants=["AliasLaw"]), workers=2, coverage=False))
    t["sortalias.export"] = ("QuicksortAlias.tla", dict(
        what="export (alias mode, array) cases",
        cfg_text=cfg(constants=dict(ALIAS_BOUNDS[ctx.tier], Modes=ALIAS_MODES, Mech="pairwise", DoExport=True), next_="NextNone", constraints=["Export"]),
        workers=1, coverage=False, timeout=3000))
    CB = dict(CHUNK_BOUNDS[ctx.tier], SizesFirst=True, DoExport=False)
    t["chunk.mc"] = ("Isplit.tla", dict(
        what="Isplit/SplitArray: mechanism refines property, reference accepted and unique (exhaustive)",
        cfg_text=cfg(constants=CB, invariants=["MechRefines", "RefAccepted", "RefUnique"]), workers=16,
        require=["ChooseNum", "ChooseChunks", "ChooseLen", "ChooseNper", "Divmod", "Sizes", "Cumsum", "Fill", "SCount", "SSlice", "SReturn"],
        timeout=3000))
    t["chunk.self"] = ("Isplit.tla", dict(
        what="self-test: smaller sections first violates MechRefines",
        cfg_text=cfg(constants=dict(CB, SizesFirst=False, MaxNum=7, MaxChunks=4, MaxLen=1, MaxNper=1), invariants=["MechRefines"]),
        workers=2, allow_violation=True, coverage=False))
    t["chunk.export"] = ("Isplit.tla", dict(
        what="export (num, nchunks) and (nper, array) cases",
        cfg_text=cfg(constants=dict(CB, DoExport=True), next_="NextExport", constraints=["Export"]), workers=1, coverage=False, timeout=3000))
    WT = WORLD_TIERS[ctx.tier]
    wsmall = dict(WORLD_CONSTS, Chunks={3}, Npers={2}, MaxOps=4, MaxSlots=3, DoExport=False)
    t["chunkworld.mc"] = ("IsplitWorld.tla", dict(
        what="IsplitWorld: every call of every session returns the fresh-world outcome; held results change only by their holder's hand",
        cfg_text=cfg(init="WInit", next_="WNext", constants=dict(wsmall, Mech="fresh"), invariants=["WorldInv"]), workers=4, coverage=False, timeout=3000))
    if ctx.tier != "quick":
        t["chunkworld.memo_copy"] = ("IsplitWorld.tla", dict(
            what="IsplitWorld: a memo that hands out copies is faithful",
            cfg_text=cfg(init="WInit", next_="WNext", constants=dict(wsmall, Mech="memo_copy"), invariants=["WorldInv"]), workers=2, coverage=False, timeout=3000))
    t["chunkworld.self"] = ("IsplitWorld.tla", dict(
        what="self-test: a memo that hands out its own storage / keyed by the identity of the array violates WorldInv",
        cfg_text=cfg(init="WInit", next_="WNext", constants=dict(wsmall, Mech="memo_shared"), invariants=["WorldInv"]),
        workers=2, allow_violation=True, coverage=False))
    t["chunkworld.sim"] = ("IsplitWorld.tla", dict(
        what="simulate sessions of isplit / splitarray calls (icall / scribble / scall / mutarr)",
        cfg_text=cfg(init="WInit", next_="WNext", constants=dict(WORLD_CONSTS, Mech="fresh", MaxOps=WT["depth"], MaxSlots=WT["slots"], DoExport=True),
                     constraints=["Export"]),
        workers=1, coverage=False, timeout=3000, simulate="num=%d" % WT["num"],
        extra=["-depth", str(WT["depth"] + 2), "-seed", str(4000 + ctx.seed)]))
    PB = dict(PBAR_CONSTS, **PBAR_BOUNDS[ctx.tier])
    t["pbar.mc"] = ("ProgressIter.tla", dict(
        what="ProgressIter: prefix, laziness, no loss, completion (every case, most general wrapper)",
        cfg_text=cfg(spec="Spec", constants=PB, invariants=["PrefixInv", "LazyInv", "NoLoss", "MechRefines"], properties=["Completes", "AllYielded"]),
        workers=4, require=["ChooseSrc", "ChooseProto", "Request", "Abandon", "PullAny", "PullEnd", "YieldAny", "Exhaust", "Reject"]))
    for var, inv in (("Lazy", "LazyInv"), ("FixedMeter", "MechRefines")):
        t["pbar.self." + var] = ("ProgressIter.tla", dict(
            what="self-test: %s = FALSE violates %s" % (var, inv),
            cfg_text=cfg(spec="Spec", constants=dict(PB, **{var: False}), invariants=[inv]), workers=2, allow_violation=True, coverage=False))
    t["pbar.export"] = ("ProgressIter.tla", dict(
        what="export cases (kind x length x total x simple x requests x cosmetic options)",
        cfg_text=cfg(constants=dict(PB, DoExport=True), init="MInit", next_="NextExport", constraints=["Export"]),
        workers=1, coverage=False, timeout=3000))
    H = PBH_TIERS[ctx.tier]
    t["pbarhist.mc"] = ("ProgressHist.tla", dict(
        what="ProgressHist: several wrappers / shared, exhausted, failing iterables: prefix, no loss, nothing twice, laziness",
        cfg_text=cfg(init="HInit", next_="HNext", constants=dict(H["model"], Lazy=True, DoExport=False),
                     invariants=["HPrefix", "HShared", "HLazy", "HNoLoss"]), workers=4, coverage=False, timeout=3000))
    t["pbarhist.self"] = ("ProgressHist.tla", dict(
        what="self-test: Lazy = FALSE violates HLazy",
        cfg_text=cfg(init="HInit", next_="HNext", constants=dict(H["model"], MaxN=2, MaxCmd=2, Lazy=False, DoExport=False), invariants=["HLazy"]),
        workers=2, allow_violation=True, coverage=False))
    t["pbarhist.sim"] = ("ProgressHist.tla", dict(
        what="simulate consumer scripts (wrap / next / close / drop on several wrappers and iterables)",
        cfg_text=cfg(init="HInit", next_="HNextExport", constants=dict(H["sim"], Lazy=True, DoExport=True), constraints=["Export"]),
        workers=1, coverage=False, timeout=3000, simulate="num=%d" % H["num"],
        extra=["-depth", str(H["sim"]["MaxCmd"] + H["sim"]["MaxSrc"] + 3), "-seed", str(3000 + ctx.seed)]))
    P = PMH_TIERS[ctx.tier]
    pc = dict(PMH_CONSTS, PoolMode="fresh", Thin=False, DoExport=False)
    small = dict(pc, MaxLen=3, MaxW=2, MaxCS=2, Gens={0, 1, 2})
    t["pmaphist.mc"] = ("PoolHist.tla", dict(
        what="PoolHist: every call of every history returns map(fn, items) of the parent AT THAT TIME; calls stutter on the caller's state",
        cfg_text=cfg(init="HInit", next_="HNext", constants=dict(small, HDepth=P["mc_depth"]), invariants=["HistRefines", "TypeInv"],
                     properties=["StutterLaw"]), workers=4, coverage=False, timeout=3000))
    t["pmaphist.self"] = ("PoolHist.tla", dict(
        what="self-test: a pool kept between calls (workers = snapshot of the first call) violates HistRefines",
        cfg_text=cfg(init="HInit", next_="HNext", constants=dict(small, HDepth=4, PoolMode="cached"), invariants=["HistRefines"]),
        workers=2, allow_violation=True, coverage=False))
    t["pmaphist.sim"] = ("PoolHist.tla", dict(
        what="simulate long histories of pmap calls (settab / mut / newiter / call, failing and rejected calls interleaved)",
        cfg_text=cfg(init="HInit", next_="HNext", constants=dict(pc, Thin=True, DoExport=True, HDepth=P["depth"]), constraints=["Export"]),
        workers=1, coverage=False, timeout=3000, simulate="num=%d" % P["num"],
        extra=["-depth", str(3 * P["depth"] + 3), "-seed", str(2000 + ctx.seed)]))
    MB = PMAP_BOUNDS[ctx.tier]
    t["pmap.mc"] = ("PoolMap.tla", dict(
        what="PoolMap: delivered = prefix of map(fn, items) under every schedule; <>all delivered (WF); export",
        cfg_text=cfg(spec="Spec", constants=dict(MB, AnyOrder=False, DoExport=True), invariants=["PrefixInv", "ConserveInv", "FinalInv"],
                     properties=["AllDelivered"], constraints=["Export"]),
        workers=1, require=["ChooseN", "ChooseWC", "TakeAny", "EvalAny", "FinishAny", "Deliver"], timeout=3000))
    t["pmap.self"] = ("PoolMap.tla", dict(
        what="self-test: Deliver of ANY finished chunk violates PrefixInv",
        cfg_text=cfg(spec="Spec", constants=dict(MB, MaxItems=3, AnyOrder=True, DoExport=False), invariants=["PrefixInv"]),
        workers=2, allow_violation=True, coverage=False))
    return t


def _prefetch(ctx):
    """start the model-level runs of the wanted parts side by side and wait for all of them (no thread is left running
    when the parts fork their helper processes)"""
    from concurrent.futures import ThreadPoolExecutor
    table = {k: v for k, v in _model_table(ctx).items() if _want(ctx, k.split(".")[0])}
    lanes = max(2, min(6, int(os.environ.get("VH_MAX_WORKERS", "16")) // 2))
    ctx._c20_models = {}

    def one(item):
        key, (module, kw) = item
        try:
            return key, ctx.tlc(module, **kw), None
        except Exception as e:  # noqa  (re-raised where the part asks for the run)
            return key, None, e
    # the long runs first
    order = sorted(table.items(), key=lambda kv: (not kv[0].endswith((".mc", ".law", ".sim", ".memo_copy")), kv[0]))
    with ThreadPoolExecutor(lanes) as ex:
        for key, r, e in ex.map(one, order):
            ctx._c20_models[key] = (r, e)


def _m(ctx, key):
    """result of a model-level run (pre-computed by _prefetch, or run now)"""
    pre = getattr(ctx, "_c20_models", None)
    if pre is None or key not in pre:
        module, kw = _model_table(ctx)[key]
        return ctx.tlc(module, **kw)
    r, e = pre[key]
    if e is not None:
        raise e
    return r


# =====================================================================================
# 1. sorting
# =====================================================================================
SORT_BOUNDS = {"quick": dict(MaxLen=5, Vals={0, 1, 2, 3}), "thorough": dict(MaxLen=6, Vals={0, 1, 2, 3})}

# key containers: name -> (monotone injection of the abstract key, container constructor, class)
_KEYMAPS = {
    "int": lambda v: v - 2,
    "float": lambda v: v * 0.25 - 1.0,
    "str": lambda v: "k%04d" % v,
    "bigint": lambda v: v * 2 ** 70 - 2 ** 71,
    "tuple": lambda v: (v // 2, v % 2),
}


def _memmap(vals, dtype):
    f = tempfile.NamedTemporaryFile(prefix="c20-mm-", suffix=".bin")
    m = np.memmap(f.name, dtype=dtype, mode="w+", shape=(max(len(vals), 1),))
    m = m[:len(vals)]
    m[:] = vals
    try:
        m._c20_file = f      # keep the file alive as long as the map
    except AttributeError:   # an empty slice of a memmap is a plain ndarray (numpy 2): nothing to keep alive
        pass
    return m


KEY_KINDS = {
    "list-int":    ("int", list, "list"),
    "list-float":  ("float", list, "list"),
    "list-str":    ("str", list, "list"),
    "list-bigint": ("bigint", list, "list"),
    "list-tuple":  ("tuple", list, "list"),
    "np-i8":       ("int", lambda x: np.array(x, dtype="i8"), "ndarray"),
    "np-f8":       ("float", lambda x: np.array(x, dtype="f8"), "ndarray"),
    "np-i2":       ("int", lambda x: np.array(x, dtype="i2"), "ndarray"),
    "np-f4>":      ("float", lambda x: np.array(x, dtype=">f4"), "ndarray"),
    "np-U":        ("str", lambda x: np.array(x, dtype="U5"), "ndarray"),
    "memmap-i4":   ("int", lambda x: _memmap(x, "i4"), "memmap"),
    "array-d":     ("float", lambda x: array.array("d", x), "array.array"),
    "deque-int":   ("int", collections.deque, "deque"),
}
PLAIN_KINDS = ["list-int", "list-float", "list-str", "list-bigint", "list-tuple", "np-i8", "np-f8", "np-i2",
               "np-f4>", "np-U", "memmap-i4", "array-d", "deque-int"]
KV_KEY_KINDS = ["list-int", "np-f8", "list-str", "np-i8", "memmap-i4"]

# value containers of the key-value variant: name -> (make(abstract list), back(container) -> abstract list, class)
_VSTRUCT = np.dtype([("a", "i4"), ("b", "f8"), ("s", "S3")])


def _vstruct(x):
    v = np.zeros(len(x), dtype=_VSTRUCT)
    for i, a in enumerate(x):
        v[i] = (a, a * 0.5, b"%03d" % (a % 1000))
    return v


def _vstruct_back(v):
    return [int(r["a"]) if (r["b"] == r["a"] * 0.5 and r["s"] == b"%03d" % (int(r["a"]) % 1000)) else -1 for r in v]


def _v2d_back(v):
    return [int(r[0]) if int(r[1]) == int(r[0]) + 1000 else -1 for r in v]


VAL_KINDS = {
    "list-int":   (list, lambda v: [x if isinstance(x, int) else -1 for x in v], "scalar"),
    "np-i8":      (lambda x: np.array(x, dtype="i8"), lambda v: [int(x) for x in v], "scalar"),
    "np-f8":      (lambda x: np.array(x, dtype="f8") * 0.5, lambda v: [int(x * 2) if float(x * 2).is_integer() else -1 for x in v], "scalar"),
    "list-str":   (lambda x: ["v%d" % a for a in x], lambda v: [int(s[1:]) if isinstance(s, str) and s[1:].isdigit() else -1 for s in v], "scalar"),
    "list-tuple": (lambda x: [(a, "t") for a in x], lambda v: [t[0] if isinstance(t, tuple) and len(t) == 2 else -1 for t in v], "pyobj"),
    "list-list":  (lambda x: [[a, a + 1000] for a in x], lambda v: [t[0] if isinstance(t, list) and t[1] == t[0] + 1000 else -1 for t in v], "pyobj"),
    "np-struct":  (_vstruct, _vstruct_back, "npview"),
    "np-2d":      (lambda x: np.array([[a, a + 1000] for a in x], dtype="i8").reshape(len(x), 2), _v2d_back, "npview"),
}
KV_VAL_KINDS = ["list-int", "np-i8", "np-f8", "list-str", "list-tuple", "list-list", "np-struct", "np-2d"]


def _keys_make(kind, keys_abs):
    m, ctor, _ = KEY_KINDS[kind]
    g = _KEYMAPS[m]
    conc = [g(v) for v in keys_abs]
    back = {}
    for v in set(keys_abs):
        back[g(v)] = v
    return ctor(conc), back


def _keys_back(kind, cont, back):
    out = []
    for x in cont:
        if isinstance(x, np.generic):
            x = x.item()
        if isinstance(x, bytes):
            x = x.decode()
        out.append(back.get(x, -1))
    return out


def sort_obs(variant, kkind, vkind, keys_abs, vals_abs):
    """run the real sort on one concretisation; returns the abstract observation"""
    from esutil import algorithm as al
    k, back = _keys_make(kkind, keys_abs)
    try:
        if variant == "plain":
            al.quicksort(k)
            o = {"err": "none", "keys": _keys_back(kkind, k, back), "vals": []}
        else:
            mk, bk, _ = VAL_KINDS[vkind]
            v = mk(list(vals_abs))
            al.quicksort_keyvalue(k, v)
            o = {"err": "none", "keys": _keys_back(kkind, k, back), "vals": [int(x) for x in bk(v)]}
    except Exception as e:  # noqa
        o = {"err": _err(e), "keys": [], "vals": []}
    o["kkind"], o["vkind"] = kkind, (vkind if variant == "kv" else "")
    return o


class _RecList(list):
    """list that logs element writes (diagnosis of the swap sequence only)"""
    def __init__(self, x):
        super().__init__(x)
        self.writes = []

    def __setitem__(self, i, v):
        self.writes.append([i + 1, v])
        super().__setitem__(i, v)


def sort_writes(keys_abs, kv):
    from esutil import algorithm as al
    k = _RecList(keys_abs)
    if kv:
        al.quicksort_keyvalue(k, list(range(1, len(keys_abs) + 1)))
    else:
        al.quicksort(k)
    return k.writes


def sort_depth(keys_abs, kv):
    """deepest nesting of _quicksort / _quicksort_keyvalue activations while sorting (diagnosis only)"""
    import sys
    from esutil import algorithm as al
    st = {"d": 0, "max": 0}
    names = ("_quicksort", "_quicksort_keyvalue")

    def prof(frame, event, arg):
        if frame.f_code.co_name in names:
            if event == "call":
                st["d"] += 1
                st["max"] = max(st["max"], st["d"])
            elif event == "return":
                st["d"] -= 1
    k = list(keys_abs)
    sys.setprofile(prof)
    try:
        if kv:
            al.quicksort_keyvalue(k, list(range(1, len(k) + 1)))
        else:
            al.quicksort(k)
    finally:
        sys.setprofile(None)
    return st["max"]


def _sort_sig(c, o, clause):
    if c["variant"] == "plain":
        return "quicksort|%s|%s" % (clause, KEY_KINDS[o["kkind"]][2])
    return "quicksort_keyvalue|%s|keys=%s,vals=%s" % (clause, KEY_KINDS[o["kkind"]][2], VAL_KINDS[o["vkind"]][2])


def _judge_sort(ctx, recs, what):
    rej = tracecheck.validate(ctx, "QuicksortTrace.tla",
                              [{"id": r["id"], "c": r["c"], "obs": [{"err": o["err"], "keys": o["keys"], "vals": o["vals"]} for o in r["obs"]]}
                               for r in recs], what=what)
    byid = {r["id"]: r for r in recs}
    for rid, failing in rej.items():
        r = byid[rid]
        for k, clause in failing:
            o = r["obs"][k - 1]
            ctx.violation(_sort_sig(r["c"], o, clause),
                          "in-place sort result not allowed by Algo!SortFailing: clause %s" % clause,
                          {"kind": "sort", "c": r["c"], "kkind": o["kkind"], "vkind": o["vkind"], "observed": o})
    return rej


def _sort_record(i, variant, keys_abs, vals_abs, kkinds, vkinds):
    c = {"variant": variant, "keys": list(keys_abs), "vals": list(vals_abs) if variant == "kv" else []}
    if variant == "plain":
        obs = [sort_obs("plain", kk, "", keys_abs, []) for kk in kkinds]
    else:
        obs = [sort_obs("kv", kk, vk, keys_abs, vals_abs) for kk in kkinds for vk in vkinds]
    return {"id": i, "c": c, "obs": obs}


def _seeded_arrays(rng, n, maxlen):
    out = []
    for k in range(n):
        ln = rng.choice([0, 1, 2, 3, 7, 16, 50, maxlen // 2, maxlen, rng.randrange(0, maxlen + 1)])
        nv = rng.choice([1, 2, 3, 10, 100, 1000])
        shape = rng.choice(["random", "sorted", "reversed", "constant", "organ", "nearly", "sawtooth"])
        a = [rng.randrange(nv) for _ in range(ln)]
        if shape == "sorted":
            a.sort()
        elif shape == "reversed":
            a.sort(reverse=True)
        elif shape == "constant":
            a = [a[0]] * ln if ln else []
        elif shape == "organ":
            a.sort()
            a = a[::2] + a[1::2][::-1]
        elif shape == "nearly":
            a.sort()
            for _ in range(min(3, ln)):
                i, j = rng.randrange(ln), rng.randrange(ln)
                a[i], a[j] = a[j], a[i]
        elif shape == "sawtooth":
            a = [i % max(1, nv % 7 + 1) for i in range(ln)]
        out.append((shape, a))
    return out


def part_sort(ctx):
    B = SORT_BOUNDS[ctx.tier]
    r1 = _m(ctx, "sort.mc")     # termination + sorted/permutation/pairs for every array of the scope; every run exported
    r1b = _m(ctx, "sort.self")
    r1c = _m(ctx, "sort.selfdepth")
    if r1c.violated != ["DepthInv"]:
        raise MachineryError("self-test failed: Quicksort with the pinned control flow must violate DepthInv only, got %s" % r1c.violated)
    if "MechRefines" not in r1b.violated:
        raise MachineryError("self-test failed: Quicksort MechRefines not violated by the deviating partition")
    seen, cases = set(), []
    for cse in r1.records.get("CASE", []):
        key = tuple(cse["keys"])
        if key not in seen:
            seen.add(key)
            cases.append(cse)
    nexp = sum(len(B["Vals"]) ** k for k in range(B["MaxLen"] + 1))
    if len(cases) != nexp:
        raise MachineryError("Quicksort export: %d cases, expected %d" % (len(cases), nexp))
    recs, nid, wlog_diff, depth_diff = [], 0, [], []
    for i, cse in enumerate(cases):
        keys = cse["keys"]
        pos = list(range(1, len(keys) + 1))
        nid += 1
        recs.append(_sort_record(nid, "plain", keys, [], PLAIN_KINDS, None))
        nid += 1
        recs.append(_sort_record(nid, "kv", keys, pos, [KV_KEY_KINDS[i % len(KV_KEY_KINDS)]], KV_VAL_KINDS))
        # mechanism conformance (diagnosis only): the model's write sequence = the code's on a recording list
        for kv in (False, True):
            w = sort_writes(keys, kv)
            if w != cse["wlog"]:
                wlog_diff.append({"keys": keys, "kv": kv, "model": cse["wlog"], "code": w})
            # ... and the model's deepest activation = the code's deepest call with a non-trivial range; the code also
            # calls itself once more on ranges of fewer than two elements, which the model's depth does not count
            dcode = sort_depth(keys, kv)
            if not (cse["maxdep"] <= dcode <= cse["maxdep"] + 1):
                depth_diff.append({"keys": keys, "kv": kv, "model": cse["maxdep"], "code": dcode})
        # the model's own final state is what the code leaves (same deterministic algorithm)
        ctx.count({"sort": keys})
    for r in recs[:: max(1, len(recs) // 3)][:2]:
        ctx.sample({"sort_case": r["c"], "observed": r["obs"][0]})
    _judge_sort(ctx, recs, "judge replayed sort cases (QuicksortTrace)")
    # larger seeded arrays, code -> spec
    nrand, maxlen = (150, 200) if ctx.quick else (2500, 200)
    rng = random.Random(ctx.seed * 7919 + 1)
    rrecs = []
    for j, (shape, a) in enumerate(_seeded_arrays(rng, nrand, maxlen)):
        nid += 1
        pk = [PLAIN_KINDS[(j + t) % len(PLAIN_KINDS)] for t in range(3)]
        if any(k == "np-i2" for k in pk) and a and max(a) > 30000:
            pk = [k for k in pk if k != "np-i2"]
        rrecs.append(_sort_record(nid, "plain", a, [], pk, None))
        nid += 1
        vals = [rng.randrange(max(1, len(a) // 2 + 1)) for _ in a] if j % 2 else list(range(1, len(a) + 1))
        rrecs.append(_sort_record(nid, "kv", a, vals, [KV_KEY_KINDS[j % len(KV_KEY_KINDS)]],
                                  [KV_VAL_KINDS[(j + t) % len(KV_VAL_KINDS)] for t in range(3)]))
        ctx.count({"sort": a, "shape": shape})
    _judge_sort(ctx, rrecs, "judge seeded larger sort cases (QuicksortTrace)")
    # binding self-test: a corrupted observation must be rejected, the genuine one accepted
    probe = next(r for r in recs if r["c"]["variant"] == "kv" and len(set(r["c"]["keys"])) >= 3 and r["obs"][0]["err"] == "none")
    good = dict(probe["obs"][0])
    bad1 = dict(good, keys=list(reversed(good["keys"])), vals=list(reversed(good["vals"])))
    bad2 = dict(good, vals=good["vals"][1:] + good["vals"][:1])
    bad3 = dict(good, keys=[good["keys"][0]] + good["keys"][:-1])
    saved = ctx.traces
    rej = tracecheck.validate(ctx, "QuicksortTrace.tla",
                              [{"id": 1, "c": probe["c"], "obs": [good]}] +
                              [{"id": 2 + t, "c": probe["c"], "obs": [b]} for t, b in enumerate((bad1, bad2, bad3))],
                              what="self-test: corrupted sort results rejected", workers=1)
    ctx.traces = saved
    want = {2: "not_sorted", 3: "pairs_broken", 4: "not_permutation"}
    if 1 in rej or any(k not in rej or want[k] not in [f[1] for f in rej[k]] for k in want):
        raise MachineryError("binding self-test failed (sort): %s" % rej)
    ctx.note(sort=dict(bounds={"MaxLen": B["MaxLen"], "Vals": sorted(B["Vals"])}, exported_arrays=len(cases),
                       plain_containers=PLAIN_KINDS, kv_key_containers=KV_KEY_KINDS, kv_value_containers=KV_VAL_KINDS,
                       seeded_arrays=nrand, seeded_maxlen=maxlen,
                       write_sequence_mismatches=len(wlog_diff), write_sequence_mismatch_example=wlog_diff[:1],
                       call_depth_mismatches=len(depth_diff), call_depth_mismatch_example=depth_diff[:1]))
    if depth_diff:
        ctx.log("LEAD (mechanism, not a verdict): %d call depths differ between Quicksort.tla and the code, e.g. %s" % (len(depth_diff), depth_diff[0]))
    if wlog_diff:
        ctx.log("LEAD (mechanism, not a verdict): %d write sequences differ between Quicksort.tla and the code, e.g. %s"
                % (len(wlog_diff), wlog_diff[0]))
    return ("every array of length 0..%d over %d keys (exported from Quicksort.tla) through %d plain containers and "
            "%d key x %d value containers, plus %d seeded arrays (ties, sorted, reversed, constant, organ-pipe, length 0..%d)"
            % (B["MaxLen"], len(B["Vals"]), len(PLAIN_KINDS), len(KV_KEY_KINDS), len(KV_VAL_KINDS), nrand, maxlen))


# =====================================================================================
# 1b. sorting at scale (SortScale.tla): run-length encoded cases and observations
# =====================================================================================
SCALE_TIERS = {"quick": dict(small={39, 40, 41, 42, 81, 82}, large={1000}, LawK=2, LawN=3),
               "thorough": dict(small={20, 39, 40, 41, 42, 43, 80, 81, 82, 83, 127, 128, 129}, large={500, 1000, 1500, 2500}, LawK=2, LawN=4)}
SCALE_SMALLSIZES = {0, 1, 2, 3, 4, 5, 7, 8, 9, 16, 17}
SCALE_BIG_PLAIN = ["list-int", "np-i8", "list-str", "np-f8"]
SCALE_BIG_KV = [("list-int", "np-2d"), ("np-i8", "np-struct"), ("list-int", "list-int"), ("np-f8", "list-tuple")]


def _ramps_decode(rs):
    return [a + j * d for a, d, k in rs for j in range(k)]


def _pair_ramps(keys, vals):
    """greedy run-length encoding of (keys[i], vals[i]) by constant first differences"""
    out, i, n = [], 0, len(keys)
    while i < n:
        if i + 1 == n:
            out.append([keys[i], 0, vals[i], 0, 1])
            break
        d, e, j = keys[i + 1] - keys[i], vals[i + 1] - vals[i], i + 1
        while j + 1 < n and keys[j + 1] - keys[j] == d and vals[j + 1] - vals[j] == e:
            j += 1
        out.append([keys[i], d, vals[i], e, j - i + 1])
        i = j + 1
    return out


def sortscale_obs(arg):
    """one scale case through one container combination, at the interpreter's DEFAULT recursion limit (a sort that needs a
    call per element fails there for about a thousand ordered elements: an error is a violation)"""
    c, kkind, vkind = arg
    keys_abs = _ramps_decode(c["keys"])
    n = len(keys_abs)
    vals_abs = ([] if c["variant"] == "plain" else list(range(1, n + 1)) if c["valmode"] == "pos" else [3 * k + 1 for k in keys_abs])
    o = sort_obs(c["variant"], kkind, vkind, keys_abs, vals_abs)
    if o["err"] == "none":
        o["pr"] = _pair_ramps(o["keys"], o["vals"] if c["variant"] == "kv" else [0] * len(o["keys"]))
    else:
        o["pr"] = []
    del o["keys"], o["vals"]
    return o


def _scale_sig(c, o, clause):
    if o["err"] == "RecursionError":
        # one defect whatever the container: the recursion is as deep as the ordered input is long
        return "%s|unexpected_error|ordered_input,%s" % ("quicksort" if c["variant"] == "plain" else "quicksort_keyvalue",
                                                        "n>=1000" if c["n"] >= 1000 else "n<1000")
    return _sort_sig(c, o, clause)


def _judge_scale(ctx, recs, what, selftest=()):
    rej = tracecheck.validate(ctx, "QuicksortTrace.tla",
                              [{"id": r["id"], "c": {k: r["c"][k] for k in ("variant", "keys", "valmode")},
                                "obs": [{"err": o["err"], "pr": o["pr"]} for o in r["obs"]]} for r in recs], what=what)
    ctx.traces -= len([i for i in selftest if i not in rej])
    byid = {r["id"]: r for r in recs}
    for rid, failing in rej.items():
        if rid in selftest:
            continue
        r = byid[rid]
        for k, clause in failing:
            o = r["obs"][k - 1]
            ctx.violation(_scale_sig(r["c"], o, clause),
                          "in-place sort of %d elements (%s) not allowed by Algo!SortFailingR: clause %s%s"
                          % (r["c"]["n"], r["c"]["shape"], clause, (" (" + o["err"] + ")") if o["err"] != "none" else ""),
                          {"kind": "sortscale", "c": r["c"], "kkind": o["kkind"], "vkind": o["vkind"],
                           "observed": {"err": o["err"], "pr": o["pr"][:40]}})
    return rej


def part_sortscale(ctx):
    T = SCALE_TIERS[ctx.tier]
    sizes = set(T["small"]) | set(T["large"])
    r1 = _m(ctx, "sortscale.law")
    if r1.distinct < 5000:
        raise MachineryError("SortScale law run visited only %d states" % r1.distinct)
    rb = _m(ctx, "sortscale.self")
    if "RampLawNoBoundary" not in rb.violated:
        raise MachineryError("self-test failed: SortScale RampLawNoBoundary not violated")
    r2 = _m(ctx, "sortscale.export")
    cases = sorted(r2.records.get("SCALE", []), key=lambda c: (c["n"], c["shape"], c["variant"]))
    if len(cases) != 8 * 2 * len(sizes):
        raise MachineryError("SortScale export: %d cases, expected %d" % (len(cases), 16 * len(sizes)))
    jobs, owner = [], []
    for i, c in enumerate(cases):
        big = c["n"] in T["large"]
        if c["variant"] == "plain":
            kinds = ([SCALE_BIG_PLAIN[(i // 2 + t) % len(SCALE_BIG_PLAIN)] for t in range(2)] if big
                     else [PLAIN_KINDS[(i // 2 + t * 5) % len(PLAIN_KINDS)] for t in range(3)])
            combos = [(k, "") for k in kinds]
        else:
            combos = ([SCALE_BIG_KV[(i // 2 + t) % len(SCALE_BIG_KV)] for t in range(2)] if big
                      else [(KV_KEY_KINDS[(i // 2) % len(KV_KEY_KINDS)], KV_VAL_KINDS[(i // 2 + t * 3) % len(KV_VAL_KINDS)]) for t in range(3)])
        for kk, vk in combos:
            jobs.append((c, kk, vk))
            owner.append(i)
        ctx.count({"sortscale": [c["shape"], c["n"], c["variant"]]})
    # the long quadratic cases first, so that the lanes are evenly loaded
    order = sorted(range(len(jobs)), key=lambda j: -jobs[j][0]["n"])
    res = _isolated_many(sortscale_obs, [jobs[j] for j in order], 4)
    obs = [None] * len(jobs)
    for j, o in zip(order, res):
        obs[j] = o
    recs = []
    for i, c in enumerate(cases):
        recs.append({"id": i + 1, "c": c, "obs": [obs[j] for j in range(len(jobs)) if owner[j] == i]})
    ctx.sample({"sort_scale_case": {k: v for k, v in recs[-1]["c"].items()}, "observed": recs[-1]["obs"][0]})
    # binding self-test: corrupted encodings of a long result ride along
    probe = next(r for r in recs if r["c"]["n"] == max(T["large"]) and r["c"]["shape"] == "reversed" and r["c"]["variant"] == "kv")
    n = probe["c"]["n"]
    good = probe["obs"][0]["pr"]
    if good != [[0, 1, n, -1, n]] and probe["obs"][0]["err"] == "none":
        if not ctx.violations:
            raise MachineryError("unexpected encoding of a sorted reversed array: %s" % good[:5])
    S = [10 ** 6 + t for t in range(1, 4)]
    h = n // 2                                                                  # reversed input: key k came from position n - k
    bads = [[[0, 1, n, -1, n - 1], [n - 2, 0, 1, 0, 1]],                        # last key repeated: not a permutation, pair broken
            [[1, 1, n - 1, -1, n - 1], [0, 0, n, 0, 1]],                        # smallest key at the end: not sorted
            [[0, 1, n, -1, h - 1], [h - 1, 0, n - h, 0, 1], [h, 0, n - h + 1, 0, 1], [h + 1, 1, n - h - 1, -1, n - h - 1]]]   # two values exchanged
    want = [{"not_permutation", "pairs_broken"}, {"not_sorted"}, {"pairs_broken"}]
    rej = _judge_scale(ctx, recs + [{"id": S[t], "c": probe["c"], "obs": [dict(probe["obs"][0], err="none", pr=bads[t])]} for t in range(3)],
                       "judge scale sort cases on run-length encoded observations (QuicksortTrace; corrupted copies ride along)", selftest=S)
    got = [{f[1] for f in rej.get(S[t], [])} for t in range(3)]
    if got != want and not ctx.violations:
        raise MachineryError("binding self-test failed (sort scale): %s" % got)
    import sys
    ctx.note(sortscale=dict(sizes=sorted(sizes), shapes=8, cases=len(cases), runs=len(jobs), law_states=r1.distinct,
                            recursion_limit=sys.getrecursionlimit()))
    return ("8 structured shapes (sorted, reversed, constant, runs of ties up / down, organ pipe, rotated, sawtooth) x lengths %s x plain / "
            "key-value exported from SortScale.tla, %d real sorts at the interpreter's default recursion limit, judged by Algo!SortFailingR "
            "on run-length encoded results" % (sorted(sizes), len(jobs)))


# =====================================================================================
# 1c. aliasing between the keys and the values of one call (QuicksortAlias.tla)
# =====================================================================================
ALIAS_BOUNDS = {"quick": dict(MaxLen=4, Vals={0, 1, 2, 3}), "thorough": dict(MaxLen=5, Vals={0, 1, 2, 3})}
ALIAS_MODES = {"none", "sibling", "same", "field"}
ALIAS_LAW = dict(MaxLen=3, Vals={0, 1, 2}, DoExport=False)
ALIAS_KTYPES = {"i8": ("int", "i8"), "f8": ("float", "f8"), "U": ("str", "U5"), ">i4": ("int", ">i4"), "f4": ("float", "f4")}
ALIAS_KTYPE_LIST = ["i8", "f8", "U", ">i4", "f4"]
ALIAS_REPS = {"none": ["np"],
              "sibling": ["rec-cols", "2d-cols"],
              "same": ["ndarray", "twoviews", "list", "memmap"],
              "field": ["rec-first", "rec-mid", "2d-col0", "recarray", "2d-col1"]}


def _alias_build(alias, rep, ktype, keys_abs):
    """the two arguments of one aliased call and a reader of what they hold afterwards (abstract keys, abstract values:
    the position 1..n the value came from, -1 for a row that is no row of the input; alias 'same': the key itself)"""
    if rep.startswith("2d") and ktype == "U":
        ktype = "i8"
    if rep == "memmap" and ktype == "U":
        ktype = ">i4"
    m, dt = ALIAS_KTYPES[ktype]
    g = _KEYMAPS[m]
    conc = [g(v) for v in keys_abs]
    back = {g(v): v for v in set(keys_abs)}
    n = len(conc)
    pos = list(range(1, n + 1))

    def kb(cont):
        return _keys_back("", cont, back)
    if alias == "none":
        k, v = np.array(conc, dtype=dt), np.array(pos, dtype="i8")
        return k, v, lambda: (kb(k), [int(x) for x in v]), ktype
    if alias == "same":
        if rep == "list":
            a = list(conc)
            return a, a, lambda: (kb(a), kb(a)), ktype
        a = _memmap(conc, dt) if rep == "memmap" else np.array(conc, dtype=dt)
        if rep == "twoviews":
            return a[:], a[:], lambda: (kb(a), kb(a)), ktype
        return a, a, lambda: (kb(a), kb(a)), ktype
    if rep.startswith("2d"):
        kc, pc = (1, 0) if rep == "2d-col1" else (0, 1)
        arr = np.zeros((n, 3), dtype="f8" if m == "float" else "i8")
        if n:
            arr[:, kc], arr[:, pc], arr[:, 2] = conc, pos, [p + 1000 for p in pos]

        def read2():
            return kb(arr[:, kc]), [int(r[pc]) if (r[2] == r[pc] + 1000 and 1 <= r[pc] <= n) else -1 for r in arr]
        if alias == "field":
            return arr[:, kc], arr, read2, ktype
        return arr[:, kc], arr[:, pc], lambda: (kb(arr[:, kc]), [int(x) if x in pos else -1 for x in arr[:, pc]]
                                                 if all(arr[i, 2] == i + 1001 for i in range(n)) else [-1] * n), ktype
    if rep == "rec-mid":
        rec = np.zeros(n, dtype=[("p", "i4"), ("id", dt), ("q", "f8")])
        rec["id"], rec["p"], rec["q"] = conc, pos, [p * 0.5 for p in pos]
        return rec["id"], rec, lambda: (kb(rec["id"]), [int(r["p"]) if r["q"] == r["p"] * 0.5 else -1 for r in rec]), ktype
    rec = np.zeros(n, dtype=[("id", dt), ("p", "i8"), ("s", "S4")])
    rec["id"], rec["p"], rec["s"] = conc, pos, [b"%04d" % p for p in pos]
    if alias == "sibling":
        return rec["id"], rec["p"], lambda: (kb(rec["id"]), [int(x) for x in rec["p"]] if all(rec["s"][i] == b"%04d" % (i + 1) for i in range(n))
                                             else [-1] * n), ktype

    def readr():
        return kb(rec["id"]), [int(r["p"]) if r["s"] == b"%04d" % int(r["p"]) else -1 for r in rec]
    if rep == "recarray":
        ra = rec.view(np.recarray)
        return ra.id, ra, readr, ktype
    return rec["id"], rec, readr, ktype


ALIAS_CPU_LIMIT = 10.0      # seconds of CPU time for one sort of at most a few hundred elements (milliseconds are normal)
_ALIAS_HUNG = collections.Counter()


class DidNotTerminate(Exception):
    pass


def alias_obs(alias, rep, ktype, keys_abs):
    """one aliased call; a sort that is still running after ALIAS_CPU_LIMIT seconds of CPU time is recorded as an error
    (exchanges made array by array can undo each other under aliasing and loop for ever); after two such calls of an alias
    mode the remaining cases of that mode are not run (None)"""
    import signal
    from esutil import algorithm as al
    if _ALIAS_HUNG[alias] >= 2:
        return None
    k, v, read, ktype = _alias_build(alias, rep, ktype, keys_abs)

    def onalarm(signum, frame):
        raise DidNotTerminate()
    prev = signal.signal(signal.SIGVTALRM, onalarm)
    try:
        signal.setitimer(signal.ITIMER_VIRTUAL, ALIAS_CPU_LIMIT)
        try:
            al.quicksort_keyvalue(k, v)
        finally:
            signal.setitimer(signal.ITIMER_VIRTUAL, 0)
        ko, vo = read()
        o = {"err": "none", "keys": ko, "vals": [int(x) for x in vo]}
    except DidNotTerminate:
        _ALIAS_HUNG[alias] += 1
        o = {"err": "DidNotTerminate", "keys": [], "vals": []}
    except Exception as e:  # noqa
        o = {"err": _err(e), "keys": [], "vals": []}
    finally:
        signal.signal(signal.SIGVTALRM, prev)
    o["alias"], o["rep"], o["ktype"] = alias, rep, ktype
    return o


def _alias_note_hung(ctx):
    if _ALIAS_HUNG:
        ctx.log("aliased sorts that did not terminate within %.0f s of CPU time: %s (remaining cases of those modes not run)"
                % (ALIAS_CPU_LIMIT, dict(_ALIAS_HUNG)))


def _alias_case(alias, keys_abs):
    """the abstract case the views of an aliased call stand for (QuicksortAlias!AliasLaw): same = every pair is (x, x)"""
    keys_abs = list(keys_abs)
    return {"variant": "kv", "keys": keys_abs, "vals": keys_abs if alias == "same" else list(range(1, len(keys_abs) + 1))}


def _alias_repclass(o):
    r = o["rep"]
    return ("list" if r == "list" else "memmap" if r == "memmap" else "recarray" if r == "recarray" else
            "ndarray_2d" if r.startswith("2d") else "ndarray_structured" if r.startswith("rec") else "ndarray")


def _judge_alias(ctx, recs, what, selftest=()):
    rej = tracecheck.validate(ctx, "QuicksortTrace.tla",
                              [{"id": r["id"], "c": r["c"], "obs": [{"err": o["err"], "keys": o["keys"], "vals": o["vals"]} for o in r["obs"]]}
                               for r in recs], what=what)
    ctx.traces -= len([i for i in selftest if i not in rej])
    byid = {r["id"]: r for r in recs}
    for rid, failing in rej.items():
        if rid in selftest:
            continue
        r = byid[rid]
        for k, clause in failing:
            o = r["obs"][k - 1]
            ctx.violation("quicksort_keyvalue|%s|alias=%s,%s" % (clause, o["alias"], _alias_repclass(o)),
                          "in-place key-value sort with the keys sharing memory with the values (%s) not allowed by Algo!SortFailing "
                          "seen through the views of QuicksortAlias.tla: clause %s" % (o["alias"], clause),
                          {"kind": "sortalias", "keys": r["c"]["keys"], "alias": o["alias"], "rep": o["rep"], "ktype": o["ktype"], "observed": o})
    return rej


def part_sortalias(ctx):
    B = ALIAS_BOUNDS[ctx.tier]
    r1 = _m(ctx, "sortalias.law")
    if r1.distinct < 5000:
        raise MachineryError("QuicksortAlias law run visited only %d states" % r1.distinct)
    for key in ("sortalias.self.tmpref", "sortalias.self.twophase"):
        if "AliasLaw" not in _m(ctx, key).violated:
            raise MachineryError("self-test failed: %s must violate AliasLaw" % key)
    if not ctx.quick:
        _m(ctx, "sortalias.twophase_separate")   # the whole-array mechanism is right on separate arrays (must hold)
    cases = _m(ctx, "sortalias.export").records.get("CASE", [])
    nexp = len(ALIAS_MODES) * sum(len(B["Vals"]) ** k for k in range(B["MaxLen"] + 1))
    if len(cases) != nexp:
        raise MachineryError("QuicksortAlias export: %d cases, expected %d" % (len(cases), nexp))
    recs = []
    for i, cse in enumerate(sorted(cases, key=lambda c: (c["keys"], c["alias"]))):
        reps = ALIAS_REPS[cse["alias"]]
        obs = [alias_obs(cse["alias"], reps[(i // 4 + t) % len(reps)], ALIAS_KTYPE_LIST[(i // 4 + 2 * t) % len(ALIAS_KTYPE_LIST)], cse["keys"])
               for t in range(min(2, len(reps)))]
        obs = [o for o in obs if o is not None]
        if obs:
            recs.append({"id": i + 1, "c": _alias_case(cse["alias"], cse["keys"]), "obs": obs})
            ctx.count({"sortalias": [cse["alias"], cse["keys"]]})
    # seeded larger arrays through every aliased form
    nrand = 40 if ctx.quick else 400
    rng = random.Random(ctx.seed * 15485863 + 5)
    nid = len(recs)
    for j, (shape, a) in enumerate(_seeded_arrays(rng, nrand, 120)):
        for alias in ("same", "field", "sibling"):
            nid += 1
            reps = ALIAS_REPS[alias]
            o = alias_obs(alias, reps[j % len(reps)], ALIAS_KTYPE_LIST[(j // 2) % len(ALIAS_KTYPE_LIST)], a)
            if o is not None:
                recs.append({"id": nid, "c": _alias_case(alias, a), "obs": [o]})
                ctx.count({"sortalias": [alias, a], "shape": shape})
    probe = next(r for r in recs if r["obs"][0]["alias"] == "field" and len(set(r["c"]["keys"])) >= 3 and r["c"]["keys"] != sorted(r["c"]["keys"])
                 and r["obs"][0]["err"] == "none")
    ctx.sample({"sort_alias_case": probe["c"], "observed": probe["obs"][0]})
    # binding self-test: the key column permuted twice (what the whole-array mechanism leaves) rides along
    S = 10 ** 6 + 1
    good = probe["obs"][0]
    n = len(good["keys"])
    bad = dict(good, keys=[good["keys"][(i + 1) % n] for i in range(n)])
    _alias_note_hung(ctx)
    badrec = {"id": S, "c": probe["c"], "obs": [bad]}
    rej = _judge_alias(ctx, recs + [badrec], "judge aliased key-value sorts (QuicksortTrace through the views of QuicksortAlias; a corrupted "
                       "copy - the key column permuted once more - rides along as binding self-test)", selftest=(S,))
    if "pairs_broken" not in [f[1] for f in rej.get(S, [])] and not ctx.violations:
        raise MachineryError("binding self-test failed (sort aliasing): %s" % rej.get(S))
    ctx.note(sortalias=dict(bounds={"MaxLen": B["MaxLen"], "Vals": sorted(B["Vals"])}, modes=sorted(ALIAS_MODES), exported_cases=len(cases),
                            representations=ALIAS_REPS, key_types=ALIAS_KTYPE_LIST, seeded_arrays=nrand, law_states=r1.distinct))
    return ("every array of length 0..%d over %d keys x alias mode (separate / sibling columns / the same array twice / the keys a column "
            "of the values; exported from QuicksortAlias.tla) through %d representations, plus %d seeded arrays (length 0..120) in "
            "every aliased form" % (B["MaxLen"], len(B["Vals"]), sum(len(v) for v in ALIAS_REPS.values()), nrand))


# =====================================================================================
# 2. isplit / splitarray
# =====================================================================================
CHUNK_BOUNDS = {"quick": dict(MaxNum=200, MaxChunks=60, MaxLen=24, MaxNper=26),
                "thorough": dict(MaxNum=200, MaxChunks=60, MaxLen=60, MaxNper=62)}

SPLIT_KINDS = {
    "np-i8":    (lambda a: np.array([x * 3 - 5 for x in a], dtype="i8"), lambda ch: [(int(x) + 5) // 3 if (int(x) + 5) % 3 == 0 else -1 for x in ch]),
    "list":     (lambda a: [x * 3 - 5 for x in a], lambda ch: [(int(x) + 5) // 3 if (int(x) + 5) % 3 == 0 else -1 for x in ch]),
    "tuple":    (lambda a: tuple(x * 3 - 5 for x in a), lambda ch: [(int(x) + 5) // 3 if (int(x) + 5) % 3 == 0 else -1 for x in ch]),
    "np-f8":    (lambda a: np.array([x * 0.5 for x in a], dtype="f8"), lambda ch: [int(x * 2) if float(x * 2).is_integer() else -1 for x in ch]),
    "np-U":     (lambda a: np.array(["s%d" % x for x in a], dtype="U8"), lambda ch: [int(str(x)[1:]) if str(x)[1:].isdigit() else -1 for x in ch]),
    "np-strided": (lambda a: np.array([y for x in a for y in (x, -7)], dtype="i4")[::2], lambda ch: [int(x) for x in ch]),
}
SPLIT_KIND_LIST = ["np-i8", "list", "tuple", "np-f8", "np-U", "np-strided"]


def isplit_obs(num, nchunks, flavour):
    from esutil import algorithm as al
    a, b = (num, nchunks) if flavour == "int" else (np.int64(num), np.int32(nchunks))
    try:
        s = al.isplit(a, b)
        return {"err": "none", "starts": [int(x) for x in s["start"]], "ends": [int(x) for x in s["end"]], "flavour": flavour}
    except Exception as e:  # noqa
        return {"err": _err(e), "starts": [], "ends": [], "flavour": flavour}


def split_obs(nper, a_abs, kind):
    from esutil import numpy_util as nu
    mk, bk = SPLIT_KINDS[kind]
    arr = mk(a_abs)
    before = arr.tobytes() if isinstance(arr, np.ndarray) else repr(arr)
    try:
        chunks = nu.splitarray(nper, arr)
        if not isinstance(chunks, (list, tuple)):
            raise TypeError("splitarray did not return a list")
        o = {"err": "none", "chunks": [bk(ch) for ch in chunks]}
    except Exception as e:  # noqa
        o = {"err": _err(e), "chunks": []}
    o["kind"] = kind
    o["frame_ok"] = (arr.tobytes() if isinstance(arr, np.ndarray) else repr(arr)) == before
    return o


def _chunk_class(c):
    if c["fn"] == "isplit":
        n, k = c["num"], c["nchunks"]
        return "num=0" if n == 0 else "num<nchunks" if n < k else "num%nchunks=0" if n % k == 0 else "num%nchunks>0"
    n, p = len(c["a"]), c["nper"]
    return "empty" if n == 0 else "len<nper" if n < p else "len%nper=0" if n % p == 0 else "len%nper>0"


def _judge_chunks(ctx, recs, what):
    def strip(o):
        return {k: v for k, v in o.items() if k in ("err", "starts", "ends", "chunks")}
    rej = tracecheck.validate(ctx, "ChunkTrace.tla", [{"id": r["id"], "c": r["c"], "obs": [strip(o) for o in r["obs"]]} for r in recs],
                              what=what)
    byid = {r["id"]: r for r in recs}
    for rid, failing in rej.items():
        r = byid[rid]
        for k, clause in failing:
            o = r["obs"][k - 1]
            ctx.violation("%s|%s|%s" % (r["c"]["fn"], clause, _chunk_class(r["c"])),
                          "%s result not allowed by Algo.tla: clause %s" % (r["c"]["fn"], clause),
                          {"kind": "chunk", "c": r["c"], "flavour": o.get("flavour") or o.get("kind"), "observed": o})
    for r in recs:
        for o in r["obs"]:
            if o.get("frame_ok") is False:
                ctx.violation("splitarray|argument_modified", "splitarray modified its argument",
                              {"kind": "chunk", "c": r["c"], "flavour": o.get("kind")})
    return rej


def _chunk_record(i, c, k=0):
    if c["fn"] == "isplit":
        obs = [isplit_obs(c["num"], c["nchunks"], "int" if (i + k) % 2 else "npint")]
    else:
        kinds = [SPLIT_KIND_LIST[(i + t) % len(SPLIT_KIND_LIST)] for t in range(2)]
        obs = [split_obs(c["nper"], c["a"], kd) for kd in kinds]
    return {"id": i, "c": c, "obs": obs}


def part_chunk(ctx):
    B = CHUNK_BOUNDS[ctx.tier]
    _m(ctx, "chunk.mc")
    rb = _m(ctx, "chunk.self")
    if "MechRefines" not in rb.violated:
        raise MachineryError("self-test failed: Isplit MechRefines not violated by the deviating section order")
    r2 = _m(ctx, "chunk.export")
    cases = r2.records.get("CASE", [])
    nexp = (B["MaxNum"] + 1) * B["MaxChunks"] + (B["MaxLen"] + 1) * B["MaxNper"]
    if len(cases) != nexp:
        raise MachineryError("Isplit export: %d cases, expected %d" % (len(cases), nexp))
    recs = [_chunk_record(i, c) for i, c in enumerate(cases, 1)]
    for r in recs:
        ctx.count(r["c"])
    ctx.sample({"chunk_case": recs[len(recs) // 3]["c"], "observed": recs[len(recs) // 3]["obs"][0]})
    ctx.sample({"chunk_case": recs[-7]["c"], "observed": recs[-7]["obs"][0]})
    _judge_chunks(ctx, recs, "judge replayed isplit/splitarray cases (ChunkTrace)")
    # larger seeded cases, code -> spec
    nrand = 300 if ctx.quick else 5000
    rng = random.Random(ctx.seed * 104729 + 2)
    rrecs, nid = [], len(recs)
    for j in range(nrand):
        nid += 1
        if j % 2:
            k = rng.choice([1, 2, 3, 7, 61, 100, 333, 500])
            num = rng.choice([0, 1, k - 1, k, k + 1, 10 * k - 1, rng.randrange(0, 10 ** 6), rng.randrange(0, 10 ** 8)])
            c = {"fn": "isplit", "num": max(0, num), "nchunks": k}
        else:
            ln = rng.choice([0, 1, 5, 64, 100, 255, rng.randrange(0, 300)])
            nper = rng.choice([1, 2, 3, 7, 64, max(1, ln - 1), max(1, ln), ln + 1, ln + 5])
            c = {"fn": "splitarray", "a": list(range(1, ln + 1)), "nper": nper}
        rrecs.append(_chunk_record(nid, c, j // 2))
        ctx.count(c)
    _judge_chunks(ctx, rrecs, "judge seeded larger isplit/splitarray cases (ChunkTrace)")
    # binding self-test
    pi = next(r for r in recs if r["c"]["fn"] == "isplit" and r["c"]["num"] == 7 and r["c"]["nchunks"] == 3)
    ps = next(r for r in recs if r["c"]["fn"] == "splitarray" and len(r["c"]["a"]) == 7 and r["c"]["nper"] == 3)
    gi, gs = pi["obs"][0], ps["obs"][0]
    bi = dict(gi, starts=[0, 2, 5], ends=[2, 5, 7])                       # sizes 2,3,2: larger not first
    bs = dict(gs, chunks=[gs["chunks"][0], gs["chunks"][1][:2], gs["chunks"][1][2:] + gs["chunks"][2]])
    saved = ctx.traces

    def strip(o):
        return {k: v for k, v in o.items() if k in ("err", "starts", "ends", "chunks")}
    rej = tracecheck.validate(ctx, "ChunkTrace.tla",
                              [{"id": 1, "c": pi["c"], "obs": [strip(gi)]}, {"id": 2, "c": pi["c"], "obs": [strip(bi)]},
                               {"id": 3, "c": ps["c"], "obs": [strip(gs)]}, {"id": 4, "c": ps["c"], "obs": [strip(bs)]}],
                              what="self-test: corrupted isplit/splitarray results rejected", workers=1)
    ctx.traces = saved
    if set(rej) != {2, 4} or [1, "larger_not_first"] not in rej[2] or [1, "chunk_size_ne_nper"] not in rej[4]:
        raise MachineryError("binding self-test failed (chunks): %s" % rej)
    ctx.note(chunk=dict(bounds=B, exported_cases=len(cases), seeded_cases=nrand, splitarray_containers=SPLIT_KIND_LIST))
    return ("every (num, nchunks) in 0..%d x 1..%d and every (nper, array) with length 0..%d, nper 1..%d (exported from Isplit.tla), "
            "plus %d seeded larger cases (num up to 1e8, nchunks up to 500, arrays up to length 300)"
            % (B["MaxNum"], B["MaxChunks"], B["MaxLen"], B["MaxNper"], nrand))


# =====================================================================================
# 2b. sessions of isplit / splitarray calls in one process (IsplitWorld.tla): results scribbled over, arguments mutated
# =====================================================================================
WORLD_CONSTS = dict(Nums={7, 10}, Chunks={3, 4}, ArrLenA=5, ArrLenB=7, Npers={2, 3})
WORLD_TIERS = {"quick": dict(num=250, keep=60, depth=14, slots=6), "thorough": dict(num=2500, keep=600, depth=18, slots=8)}
WORLD_ARR_KINDS = ["np-i8", "list", "np-roview", "np-f8", "np-strided"]


def _world_array(kind, n):
    """(object passed to splitarray, object the caller mutates, back-map of a chunk)"""
    a_abs = list(range(1, n + 1))
    if kind == "np-roview":
        base = SPLIT_KINDS["np-i8"][0](a_abs)
        view = base[:]
        view.flags.writeable = False
        return view, base, SPLIT_KINDS["np-i8"][1]
    arr = SPLIT_KINDS[kind][0](a_abs)
    return arr, arr, SPLIT_KINDS[kind][1]


def world_run(arg):
    """one session in THIS process (the caller forks a fresh child per session): returns the operations with what the
    real functions returned (`res`), what every result handed out so far holds now (`held`) and what the caller's arrays
    hold (`after`)"""
    ops, kind = arg["ops"], arg["kind"]
    from esutil import algorithm as al, numpy_util as nu
    arrs = [_world_array(kind, n) for n in arg["arrlens"]]
    slots, out = [], []

    def table(s):
        if s is None:
            return {"starts": [], "ends": []}
        return {"starts": [int(x) for x in s["start"]], "ends": [int(x) for x in s["end"]]}
    for o in ops:
        o = dict(o)
        if o["op"] == "icall":
            a, b = (o["num"], o["nchunks"]) if o["fl"] == "int" else (np.int64(o["num"]), np.int32(o["nchunks"]))
            try:
                s = al.isplit(a, b)
                o["res"] = dict(table(s), err="none")
                slots.append(s)
            except Exception as e:  # noqa
                o["res"] = {"err": _err(e), "starts": [], "ends": []}
                slots.append(None)
        elif o["op"] == "scribble":
            s = slots[o["slot"] - 1]
            before = table(s)
            try:
                if s is None:
                    raise ValueError("no result")
                if o["how"] == "shift":
                    s["start"] += 1000
                    s["end"] += 1000
                else:
                    s["end"][:] = 0
                o["done"] = True
            except Exception:  # noqa  (a result that does not let itself be overwritten: a stutter step, if nothing changed)
                o["done"] = table(s) != before
        elif o["op"] == "scall":
            passed, _, bk = arrs[o["arr"] - 1]
            try:
                chunks = nu.splitarray(o["nper"], passed)
                if not isinstance(chunks, (list, tuple)):
                    raise TypeError("splitarray did not return a list")
                o["res"] = {"err": "none", "chunks": [bk(ch) for ch in chunks]}
            except Exception as e:  # noqa
                o["res"] = {"err": _err(e), "chunks": []}
        elif o["op"] == "mutarr":
            _, base, bk = arrs[o["arr"] - 1]
            if isinstance(base, list):
                if o["how"] == "reverse":
                    base.reverse()
                else:
                    base.append(base.pop(0))
            else:
                base[:] = base[::-1].copy() if o["how"] == "reverse" else np.roll(base, -1)
            o["after"] = bk(base)
        o["held"] = [table(s) for s in slots]
        out.append(o)
    return out


def _world_score(ops):
    """how often a session does what it is there for: an isplit call repeated with equal arguments after a result of that
    call was overwritten, a splitarray call repeated on an array changed in between"""
    st = collections.Counter()
    owner, dirty, sdirty = [], set(), {}
    for o in ops:
        if o["op"] == "icall":
            key = (o["num"], o["nchunks"])
            if key in dirty:
                st["isplit_repeated_after_scribble"] += 1
            if key in owner:
                st["isplit_repeated"] += 1
            owner.append(key)
        elif o["op"] == "scribble":
            dirty.add(owner[o["slot"] - 1])
        elif o["op"] == "scall":
            key = (o["nper"], o["arr"])
            if sdirty.get(key):
                st["splitarray_repeated_after_mutation"] += 1
            sdirty[key] = False
        elif o["op"] == "mutarr":
            for key in sdirty:
                if key[1] == o["arr"]:
                    sdirty[key] = True
    return st


def _world_rich(ops):
    st = _world_score(ops)
    return min(st["isplit_repeated_after_scribble"], 3) + 3 * min(st["splitarray_repeated_after_mutation"], 2)


def _world_sig(o, clause):
    if o["op"] == "icall":
        return "isplit|%s|session" % clause
    if o["op"] == "scall":
        return "splitarray|%s|session" % clause
    return "isplit|%s|session,after_%s" % (clause, o["op"])


def world_judge(ctx, recs, what, selftest=()):
    rej = tracecheck.validate(ctx, "IsplitWorldTrace.tla", [{"id": r["id"], "arrs0": r["arrs0"], "ops": r["ops"]} for r in recs], what=what,
                              constants=dict(WORLD_CONSTS, MaxOps=1, MaxSlots=1, Mech="fresh", DoExport=False))
    ctx.traces -= len([i for i in selftest if i not in rej])
    byid = {r["id"]: r for r in recs}
    for rid, failing in rej.items():
        if rid in selftest:
            continue
        r = byid[rid]
        for k, clause in failing:
            o = r["ops"][k - 1]
            if clause == "harness_state_mismatch":
                raise MachineryError("session replay: the harness's array differs from IsplitWorld!Mut after operation %d of %s" % (k, r["ops"]))
            ctx.violation(_world_sig(o, clause),
                          "operation %d of a session of isplit / splitarray calls in one process: %s (IsplitWorldTrace: every call returns "
                          "the fresh-world outcome, results handed out change only by their holder's hand)" % (k, clause),
                          {"kind": "chunkworld", "arrkind": r["kind"], "arrlens": [len(a) for a in r["arrs0"]],
                           "ops": [{kk: v for kk, v in x.items() if kk not in ("res", "held", "after", "done")} for x in r["ops"][:k]],
                           "failing_op": k, "observed": {kk: o[kk] for kk in ("res", "held") if kk in o}})
    return rej


def part_chunkworld(ctx):
    T = WORLD_TIERS[ctx.tier]
    r0 = _m(ctx, "chunkworld.mc")
    if r0.distinct < 1000:
        raise MachineryError("IsplitWorld model run visited only %d states" % r0.distinct)
    if not ctx.quick:
        _m(ctx, "chunkworld.memo_copy")
    if "WorldInv" not in _m(ctx, "chunkworld.self").violated:
        raise MachineryError("self-test failed: IsplitWorld WorldInv not violated by the memo that hands out its own storage")
    rs = _m(ctx, "chunkworld.sim")
    byprefix = {}
    for h in rs.records.get("SESS", []):                            # the constraint prints every candidate last operation
        byprefix.setdefault(repr(h["ops"][:-1]), h)
    sess = sorted(byprefix.values(), key=lambda h: (-_world_rich(h["ops"]), repr(h["ops"])))[:T["keep"]]
    if len(sess) < T["keep"] or any(len(h["ops"]) != T["depth"] for h in sess):
        raise MachineryError("IsplitWorld simulation produced %d sessions of depth %s" % (len(sess), sorted({len(h["ops"]) for h in sess})))
    st = collections.Counter()
    for h in sess:
        st.update(_world_score(h["ops"]))
    if st["isplit_repeated_after_scribble"] < T["keep"] or st["splitarray_repeated_after_mutation"] < T["keep"] // 2:
        raise MachineryError("simulated isplit / splitarray sessions are too thin (vacuity guard): %s" % dict(st))
    arrlens = [WORLD_CONSTS["ArrLenA"], WORLD_CONSTS["ArrLenB"]]
    args = [{"ops": h["ops"], "kind": WORLD_ARR_KINDS[i % len(WORLD_ARR_KINDS)], "arrlens": arrlens} for i, h in enumerate(sess)]
    arrs0 = [list(range(1, n + 1)) for n in arrlens]
    recs = [{"id": i, "ops": ops, "kind": a["kind"], "arrs0": arrs0} for i, (a, ops) in enumerate(zip(args, _isolated_many(world_run, args, 4)), 1)]
    for h in sess:
        ctx.count({"chunkworld": h["ops"]})
    ctx.sample({"chunk_session": recs[0]["ops"][:6]})
    # binding self-test: a session in which a repeated call returns the table an earlier holder shifted / in which an
    # earlier result changes under its holder's feet
    probe = None
    for r in recs:
        for k, o in enumerate(r["ops"]):
            if o["op"] == "icall" and o["res"]["err"] == "none" and k + 1 < len(r["ops"]) and len(o["held"]) >= 2:
                probe = (r, k)
                break
        if probe:
            break
    if not probe:
        raise MachineryError("no session suitable for the binding self-test (isplit sessions)")
    r, k = probe
    bad1 = [dict(o) for o in r["ops"]]
    res = r["ops"][k]["res"]
    shifted = dict(res, starts=[x + 1000 for x in res["starts"]], ends=[x + 1000 for x in res["ends"]])
    bad1[k] = dict(bad1[k], res=shifted)
    bad2 = [dict(o) for o in r["ops"]]
    h2 = [dict(t) for t in bad2[k + 1]["held"]]
    h2[0] = dict(h2[0], ends=[0] * len(h2[0]["ends"]) if any(h2[0]["ends"]) else [1] * len(h2[0]["ends"]))
    bad2[k + 1] = dict(bad2[k + 1], held=h2)
    S1, S2 = 10 ** 6 + 1, 10 ** 6 + 2
    rej = world_judge(ctx, recs + [dict(r, id=S1, ops=bad1), dict(r, id=S2, ops=bad2)],
                      "judge sessions of isplit / splitarray calls (IsplitWorldTrace; two corrupted copies ride along as binding self-test)",
                      selftest=(S1, S2))
    if [k + 1, "first_start_ne_0"] not in rej.get(S1, []) or [k + 2, "earlier_result_changed"] not in rej.get(S2, []):
        if not ctx.violations:
            raise MachineryError("binding self-test failed (isplit sessions): %s" % {i: rej.get(i) for i in (S1, S2)})
    ctx.note(chunkworld=dict(consts={k: (sorted(v) if isinstance(v, set) else v) for k, v in WORLD_CONSTS.items()}, sessions=len(sess),
                             operations_per_session=T["depth"], situations=dict(st), array_kinds=WORLD_ARR_KINDS, mc_states=r0.distinct))
    return ("%d sessions of %d operations each (tlc -simulate on IsplitWorld.tla, the ones richest in collisions kept: isplit / splitarray "
            "calls with results overwritten in place by their holder and the caller's arrays changed in place - through the writable base "
            "of a read-only view too - between equal-argument calls), each executed in one fresh process; %d repeated isplit calls after a "
            "scribble, %d repeated splitarray calls after a mutation"
            % (len(sess), T["depth"], st["isplit_repeated_after_scribble"], st["splitarray_repeated_after_mutation"]))


# =====================================================================================
# 3. progress wrappers
# =====================================================================================
PBAR_BOUNDS = {"quick": dict(MaxN=2), "thorough": dict(MaxN=3)}
PBAR_CONSTS = dict(Kinds={"list", "range", "gen", "iter"}, Totals={"none", "exact", "low", "high"},
                   Lazy=True, FixedMeter=True, DoExport=False)


class _Obj:
    """a source item; identified by object identity, equal-looking twins allowed"""
    __slots__ = ("v",)

    def __init__(self, v):
        self.v = v


class _Recorder:
    def __init__(self):
        self.ev = []
        self.live = True

    def add(self, op, v=0):
        if self.live:
            self.ev.append({"op": op, "v": v})


class _RecIter:
    """iterator without __len__ that records every pull"""
    def __init__(self, items, rec):
        self._it = iter(items)
        self._rec = rec
        self._i = 0

    def __iter__(self):
        return self

    def __next__(self):
        try:
            x = next(self._it)
        except StopIteration:
            self._rec.add("pullend")
            raise
        self._i += 1
        self._rec.add("pull", self._i)
        return x


class _RecSeq(list):
    """list (has __len__) whose iteration records every pull"""
    def bind(self, rec):
        self._rec = rec
        return self

    def __iter__(self):
        return _RecIter(list.__iter__(self), self._rec)


def _rec_gen(items, rec):
    i = 0
    for x in items:
        i += 1
        rec.add("pull", i)
        yield x
    rec.add("pullend")


def pbar_run(c, entry):
    """drive one real wrapper as the case says; returns (events, exception class or '')"""
    from esutil import pbar as pb
    n = len(c["src"])
    rec = _Recorder()
    if c["kind"] == "range":
        items = list(range(n))
        ident = {("int", v): v + 1 for v in items}
        src = range(n)
    else:
        items = [_Obj(i % 2) for i in range(n)]          # twins: only identity tells them apart
        ident = {id(x): i + 1 for i, x in enumerate(items)}
        src = {"list": lambda: _RecSeq(items).bind(rec), "gen": lambda: _rec_gen(items, rec),
               "iter": lambda: _RecIter(items, rec)}[c["kind"]]()

    def pos(x):
        if c["kind"] == "range":
            return ident.get(("int", x), -1) if type(x) is int else -1
        return ident.get(id(x), -1)
    kw = {"file": io.StringIO()}
    if c["total"] != "none":
        kw["total"] = {"exact": n, "low": n - 1, "high": n + 2}[c["total"]]
    if c.get("simple"):
        kw["simple"] = True
    if "desc" in c:
        kw.update(desc=c["desc"], leave=bool(c["leave"]), mininterval=0.0 if c["mininterval"] == 0 else 0.5,
                  miniters=int(c["miniters"]), n_bars=int(c["nbars"]))
    errcls = ""
    it = None
    try:
        if entry == "prange":
            it = iter(pb.prange(n, **kw))
        else:
            it = iter(getattr(pb, entry)(src, **kw))
    except Exception as e:  # noqa  (a wrapper that rejects at construction: the consumer learns it at once)
        rec.add("request")
        rec.add("error")
        return rec.ev, _err(e)
    ended = False
    for _ in range(c["k"]):
        rec.add("request")
        try:
            x = next(it)
            rec.add("yield", pos(x))
        except StopIteration:
            rec.add("stop")
            ended = True
            break
        except Exception as e:  # noqa
            rec.add("error")
            errcls = _err(e)
            ended = True
            break
    if not ended:
        rec.add("close")
        rec.live = False
        try:
            it.close()
        except Exception:  # noqa
            pass
    return rec.ev, errcls


def _pbar_entry(c, i):
    if c["kind"] == "range":
        return ("prange", "pbar", "PBar")[i % 3]
    return ("pbar", "PBar")[i % 2]


def _pbar_sig(c, entry, clause):
    from esutil import pbar as pb
    e = "pbar" if (entry == "PBar" and getattr(pb, "PBar", None) is pb.pbar) else entry
    return "%s|%s|%s,total=%s,simple=%s" % (e, clause, "len" if c["haslen"] else "nolen", c["total"], bool(c["simple"]))


def _pbar_strip(c):
    return {k: c[k] for k in ("src", "haslen", "obspull", "total", "simple", "k")}


def _judge_pbar(ctx, recs, what):
    rej = tracecheck.validate(ctx, "ProgressIterTrace.tla", [{"id": r["id"], "c": _pbar_strip(r["c"]), "ev": r["ev"]} for r in recs],
                              what=what, constants=dict(PBAR_CONSTS, MaxN=1))
    byid = {r["id"]: r for r in recs}
    for rid, failing in rej.items():
        r = byid[rid]
        for clause in failing:
            ctx.violation(_pbar_sig(r["c"], r["entry"], clause),
                          "progress wrapper event stream not a run of ProgressIter.tla: clause %s%s"
                          % (clause, (" (" + r["errcls"] + ")") if r["errcls"] else ""),
                          {"kind": "pbar", "c": r["c"], "entry": r["entry"], "events": r["ev"], "exception": r["errcls"]})
    return rej


def part_pbar(ctx):
    B = PBAR_BOUNDS[ctx.tier]
    _m(ctx, "pbar.mc")
    for var, inv in (("Lazy", "LazyInv"), ("FixedMeter", "MechRefines")):
        rb = _m(ctx, "pbar.self." + var)
        if inv not in rb.violated:
            raise MachineryError("self-test failed: %s not violated with %s = FALSE" % (inv, var))
    r2 = _m(ctx, "pbar.export")
    cases = r2.records.get("CASE", [])
    if len(cases) < 1000:
        raise MachineryError("ProgressIter export: only %d cases" % len(cases))
    recs = []
    for i, c in enumerate(cases, 1):
        entry = _pbar_entry(c, i)
        ev, errcls = pbar_run(c, entry)
        recs.append({"id": i, "c": c, "entry": entry, "ev": ev, "errcls": errcls})
        ctx.count({k: v for k, v in c.items() if k != "src"} | {"n": len(c["src"]), "entry": entry})
    ctx.sample({"pbar_case": recs[len(recs) // 2]["c"], "entry": recs[len(recs) // 2]["entry"], "events": recs[len(recs) // 2]["ev"]})
    _judge_pbar(ctx, recs, "judge replayed progress-wrapper cases (ProgressIterTrace)")
    # larger seeded runs, code -> spec
    nrand = 400 if ctx.quick else 6000
    rng = random.Random(ctx.seed * 15485863 + 3)
    rrecs, nid = [], len(recs)
    for j in range(nrand):
        nid += 1
        kind = rng.choice(["list", "range", "gen", "iter"])
        n = rng.choice([0, 1, 2, 9, 10, 11, 25, rng.randrange(0, 60)])
        tot = rng.choice(["none", "exact", "high"] + (["low"] if n >= 2 else []))
        c = {"kind": kind, "src": list(range(1, n + 1)), "haslen": kind in ("list", "range"), "obspull": kind != "range",
             "total": tot, "simple": rng.random() < 0.4, "k": rng.choice([n + 1, n + 1, n, n // 2, rng.randrange(0, n + 2)]),
             "desc": rng.choice(["", "d", "a longer description"]), "leave": rng.random() < 0.5,
             "mininterval": rng.choice([0, 1]), "miniters": rng.choice([1, 2, 5, 100]), "nbars": rng.choice([0, 1, 3, 20, 77])}
        entry = _pbar_entry(c, j)
        ev, errcls = pbar_run(c, entry)
        rrecs.append({"id": nid, "c": c, "entry": entry, "ev": ev, "errcls": errcls})
        ctx.count({k: v for k, v in c.items() if k != "src"} | {"entry": entry})
    _judge_pbar(ctx, rrecs, "judge seeded larger progress-wrapper runs (ProgressIterTrace)")
    # binding self-test: corrupted streams are rejected with the right clause
    probe = next(r for r in recs if r["c"]["kind"] == "list" and len(r["c"]["src"]) == 2 and r["c"]["k"] == 3
                 and not r["errcls"] and [e["op"] for e in r["ev"]].count("yield") == 2)
    ev = probe["ev"]
    iy = [i for i, e in enumerate(ev) if e["op"] == "yield"]
    ip = [i for i, e in enumerate(ev) if e["op"] == "pull"]
    swapped = [dict(e) for e in ev]
    swapped[iy[0]]["v"], swapped[iy[1]]["v"] = swapped[iy[1]]["v"], swapped[iy[0]]["v"]
    eager = [ev[0]] + [ev[i] for i in ip] + [e for i, e in enumerate(ev) if i not in ip and i != 0]
    lossy = [e for i, e in enumerate(ev) if i not in (iy[1], ip[1] - 1)]                      # second item pulled, never yielded
    cc = _pbar_strip(probe["c"])
    saved = ctx.traces
    rej = tracecheck.validate(ctx, "ProgressIterTrace.tla",
                              [{"id": 1, "c": cc, "ev": ev}, {"id": 2, "c": cc, "ev": swapped},
                               {"id": 3, "c": cc, "ev": eager}, {"id": 4, "c": cc, "ev": lossy}],
                              what="self-test: corrupted progress streams rejected", constants=dict(PBAR_CONSTS, MaxN=1), workers=1)
    ctx.traces = saved
    want = {2: "yielded_item_not_next_of_source", 3: "not_lazy_pulled_ahead_of_consumer", 4: "stopped_before_all_items"}
    if 1 in rej or any(rej.get(k) != [v] for k, v in want.items()):
        raise MachineryError("binding self-test failed (pbar): %s (lossy stream %s)" % (rej, lossy))
    ctx.note(pbar=dict(bounds=B, exported_cases=len(cases), seeded_runs=nrand,
                       options="desc x leave x mininterval{0,0.5} x miniters{1,2} x n_bars{0,3,20} x total{none,exact,low,high} x simple"))
    return ("every (iterable kind in list/range/generator/len-less iterator, length 0..%d, total, simple, number of requests "
            "0..len+1, desc, leave, mininterval, miniters, n_bars) exported from ProgressIter.tla driven through pbar/PBar/prange, "
            "plus %d seeded runs up to length 60" % (B["MaxN"], nrand))


# =====================================================================================
# 3b. histories of progress wrappers (ProgressHist.tla)
# =====================================================================================
PBH_TIERS = {"quick": dict(model=dict(MaxN=1, MaxSrc=1, MaxWr=2, MaxCmd=5), sim=dict(MaxN=3, MaxSrc=2, MaxWr=3, MaxCmd=9), num=300, keep=1500),
             "thorough": dict(model=dict(MaxN=2, MaxSrc=1, MaxWr=2, MaxCmd=6), sim=dict(MaxN=4, MaxSrc=2, MaxWr=3, MaxCmd=12), num=4000, keep=20000)}
PBH_TRACE_CONSTS = dict(MaxN=1, MaxSrc=1, MaxWr=3, MaxCmd=1, Lazy=True, DoExport=False)


class _SrcFail(Exception):
    """what a failing iterable of a history raises"""


class _HRec:
    def __init__(self):
        self.ev = []
        self.w = 0            # the wrapper call the consumer's thread is in (0: none)

    def add(self, op, w=None, s=0, v=0, **kw):
        self.ev.append(dict({"op": op, "w": self.w if w is None else w, "s": s, "v": v}, **kw))


class _HIter:
    """iterator without __len__ over the items of source s: logs every pull, raises _SrcFail instead of item `failat`,
    is dead afterwards (like a generator that raised)"""
    def __init__(self, rec, s, items, failat):
        self.rec, self.s, self.items, self.failat, self.i, self.dead = rec, s, items, failat, 0, False

    def __iter__(self):
        return self

    def __next__(self):
        if self.dead or (self.i >= len(self.items) and self.failat != len(self.items) + 1):
            self.rec.add("pullend", s=self.s)
            raise StopIteration
        if self.i + 1 == self.failat:
            self.dead = True
            self.rec.add("pullerr", s=self.s)
            raise _SrcFail("source %d fails at item %d" % (self.s, self.failat))
        self.i += 1
        self.rec.add("pull", s=self.s, v=self.i)
        return self.items[self.i - 1]


class _HList(list):
    """a list (has __len__): every iteration gets a cursor of its own"""
    def bind(self, rec, s, failat):
        self._a = (rec, s, failat)
        return self

    def __iter__(self):
        rec, s, failat = self._a
        return _HIter(rec, s, [x for x in list.__iter__(self)], failat)


def _h_gen(rec, s, items, failat):
    """a true generator: after its end or its exception it answers StopIteration without running any code"""
    i = 0
    while True:
        if i >= len(items) and failat != len(items) + 1:
            rec.add("pullend", s=s)
            return
        if i + 1 == failat:
            rec.add("pullerr", s=s)
            raise _SrcFail("source %d fails at item %d" % (s, failat))
        i += 1
        rec.add("pull", s=s, v=i)
        yield items[i - 1]


def pbh_run(script):
    """drive the real wrappers as the consumer script says; returns the event stream"""
    from esutil import pbar as pb
    rec = _HRec()
    srcs, ident = [], {}
    for s, sd in enumerate(script["srcs"], 1):
        items = [_Obj(i % 2) for i in range(sd["n"])]
        for i, x in enumerate(items, 1):
            ident[id(x)] = (s, i)
        if sd["kind"] == "list":
            srcs.append(_HList(items).bind(rec, s, sd["failat"]))
        elif sd["kind"] == "gen":
            srcs.append(_h_gen(rec, s, items, sd["failat"]))
        else:
            srcs.append(_HIter(rec, s, items, sd["failat"]))
    its = {}
    keep = [srcs, ident]
    for k, c in enumerate(script["cmds"]):
        w = c["w"]
        rec.w = w
        if c["cmd"] == "wrap":
            sd = script["srcs"][c["s"] - 1]
            rec.add("wrap", s=c["s"], total=c["total"], simple=bool(c["simple"]))
            kw = {"file": io.StringIO(), "mininterval": 0.0 if k % 2 else 0.5, "miniters": 1 + k % 2, "leave": bool(k % 3)}
            if c["total"] == "exact":
                kw["total"] = max(sd["n"], 1)
            if c["simple"]:
                kw["simple"] = True
            try:
                its[w] = iter((pb.PBar if k % 2 else pb.pbar)(srcs[c["s"] - 1], **kw))
            except Exception:  # noqa  (a wrapper that rejects at construction: the consumer learns it at once)
                rec.add("request")
                rec.add("error")
                its[w] = iter(())
        elif c["cmd"] == "next":
            for _ in range(c["s"]):
                rec.add("request")
                try:
                    x = next(its[w])
                    sv = ident.get(id(x), (-1, -1))
                    rec.add("yield", s=sv[0], v=sv[1])
                except StopIteration:
                    rec.add("stop")
                except Exception:  # noqa
                    rec.add("error")
        elif c["cmd"] == "close":
            rec.add("close")
            try:
                its[w].close()
            except AttributeError:
                pass
            except Exception:  # noqa
                pass
        elif c["cmd"] == "drop":
            rec.add("close")
            old = its[w]
            its[w] = iter(())           # the last reference to the wrapper goes away; later requests find nothing
            del old                     # CPython: the reference count drops to zero, the generator is closed at once
        else:
            raise MachineryError("unknown consumer command %r" % c["cmd"])
        rec.w = 0
    del keep
    return rec.ev


def _pbh_sig(script, ev, clause):
    kinds = {"len" if sd["kind"] == "list" else "nolen" for sd in script["srcs"]}
    return "pbar|%s|history,sources=%s" % (clause, kinds.pop() if len(kinds) == 1 else "mixed")


def pbh_judge(ctx, recs, what, selftest=()):
    rej = tracecheck.validate(ctx, "ProgressHistTrace.tla", [{"id": r["id"], "cs": {"srcs": r["script"]["srcs"]}, "ev": r["ev"]} for r in recs],
                              what=what, constants=PBH_TRACE_CONSTS)
    ctx.traces -= len([i for i in selftest if i not in rej])
    byid = {r["id"]: r for r in recs}
    for rid, failing in rej.items():
        if rid in selftest:
            continue
        r = byid[rid]
        for clause in failing:
            if clause.startswith("harness_") or clause in ("unknown_event", "unknown_wrapper"):
                raise MachineryError("progress history: the harness's own events break the protocol (%s): %s" % (clause, r["ev"]))
            ctx.violation(_pbh_sig(r["script"], r["ev"], clause),
                          "event stream of a history of progress wrappers is not a run of ProgressHist.tla: clause %s" % clause,
                          {"kind": "pbarhist", "script": r["script"], "events": r["ev"]})
    return rej


def part_pbarhist(ctx):
    T = PBH_TIERS[ctx.tier]
    r0 = _m(ctx, "pbarhist.mc")
    if r0.distinct < 10000:
        raise MachineryError("ProgressHist model run visited only %d states" % r0.distinct)
    rb = _m(ctx, "pbarhist.self")
    if "HLazy" not in rb.violated:
        raise MachineryError("self-test failed: ProgressHist HLazy not violated with Lazy = FALSE")
    rs = _m(ctx, "pbarhist.sim")
    seen, scripts = set(), []
    for sc in rs.records.get("SCRIPT", []):
        key = repr(sc)
        if key not in seen:
            seen.add(key)
            scripts.append(sc)
    scripts = scripts[:: max(1, len(scripts) // T["keep"])][:T["keep"]]
    if len(scripts) < T["keep"] // 2:
        raise MachineryError("ProgressHist simulation produced only %d scripts" % len(scripts))
    recs = []
    for i, sc in enumerate(scripts, 1):
        recs.append({"id": i, "script": sc, "ev": pbh_run(sc)})
        ctx.count({"pbarhist": sc})
    # vacuity guard: the situations the histories are there for
    st = collections.Counter()
    for r in recs:
        ev = r["ev"]
        wsrc = {}
        for e in ev:
            if e["op"] == "wrap":
                if e["s"] in wsrc.values():
                    st["iterable_wrapped_again"] += 1
                wsrc[e["w"]] = e["s"]
        ops = [e["op"] for e in ev]
        st["source_raised"] += "pullerr" in ops
        st["error_passed_on"] += any(a == "pullerr" and b == "error" for a, b in zip(ops, ops[1:]))
        st["asked_after_end"] += any(a == "stop" and b == "request" for a, b in zip(ops, ops[1:]))
        st["closed_then_asked"] += any(a == "close" and b == "request" and ev[i]["w"] == ev[i + 1]["w"] for i, (a, b) in enumerate(zip(ops, ops[1:])))
        st["yields"] += ops.count("yield")
    need = dict(iterable_wrapped_again=20, source_raised=20, error_passed_on=5, asked_after_end=20, closed_then_asked=10, yields=200)
    if any(st[k] < v for k, v in need.items()):
        raise MachineryError("progress histories are too thin (vacuity guard): %s" % dict(st))
    ctx.sample({"pbar_history": recs[len(recs) // 2]["script"], "events": recs[len(recs) // 2]["ev"]})
    # binding self-test: corrupted streams ride along
    probe = next(r for r in recs if sum(1 for e in r["ev"] if e["op"] == "yield") >= 2 and len({e["w"] for e in r["ev"] if e["op"] == "yield"}) >= 2
                 and len({e["s"] for e in r["ev"] if e["op"] == "yield"}) == 1
                 and next(sd for sd in [r["script"]["srcs"][[e for e in r["ev"] if e["op"] == "yield"][0]["s"] - 1]])["kind"] != "list")
    ev = probe["ev"]
    iy = [i for i, e in enumerate(ev) if e["op"] == "yield"]
    dup = [dict(e) for e in ev]
    dup[iy[1]]["v"] = ev[iy[0]]["v"]                                              # the second wrapper yields the first one's item again
    ip = [i for i, e in enumerate(ev) if e["op"] == "pull"]
    lost = [e for i, e in enumerate(ev) if i != iy[0]]                            # an item pulled and never yielded: the request is left open
    eager = ev[:ip[0] + 1] + [dict(ev[ip[0]], v=ev[ip[0]]["v"] + 1)] + ev[ip[0] + 1:]   # two pulls in a row
    S = [10 ** 6 + t for t in range(1, 4)]
    rej = pbh_judge(ctx, recs + [{"id": S[0], "script": probe["script"], "ev": dup}, {"id": S[1], "script": probe["script"], "ev": lost},
                                 {"id": S[2], "script": probe["script"], "ev": eager}],
                    "judge histories of progress wrappers (ProgressHistTrace; corrupted copies ride along)", selftest=S)
    ok = (rej.get(S[0]) == ["yielded_item_not_next_of_source"] and S[1] in rej and rej.get(S[2]) in (["not_lazy_pulled_ahead_of_consumer"], ["source_out_of_order"]))
    if not ok and not ctx.violations:
        raise MachineryError("binding self-test failed (pbar histories): %s" % {i: rej.get(i) for i in S})
    ctx.note(pbarhist=dict(model_bounds=T["model"], script_bounds=T["sim"], scripts=len(scripts), situations=dict(st), model_states=r0.distinct))
    return ("%d consumer scripts of %d commands (tlc -simulate on ProgressHist.tla: up to %d wrapper objects over up to %d iterables - lists iterated "
            "afresh, generators / iterators shared, exhausted, failing at or after their last item -, next / close / drop interleaved, finished "
            "wrappers asked again) driven through pbar / PBar" % (len(scripts), T["sim"]["MaxCmd"], T["sim"]["MaxWr"], T["sim"]["MaxSrc"]))


# =====================================================================================
# 4. parallel map
# =====================================================================================
PMAP_BOUNDS = {"quick": dict(MaxItems=4, MaxW=3, MaxCS=3), "thorough": dict(MaxItems=5, MaxW=3, MaxCS=3)}
_PM_STATE = {"giveups": 0}


def pmap_run(n, W, cs, vals, forder, opt, sleeps=None, itkind="list"):
    """one real pmap call; returns the trace record (without id)"""
    from esutil import pbar as pb
    d = tempfile.mkdtemp(prefix="c20-pm-")
    try:
        nch = (n + cs - 1) // cs
        last = {k: min(k * cs, n) for k in range(1, nch + 1)}          # last item of chunk k
        wait = {}
        use_dep = bool(forder) and _PM_STATE["giveups"] < 3
        if use_dep:
            for a, b in zip(forder, forder[1:]):
                wait[last[b]] = [last[a]]
        items = [(d, i + 1, vals[i], wait.get(i + 1, []), (sleeps[i] if sleeps else 0)) for i in range(n)]
        arg = {"list": lambda: items, "tuple": lambda: tuple(items), "gen": lambda: (x for x in items)}[itkind]()
        kw = {"file": io.StringIO()}
        if opt["total"] == "exact":
            kw["total"] = n
        if opt["simple"]:
            kw["simple"] = True
        try:
            res = pb.pmap(c20_tasks.task, arg, chunksize=cs, nproc=W, **kw)
            if type(res) is not list:
                out = {"err": "result_not_a_list:" + type(res).__name__, "val": []}
            else:
                out = {"err": "none", "val": [x if type(x) is int else -1 for x in res]}
        except Exception as e:  # noqa
            out = {"err": _err(e), "val": []}
        streams = c20_tasks.read_streams(d)
        gave_up = any(e["op"] == "giveup" for s in streams for e in s)
        if gave_up:
            _PM_STATE["giveups"] += 1
            streams = [[e for e in s if e["op"] != "giveup"] for s in streams]
        return {"c": {"n": n, "W": W, "cs": cs, "items": list(vals)}, "opt": opt, "res": out, "workers": streams,
                "forder": list(forder) if (use_dep and not gave_up) else [], "gave_up": gave_up, "itkind": itkind}
    finally:
        shutil.rmtree(d, ignore_errors=True)


def _pm_strip(r):
    return {k: r[k] for k in ("id", "c", "opt", "res", "workers", "forder")}


def _pm_consts(reduce_=True):
    return dict(MaxItems=1, MaxW=1, MaxCS=1, AnyOrder=False, DoExport=False, Reduce=reduce_)


def _pm_tlc(ctx, recs, what, next_, constraint, reduce_=True, workers=4):
    """PoolMapTrace.tla has two judgements with their own INIT/NEXT: run it directly"""
    import json
    from ..core import jsonable
    fd, path = tempfile.mkstemp(prefix="vh-trace-", suffix=".ndjson")
    try:
        with os.fdopen(fd, "w") as f:
            for r in recs:
                f.write(json.dumps(_pm_strip(r), separators=(",", ":"), default=jsonable) + "\n")
        r = ctx.tlc("PoolMapTrace.tla", what=what,
                    cfg_text=cfg(constants=_pm_consts(reduce_), init="TInit", next_=next_, constraints=[constraint]),
                    workers=workers, env={"TRACE_FILE": path}, coverage=False, timeout=1800)
        if r.garbled:
            if workers == 1:
                raise MachineryError("unparsed PrintT lines in PoolMapTrace output:\n" + r.tail(20))
            return _pm_tlc(ctx, recs, what, next_, constraint, reduce_, 1)
        if r.distinct < len(recs) + 1:
            raise MachineryError("PoolMapTrace visited %d states for %d records" % (r.distinct, len(recs)))
        return r
    finally:
        os.unlink(path)


def pmap_judge(ctx, recs, what):
    """(1) property level -> violations; returns the set of record ids accepted"""
    r = _pm_tlc(ctx, recs, what + " - result = list(map(fn, items))", "JNext", "Check")
    rej = {x["id"]: sorted(x["failing"]) for x in r.records.get("REJECT", [])}
    ctx.traces += len(recs) - len(rej)
    byid = {x["id"]: x for x in recs}
    for rid, failing in rej.items():
        x = byid[rid]
        for clause in failing:
            ctx.violation("pmap|%s|total=%s,simple=%s" % (clause, x["opt"]["total"], x["opt"]["simple"]),
                          "pmap result not list(map(fn, items)) (PoolMapTrace!PMFailing): clause %s%s"
                          % (clause, (" (" + x["res"]["err"] + ")") if x["res"]["err"] != "none" else ""),
                          {"kind": "pmap", "c": x["c"], "opt": x["opt"], "forder": x["forder"], "itkind": x["itkind"],
                           "sleeps": x.get("sleeps"), "res": x["res"], "workers": x["workers"]})
    return rej


def pmap_explain(ctx, recs, what, reduce_=True):
    """(2) mechanism level: ids of the records whose streams TLC could explain"""
    todo = [x for x in recs if x["res"]["err"] == "none"]
    if not todo:
        return set(), todo
    r = _pm_tlc(ctx, todo, what, "XNext", "Explained", reduce_)
    return {x["id"] for x in r.records.get("EXPLAINED", [])}, todo


def _out_of_order(rec):
    """did some chunk finish before an earlier one (per TLC's schedule, reproduced)?"""
    f = rec["forder"]
    return any(a > b for a, b in zip(f, f[1:]))


def part_pmap(ctx):
    B = PMAP_BOUNDS[ctx.tier]
    r1 = _m(ctx, "pmap.mc")       # every schedule; ordered delivery; liveness under weak fairness; final states exported
    rb = _m(ctx, "pmap.self")
    if "PrefixInv" not in rb.violated:
        raise MachineryError("self-test failed: PoolMap PrefixInv not violated by unordered delivery")
    scheds = sorted({(c["n"], c["W"], c["cs"], tuple(c["forder"])) for c in r1.records.get("CASE", [])})
    if len(scheds) < 20:
        raise MachineryError("PoolMap export: only %d schedules" % len(scheds))
    rng = random.Random(ctx.seed * 32452843 + 4)
    opts = [{"total": "exact", "simple": False}, {"total": "none", "simple": False},
            {"total": "exact", "simple": True}, {"total": "exact", "simple": False}]
    recs, nid = [], 0
    for j, (n, W, cs, forder) in enumerate(scheds):
        nid += 1
        vals = [rng.randrange(0, 4) for _ in range(n)]            # ties among the items
        rec = pmap_run(n, W, cs, vals, list(forder), opts[j % 4], itkind=("list", "gen", "tuple")[j % 3])
        rec["id"] = nid
        recs.append(rec)
        ctx.count({"pmap": [n, W, cs, list(forder)], "opt": opts[j % 4]})
    # the documented rejection and the remaining option corner
    for opt in ({"total": "none", "simple": True},):
        nid += 1
        rec = pmap_run(3, 2, 1, [1, 2, 3], [], opt)
        rec["id"] = nid
        recs.append(rec)
        ctx.count({"pmap": [3, 2, 1], "opt": opt})
    nsched = len(recs)
    # seeded latencies, nproc 1..8 (quick: 1..3), chunksize 1..len+1
    nrand, maxw, maxn = (25, 3, 7) if ctx.quick else (400, 8, 13)
    for j in range(nrand):
        nid += 1
        n = rng.choice([0, 1, 2, 5, maxn, rng.randrange(0, maxn + 1)])
        W = 1 + (j % maxw)
        cs = rng.randrange(1, n + 2)
        vals = [rng.randrange(0, 6) for _ in range(n)]
        sleeps = [rng.choice([0, 0, 300, 1500, 4000]) for _ in range(n)]
        if n >= 2:
            sleeps[0] = 6000                                       # the first item is the slowest
        rec = pmap_run(n, W, cs, vals, [], opts[j % 4], sleeps=sleeps, itkind=("list", "gen", "tuple")[j % 3])
        rec["id"], rec["sleeps"] = nid, sleeps
        recs.append(rec)
        ctx.count({"pmap": [n, W, cs], "sleeps": sleeps, "opt": opts[j % 4]})
    ctx.sample({"pmap_case": recs[nsched // 2]["c"], "forder": recs[nsched // 2]["forder"], "returned": recs[nsched // 2]["res"],
                "worker_streams": recs[nsched // 2]["workers"]})
    pmap_judge(ctx, recs, "judge pmap runs (PoolMapTrace)")
    explained, todo = pmap_explain(ctx, recs, "explain worker streams by an interleaving of PoolMap actions (PoolMapTrace)")
    unexplained = [x for x in todo if x["id"] not in explained]
    # cross-check of the priority reduction on the small schedule replays
    small = [x for x in todo if x["id"] <= nsched][:60]
    ex2, _ = pmap_explain(ctx, small, "cross-check: unreduced interleaving search on %d records" % len(small), reduce_=False)
    if ex2 != {x["id"] for x in small if x["id"] in explained}:
        raise MachineryError("PoolMapTrace: reduced and unreduced searches disagree: %s vs %s" % (sorted(ex2), sorted(explained)))
    reproduced = [x for x in recs[:nsched] if x["forder"] and x["id"] in explained]
    ooo = [x for x in reproduced if _out_of_order(x)]
    gave = [x for x in recs if x["gave_up"]]
    # binding self-tests on a reproduced out-of-order schedule
    if ooo:
        probe = max(ooo, key=lambda x: (x["res"]["err"] == "none", len(x["forder"])))
        val = probe["res"]["val"]
        done_order = [i for k in probe["forder"] for i in range((k - 1) * probe["c"]["cs"], min(k * probe["c"]["cs"], probe["c"]["n"]))]
        bad1 = dict(probe, id=2, res={"err": "none", "val": [val[i] for i in done_order]})        # completion order
        bad2 = dict(probe, id=3, res={"err": "none", "val": val[:-1]})
        w = [list(s) for s in probe["workers"]]
        w[0] = w[0][2:] + w[0][:2] if len(w[0]) > 2 else w[0][::-1]
        bad3 = dict(probe, id=4, workers=w)                                                       # a stream the model cannot produce
        good = dict(probe, id=1)
        saved, nv = ctx.traces, len(ctx.violations)
        rej = pmap_judge(ctx, [good, bad1, bad2, bad3], "self-test: corrupted pmap results rejected")
        ex, _ = pmap_explain(ctx, [good, bad1, bad2, bad3], "self-test: corrupted pmap streams not explained")
        ctx.traces = saved
        del ctx.violations[nv:]
        distinct_vals = [val[i] for i in done_order] != val
        if 1 in rej or 3 not in rej or (distinct_vals and 2 not in rej) or 1 not in ex or 4 in ex or 3 in ex:
            raise MachineryError("binding self-test failed (pmap): rejected=%s explained=%s" % (rej, sorted(ex)))
    elif not gave:
        raise MachineryError("no out-of-order schedule was reproduced on the real pool (vacuous pmap check)")
    ctx.note(pmap=dict(bounds=B, schedules_exported=len(scheds), schedules_reproduced=len(reproduced),
                       reproduced_out_of_order=len(ooo), seeded_latency_runs=nrand, max_nproc=maxw,
                       streams_explained=len(explained), streams_unexplained=[x["id"] for x in unexplained][:20],
                       schedule_waits_given_up=len(gave)))
    if unexplained or gave:
        ctx.log("LEAD (mechanism, not a verdict): %d pmap runs not explained by PoolMap.tla, %d schedule waits given up"
                % (len(unexplained), len(gave)))
    return ("every completion order of every (items 0..%d, nproc 1..%d, chunksize 1..%d) schedule exported from PoolMap.tla imposed "
            "on the real pool, plus %d seeded-latency runs with nproc 1..%d, chunksize 1..len+1, up to %d items"
            % (B["MaxItems"], B["MaxW"], B["MaxCS"], nrand, maxw, maxn))


# =====================================================================================
# 4b. histories of pmap calls in one process (PoolHist.tla)
# =====================================================================================
PMH_CONSTS = dict(NV=3, MaxLen=4, MaxW=3, MaxCS=3, Gens={0, 1, 2, 3})
# exhaustive model depth, simulated histories: number asked for, kept, operations per history
PMH_TIERS = {"quick": dict(mc_depth=5, num=30, keep=12, depth=16), "thorough": dict(mc_depth=8, num=400, keep=150, depth=24)}


def _pmh_table0():
    return [i for i in range(1, PMH_CONSTS["NV"] + 1)]            # PHTable(0)


def pmh_run(ops):
    """execute one history on the real pmap, in THIS process; returns the operations with what was observed"""
    from esutil import pbar as pb
    saved = c20_tasks.TABLE
    c20_tasks.TABLE = _pmh_table0()
    L = list(range(min(PMH_CONSTS["NV"], 2)))                      # PHItems0: the ONE list object of the history
    it, it_len = None, 0
    out = []
    try:
        for o in ops:
            o = {k: v for k, v in o.items() if k not in ("res", "after")}
            if o["op"] == "settab":
                if o["how"] == "rebind":
                    c20_tasks.TABLE = list(o["tab"])
                else:
                    for i, x in enumerate(o["tab"]):
                        if c20_tasks.TABLE[i] != x:
                            c20_tasks.TABLE[i] = x                 # in place: same list object
                o["after"] = list(c20_tasks.TABLE)
            elif o["op"] == "mut":
                how = o["how"]
                if how == "append":
                    L.append(o["v"])
                elif how == "pop":
                    L.pop()
                elif how == "reverse":
                    L.reverse()
                elif how == "set":
                    L[o["i"] - 1] = o["v"]
                elif how == "clear":
                    del L[:]
                else:
                    raise MachineryError("unknown list operation %r" % how)
                o["after"] = list(L)
            elif o["op"] == "newiter":
                it, it_len = iter(tuple(L)), len(L)
            elif o["op"] == "call":
                src = o["src"]
                if src == "iter" and it is None:
                    raise MachineryError("history feeds a call from an iterator that was never made")
                arg = {"list": lambda: L, "tuple": lambda: tuple(L), "gen": lambda: (x for x in L), "iter": lambda: it}[src]()
                n = it_len if src == "iter" else len(L)
                kw = {"file": io.StringIO()}
                if o["opt"] in ("exact", "simple"):
                    kw["total"] = n
                if o["opt"] == "simple":
                    kw["simple"] = True
                cs = 0 if o["bad"] == "cs0" else o["cs"]
                try:
                    res = pb.pmap(c20_tasks.HIST_FNS[o["fn"]], arg, chunksize=cs, nproc=o["W"], **kw)
                    if type(res) is not list:
                        o["res"] = {"err": "result_not_a_list:" + type(res).__name__, "val": []}
                    else:
                        o["res"] = {"err": "none", "val": [x if type(x) is int else -1 for x in res]}
                except Exception as e:  # noqa
                    o["res"] = {"err": _err(e), "val": []}
                if src == "iter":
                    it_len = 0
            else:
                raise MachineryError("unknown history operation %r" % o["op"])
            out.append(o)
    finally:
        c20_tasks.TABLE = saved
    return out


def _isolated(fn, arg, timeout=1800):
    """run fn(arg) in a forked child that starts from this process's image and return its (JSON-able) result: every
    history gets a process of its own, so a replay of the history alone sees what the check saw.  The child ends its
    own child processes (worker pools a tree under test may have left running) before it exits."""
    import json
    import multiprocessing
    import select
    import signal
    import time
    rfd, wfd = os.pipe()
    pid = os.fork()
    if pid == 0:
        code = 1
        try:
            os.close(rfd)
            out = json.dumps(fn(arg)).encode()
            with os.fdopen(wfd, "wb") as f:
                f.write(out)
            code = 0
        except BaseException as e:  # noqa
            try:
                os.write(2, ("c20 child failed: %r\n" % (e,)).encode())
            except Exception:  # noqa
                pass
        finally:
            try:
                for p in multiprocessing.active_children():
                    p.terminate()
                for p in multiprocessing.active_children():
                    p.join(1)
            finally:
                os._exit(code)
    os.close(wfd)
    buf, t0 = b"", time.monotonic()
    try:
        while True:
            left = timeout - (time.monotonic() - t0)
            if left <= 0:
                os.kill(pid, signal.SIGKILL)
                os.waitpid(pid, 0)
                raise MachineryError("child process for a call history did not finish within %d s" % timeout)
            if select.select([rfd], [], [], min(left, 1.0))[0]:
                chunk = os.read(rfd, 1 << 16)
                if not chunk:
                    break
                buf += chunk
    finally:
        os.close(rfd)
    _, status = os.waitpid(pid, 0)
    if status != 0 or not buf:
        raise MachineryError("child process for a call history failed (status %d)" % status)
    return json.loads(buf.decode())


def _isolated_many(fn, args, lanes):
    """_isolated over many arguments, `lanes` at a time (each lane is a forked child that forks one grandchild per
    argument, so no process ever forks while it has threads)"""
    args = list(args)
    lanes = max(1, min(lanes, len(args), int(os.environ.get("VH_MAX_WORKERS", "16"))))
    if lanes == 1 or len(args) < 8:
        return [_isolated(fn, a) for a in args]
    parts = [args[i::lanes] for i in range(lanes)]

    def lane(part):
        return [_isolated(fn, a) for a in part]
    import json
    pipes = []
    for part in parts:
        rfd, wfd = os.pipe()
        pid = os.fork()
        if pid == 0:
            code = 1
            try:
                os.close(rfd)
                with os.fdopen(wfd, "wb") as f:
                    f.write(json.dumps(lane(part)).encode())
                code = 0
            except BaseException as e:  # noqa
                os.write(2, ("c20 lane failed: %r\n" % (e,)).encode())
            finally:
                os._exit(code)
        os.close(wfd)
        pipes.append((pid, rfd))
    outs = []
    for pid, rfd in pipes:
        with os.fdopen(rfd, "rb") as f:
            data = f.read()
        _, status = os.waitpid(pid, 0)
        if status != 0 or not data:
            raise MachineryError("lane process for call histories failed (status %d)" % status)
        outs.append(json.loads(data.decode()))
    res = [None] * len(args)
    for i, out in enumerate(outs):
        res[i::lanes] = out
    return res


def _pmh_sig(o, clause):
    return "pmap|%s|history,fn=%s,items=%s" % (clause, "pure" if o["fn"] == "sq" else "reads_module_state",
                                                "iterator" if o["src"] == "iter" else "list")


def pmh_judge(ctx, recs, what, selftest=()):
    """selftest: ids of deliberately corrupted records riding in the same TLC run (their rejection is no verdict)"""
    rej = tracecheck.validate(ctx, "PoolHistTrace.tla", [{"id": r["id"], "ops": r["ops"]} for r in recs], what=what,
                              constants=dict(PMH_CONSTS, HDepth=1, PoolMode="fresh", Thin=True, DoExport=False))
    byid = {r["id"]: r for r in recs}
    ctx.traces -= len([i for i in selftest if i not in rej])
    for rid, failing in rej.items():
        if rid in selftest:
            continue
        r = byid[rid]
        for k, clause in failing:
            o = r["ops"][k - 1]
            if clause == "harness_state_mismatch":
                raise MachineryError("history replay: the harness's table / list differs from PHStep after operation %d of %s" % (k, r["ops"]))
            ctx.violation(_pmh_sig(o, clause),
                          "call %d of a history of pmap calls in one process did not return list(map(fn, items)) as evaluated in the "
                          "parent at the time of the call (PoolHist!PHCallFailing): clause %s%s"
                          % (sum(1 for x in r["ops"][:k] if x["op"] == "call"), clause,
                             (" (" + o["res"]["err"] + ")") if o["res"]["err"] != "none" else ""),
                          {"kind": "pmaphist", "ops": [{kk: v for kk, v in x.items() if kk not in ("res", "after")} for x in r["ops"][:k]],
                           "failing_op": k, "observed": o["res"]})
    return rej


def _pmh_stats(hists):
    """vacuity guard: how often the situations the histories are there for occur"""
    st = collections.Counter()
    for h in hists:
        used, keys, tabchg, itemchg = set(), set(), False, False
        for o in h["ops"]:
            if o["op"] == "settab":
                tabchg = True
            elif o["op"] == "mut":
                itemchg = True
            elif o["op"] == "call":
                if o["bad"] != "none":
                    st["bad_argument_calls"] += 1
                    continue
                if o["fn"] != "sq" and o["W"] in used and tabchg:
                    st["reads_changed_state_with_nproc_used_before"] += 1
                if itemchg and used:
                    st["items_mutated_since_an_earlier_call"] += 1
                key = tuple(o[k] for k in ("fn", "W", "cs", "src"))
                if key in keys and o["src"] == "list" and itemchg:
                    st["same_call_repeated_on_the_mutated_list"] += 1
                keys.add(key)
                if o["src"] == "iter":
                    st["fed_from_long_lived_iterator"] += 1
                if o["fn"] == "chk":
                    st["fn_may_raise"] += 1
                used.add(o["W"])
                st["calls"] += 1
    return st


def part_pmaphist(ctx):
    import multiprocessing
    T = PMH_TIERS[ctx.tier]
    r0 = _m(ctx, "pmaphist.mc")
    if r0.distinct < 5000:
        raise MachineryError("PoolHist model run visited only %d states" % r0.distinct)
    rb = _m(ctx, "pmaphist.self")
    if "HistRefines" not in rb.violated:
        raise MachineryError("self-test failed: PoolHist HistRefines not violated by the cached pool")
    rs = _m(ctx, "pmaphist.sim")
    byprefix = {}
    for h in rs.records.get("HIST", []):                            # the constraint prints every candidate last operation:
        byprefix.setdefault(repr(h["ops"][:-1]), h)                 # one history per simulated behaviour
    hists = list(byprefix.values())[:T["keep"]]
    if len(hists) < T["keep"] or any(len(h["ops"]) != T["depth"] for h in hists):
        raise MachineryError("PoolHist simulation produced %d histories of depth %s" % (len(hists), sorted({len(h["ops"]) for h in hists})))
    st = _pmh_stats(hists)
    need = {"reads_changed_state_with_nproc_used_before": T["keep"], "items_mutated_since_an_earlier_call": T["keep"],
            "fed_from_long_lived_iterator": 2, "fn_may_raise": T["keep"] // 2, "same_call_repeated_on_the_mutated_list": T["keep"] // 3}
    if any(st[k] < v for k, v in need.items()):
        raise MachineryError("simulated pmap histories are too thin (vacuity guard): %s" % dict(st))
    start = multiprocessing.get_start_method()
    if start != "fork":
        # workers that do not fork from the parent re-import the task module: state changed after import is invisible to
        # them by the nature of that start method - the reading "as evaluated in the parent" needs fork
        raise MachineryError("multiprocessing start method is %r: the history check is written for fork" % start)
    recs = [{"id": i, "ops": ops} for i, ops in enumerate(_isolated_many(pmh_run, [h["ops"] for h in hists], 4), 1)]
    for h in hists:
        ctx.count({"pmaphist": h["ops"]})
    mid = recs[len(recs) // 2]
    ctx.sample({"pmap_history": mid["ops"][:8]})
    # binding self-test: a call answered from the table of an earlier moment / from the list of an earlier moment is rejected
    probe = None
    for r in recs:
        tabs = [_pmh_table0()]
        for k, o in enumerate(r["ops"]):
            if o["op"] == "settab":
                tabs.append(o["after"])
            elif (o["op"] == "call" and o["bad"] == "none" and o["fn"] == "tab" and o["res"]["err"] == "none" and o["res"]["val"]
                  and len(tabs) >= 2 and o["src"] != "iter"):
                cur = tabs[-1]
                inv = {x: j for j, x in enumerate(cur)}
                old = next((t for t in tabs[:-1] if [t[inv[x]] for x in o["res"]["val"] if x in inv] != o["res"]["val"]), None)
                if old is not None and all(x in inv for x in o["res"]["val"]):
                    probe = (r, k, [old[inv[x]] for x in o["res"]["val"]])
                    break
        if probe:
            break
    if not probe:
        raise MachineryError("no history suitable for the binding self-test (pmap histories)")
    r, k, stale = probe
    bad1 = [dict(o) for o in r["ops"]]
    bad1[k] = dict(bad1[k], res={"err": "none", "val": stale})
    bad2 = [dict(o) for o in r["ops"]]
    bad2[k] = dict(bad2[k], res={"err": "none", "val": r["ops"][k]["res"]["val"] + [5]})
    S1, S2 = 10 ** 6 + 1, 10 ** 6 + 2
    rej = pmh_judge(ctx, recs + [{"id": S1, "ops": bad1}, {"id": S2, "ops": bad2}],
                    "judge histories of pmap calls (PoolHistTrace; two corrupted copies ride along as binding self-test)", selftest=(S1, S2))
    if rej.get(S1) != [[k + 1, "result_from_stale_process_state"]] or [k + 1, "result_length"] not in rej.get(S2, []):
        if not ctx.violations:
            raise MachineryError("binding self-test failed (pmap histories): %s" % {i: rej.get(i) for i in (S1, S2)})
    ctx.note(pmaphist=dict(consts={k: (sorted(v) if isinstance(v, set) else v) for k, v in PMH_CONSTS.items()}, exhaustive_depth=T["mc_depth"],
                           histories=len(hists), operations_per_history=T["depth"], situations=dict(st), start_method=start))
    return ("%d histories of %d operations each (tlc -simulate on PoolHist.tla: the module-level table the task function reads re-bound / "
            "overwritten in place, the caller's one item list mutated in place, a long-lived iterator, nproc / chunksize / fn / options "
            "changing from call to call, failing fn and chunksize=0 calls interleaved) executed in one process, %d calls"
            % (len(hists), T["depth"], st["calls"]))


# =====================================================================================
def run(ctx):
    rules = []
    _prefetch(ctx)
    if _want(ctx, "sort"):
        rules.append("sort: " + part_sort(ctx))
    if _want(ctx, "sortalias"):
        rules.append("sort with aliased arguments: " + part_sortalias(ctx))
    if _want(ctx, "sortscale"):
        rules.append("sort at scale: " + part_sortscale(ctx))
    if _want(ctx, "chunk"):
        rules.append("chunk: " + part_chunk(ctx))
    if _want(ctx, "chunkworld"):
        rules.append("chunk sessions: " + part_chunkworld(ctx))
    if _want(ctx, "pbar"):
        rules.append("pbar: " + part_pbar(ctx))
    if _want(ctx, "pbarhist"):
        rules.append("pbar histories: " + part_pbarhist(ctx))
    if _want(ctx, "pmaphist"):        # before any pmap call of this process: the children that run the histories start clean
        rules.append("pmap histories: " + part_pmaphist(ctx))
    if _want(ctx, "pmap"):
        rules.append("pmap: " + part_pmap(ctx))
    ctx.rule = "; ".join(rules) + ("; a case is distinct by its abstract record (+ container / entry point) and counted once; "
                                   "trivial cases (empty inputs) are included in the count, they are a named part of the quantifier")
    ctx.exhaustive = True
    ctx.assumptions = [
        "keys are totally ordered values without NaN; key-value inputs have equal length",
        "splitarray: 1-d inputs (the docstring's 'number of elements in each sub-array'); an empty trailing chunk is accepted",
        "total=, when given, is the exact count or a positive estimate (n-1 >= 1, n+2); total=0 for a non-empty iterable is outside the reading",
        "simple=True without total= on a length-less iterable (and therefore pmap(simple=True) without total=) may be rejected (documented)",
        "laziness is read as the weaker invariant pulled <= yielded + 1",
        "text written to file= is not constrained",
        "pmap worker streams that PoolMap.tla cannot explain are reported as leads in the evidence, never as violations",
        "pmap histories: worker processes are forked (the start method of this platform), so 'list(map(fn, items)) as evaluated in the "
        "parent at the time of the call' is what a correct pmap returns also for a task function that reads module-level state; the "
        "outcome of a call with chunksize=0 is not constrained (only that the calls after it are unaffected)",
        "progress histories: after the wrapped iterable raised, passing the exception on and stopping are both accepted; a pull may "
        "run one item ahead of the consumer (the same weaker reading of 'lazily')",
        "sorts at scale run at the interpreter's default recursion limit (1000): a RecursionError on ordered input is a violation",
        "aliased key-value sorts: the same array twice and a column of the values table as keys have a defined result (every pair "
        "(x, x) / every row intact and ordered by its key column); partially overlapping slices (keys[i] and values[i-1] one cell) "
        "have no reading of 'pairs kept together' and are outside the quantifier; an aliased sort of at most a few hundred elements "
        "still running after 10 s of CPU time is recorded as not terminating (a violation)",
        "chunk sessions: results of isplit are the caller's (overwriting them must not change later calls nor other results); "
        "whether splitarray's chunks are views or copies is not constrained (they are judged against the array at the time of the "
        "call only); a result that refuses to be overwritten is a stutter step",
    ]
    ctx.trusted_base = ctx.trusted_base + [
        "CPython generator / iterator protocol and concurrent.futures.ProcessPoolExecutor as the substrate the wrappers run on",
        "the recording iterables and the logging task function of harness/vh/c20_tasks.py (exercised by the corrupted-stream self-tests)",
    ]


def replay(ctx, case):
    kind = case.get("kind")
    if kind == "sort":
        c = case["c"]
        o = sort_obs(c["variant"], case["kkind"], case["vkind"], c["keys"], c["vals"])
        print("replay observed:", o)
        _judge_sort(ctx, [{"id": 1, "c": c, "obs": [o]}], "replay")
    elif kind == "sortalias":
        o = alias_obs(case["alias"], case["rep"], case["ktype"], case["keys"])
        print("replay observed:", o)
        _judge_alias(ctx, [{"id": 1, "c": _alias_case(case["alias"], case["keys"]), "obs": [o]}], "replay")
    elif kind == "chunk":
        c = case["c"]
        o = isplit_obs(c["num"], c["nchunks"], case["flavour"]) if c["fn"] == "isplit" else split_obs(c["nper"], c["a"], case["flavour"])
        print("replay observed:", o)
        _judge_chunks(ctx, [{"id": 1, "c": c, "obs": [o]}], "replay")
    elif kind == "chunkworld":
        arg = {"ops": case["ops"], "kind": case["arrkind"], "arrlens": case["arrlens"]}
        ops = _isolated(world_run, arg)              # the whole session, in one fresh process
        print("replay observed:", ops[case["failing_op"] - 1])
        world_judge(ctx, [{"id": 1, "ops": ops, "kind": case["arrkind"], "arrs0": [list(range(1, n + 1)) for n in case["arrlens"]]}], "replay")
    elif kind == "pbar":
        ev, errcls = pbar_run(case["c"], case["entry"])
        print("replay observed:", ev, errcls)
        _judge_pbar(ctx, [{"id": 1, "c": case["c"], "entry": case["entry"], "ev": ev, "errcls": errcls}], "replay")
    elif kind == "pmap":
        c = case["c"]
        rec = pmap_run(c["n"], c["W"], c["cs"], c["items"], case.get("forder") or [], case["opt"], sleeps=case.get("sleeps"),
                       itkind=case.get("itkind", "list"))
        rec["id"] = 1
        print("replay observed:", rec["res"], rec["workers"])
        pmap_judge(ctx, [rec], "replay")
    elif kind == "pbarhist":
        ev = pbh_run(case["script"])
        print("replay observed:", ev)
        pbh_judge(ctx, [{"id": 1, "script": case["script"], "ev": ev}], "replay")
    elif kind == "sortscale":
        c = case["c"]
        o = sortscale_obs((c, case["kkind"], case["vkind"]))
        print("replay observed:", o["err"], o["pr"][:20])
        _judge_scale(ctx, [{"id": 1, "c": c, "obs": [o]}], "replay")
    elif kind == "pmaphist":
        ops = _isolated(pmh_run, case["ops"])
        print("replay observed:", ops[case["failing_op"] - 1])
        pmh_judge(ctx, [{"id": 1, "ops": ops}], "replay")
    else:
        raise MachineryError("unknown replay case kind %r" % kind)
