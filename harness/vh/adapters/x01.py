"""X01 (extension) - array selection, scaling and assembly helpers of esutil.numpy_util and esutil.misc.

between / outside, where1, select_percentile, arrscl, replicate, combine_arrlist, dict2array,
dictlist2array, strmatch, make_xy_grid, misc.dict_select, misc.collect_keyby.

spec -> code : SelectionMC.tla enumerates (a) every case of every function family over the bounded
               alphabets and (b) every behaviour of the selection pipeline (a list of arrays stepped
               by between/outside + where1, select_percentile, combine_arrlist).  Cases and
               behaviours are exported as JSON; each case is concretised on a dyadic lattice and
               executed against the real code, each behaviour is replayed step by step (the result
               of one step is the input of the next).
code -> spec : what the real code returned - for those and for larger seeded cases / longer seeded
               chains - is projected back to the abstract alphabet (lattice integers, exact rationals,
               row tokens, field descriptors) and judged by SelectionTrace.tla (SLFailing /
               SLPFailing of Selection.tla).
Python never judges a result: it maps abstract <-> concrete and records.
"""
import hashlib
import json
import random
from concurrent.futures import ThreadPoolExecutor
from fractions import Fraction

import numpy as np

from .. import ratproj, tracecheck
from ..core import MachineryError
from ..par import pmap
from ..tlc import cfg

NEEDS_EXT = True      # "import esutil" needs the compiled extensions (the build is cached)

# ---------------------------------------------------------------------------------
# lattices:  concrete value = (v + off) * unit
# ---------------------------------------------------------------------------------
CONC = [(1, 0, "i8"), (1, -3, "i4"), (0.5, 0, "f8"), (0.125, 7, "f8"), (4.0, 1000, "f4"),
        (2.0 ** -10, -2 ** 10, "f8"), (1, 0, "f8"), (1024.0, -5, "f8")]
CONC2 = [(1, 0), (0.25, 3), (8.0, -100), (1, -2)]         # the lattice of minval / maxval and of the y axis
DEN = 64                                                  # denominators of expected rationals are <= 8 (and <= ML, n-1)
F4TOL = 16 * Fraction(1, 2 ** 23)
LETTERS = {1: "a", 2: "b"}
REPSTR = ["a", "bc", "xyz", "wxyz"]
FAMILIES = ["between", "outside", "where1", "percentile", "arrscl", "replicate", "combine", "dict2array",
            "dictlist2array", "strmatch", "grid", "dict_select", "keyby"]
ENTRY = {"between": "numpy_util.between", "outside": "numpy_util.outside", "where1": "numpy_util.where1",
         "percentile": "numpy_util.select_percentile", "arrscl": "numpy_util.arrscl", "replicate": "numpy_util.replicate",
         "combine": "numpy_util.combine_arrlist", "dict2array": "numpy_util.dict2array",
         "dictlist2array": "numpy_util.dictlist2array", "strmatch": "numpy_util.strmatch", "grid": "numpy_util.make_xy_grid",
         "dict_select": "misc.dict_select", "keyby": "misc.collect_keyby"}


def cval(v, k):
    unit, off, dt = CONC[k]
    x = (v + off) * unit
    return int(x) if dt[0] == "i" else float(x)


def carr(vs, k, shape=None):
    a = np.array([cval(v, k) for v in vs], dtype=CONC[k][2])
    return a if shape is None else a.reshape(tuple(shape))


def cinv(x, k):
    """concrete value -> lattice integer (or -999 when it is not a lattice point)"""
    unit, off, _ = CONC[k]
    try:
        f = Fraction(float(x)) / Fraction(unit) - off
    except (ValueError, OverflowError, TypeError):
        return -999
    return int(f) if f.denominator == 1 and abs(f) < 10 ** 6 else -999


def c2val(v, j, asint):
    unit, off = CONC2[j]
    x = (v + off) * unit
    return int(x) if (asint and float(x).is_integer()) else float(x)


def kind_of(dt):
    dt = np.dtype(dt)
    if dt.kind == "U":
        return "U%d" % (dt.itemsize // 4)
    return "%s%d" % (dt.kind, dt.itemsize)


def rat(x, scale, unit, off, reltol=ratproj.RELTOL):
    return ratproj.real(x, scale=scale, div=unit, off=off, den_bound=DEN, reltol=reltol)


def errname(e):
    return type(e).__name__


# ---------------------------------------------------------------------------------
# one observation per family
# ---------------------------------------------------------------------------------
def obs_interval(c, var):
    from esutil import numpy_util as nu
    k = var % len(CONC)
    x = carr(c["x"], k, c["shape"])

    def bound(vals, isarr):
        if isarr:
            return carr(vals, k)
        b = cval(vals[0], k)
        return np.dtype(CONC[k][2]).type(b) if (var // len(CONC)) % 2 else b
    lo, hi = bound(c["lo"], c["loarr"]), bound(c["hi"], c["hiarr"])
    fn = nu.between if c["fn"] == "between" else nu.outside
    try:
        r = fn(x, lo, hi, c["ty"]) if not (c["ty"] == ("[)" if c["fn"] == "between" else ")(") and var % 2) else fn(x, lo, hi)
        r = np.asarray(r)
        return {"err": "none", "shape": list(r.shape), "val": [bool(v) for v in r.reshape(-1)], "kind": kind_of(r.dtype)}
    except Exception as e:  # noqa
        return {"err": errname(e), "shape": [], "val": [], "kind": ""}


def obs_where(c, var):
    from esutil import numpy_util as nu
    if c["form"] == "bool":
        a = np.array([v != 0 for v in c["x"]], dtype=bool)
    elif c["form"] == "int":
        a = np.array(c["x"], dtype=["i4", "i8", "u1", "f8"][var % 4])
    else:
        a = [v != 0 for v in c["x"]]
    try:
        r = nu.where1(a)
        return {"err": "none", "val": [int(v) for v in r], "kind": kind_of(r.dtype)}
    except Exception as e:  # noqa
        return {"err": errname(e), "val": [], "kind": ""}


def _ratrec_pair(pair, scale, unit, off):
    return [rat(pair[0], scale, unit, off), rat(pair[1], scale, unit, off)]


def obs_perc(c, var):
    from esutil import numpy_util as nu
    k = var % len(CONC)
    unit, off, _ = CONC[k]
    x = carr(c["x"], k)
    if (var // len(CONC)) % 4 == 3:
        x = x.tolist()                                        # "x: array-like"
    q = [12.5 * v for v in c["q8"]]
    if c["scalar"]:
        q = q[0] if var % 2 else int(q[0]) if float(q[0]).is_integer() else q[0]
    elif (var // 3) % 3 == 1:
        q = np.array(q)
    elif (var // 3) % 3 == 2:
        q = tuple(q)
    kw = {} if c["method"] == "default" else {"method": c["method"]}
    scale = abs(off) + max(c["x"] + [1]) + 1
    try:
        res = nu.select_percentile(x, q, get_ranges=True, **kw) if c["ranges"] else nu.select_percentile(x, q, **kw)
        if isinstance(res, tuple) and len(res) == 2:
            wl, rg = res
            ranges = [_ratrec_pair(p, scale, unit, off) if len(p) == 2 else [dict(ratproj.OFF)] for p in rg]
            return {"err": "none", "idx": [[int(i) for i in w] for w in wl], "hasranges": True, "ranges": ranges}
        return {"err": "none", "idx": [[int(i) for i in w] for w in res], "hasranges": False, "ranges": []}
    except Exception as e:  # noqa
        return {"err": errname(e), "idx": [], "hasranges": False, "ranges": []}


def obs_scl(c, var):
    from esutil import numpy_util as nu
    f4 = c["dt"] == "f4"
    k = 6 if f4 else var % len(CONC)
    j = 0 if f4 else (var // len(CONC)) % len(CONC2)
    unit, off, _ = CONC[k]
    unit2, off2 = CONC2[j]
    x = carr(c["x"], k, c["shape"])
    keep = x.copy()
    asint = (var // 32) % 2 == 0
    minval, maxval = c2val(c["minv"], j, asint), c2val(c["maxv"], j, asint)
    kw = {}
    if c["hasmin"]:
        kw["arrmin"] = cval(c["amin"], k)
    if c["hasmax"]:
        kw["arrmax"] = cval(c["amax"], k)
    if c["dt"] != "default":
        kw["dtype"] = c["dt"]
    # magnitude of the intermediate terms x*a and b (lattice-2 units): the rounding error is relative to it
    lo = kw.get("arrmin", min(cval(v, k) for v in c["x"]))
    hi = kw.get("arrmax", max(cval(v, k) for v in c["x"]))
    if lo != hi:
        a = Fraction(maxval - minval) / Fraction(hi - lo)
        b = (Fraction(hi) * Fraction(minval) - Fraction(lo) * Fraction(maxval)) / Fraction(hi - lo)
        scale = max([abs(Fraction(cval(v, k)) * a) for v in c["x"]] + [abs(b), abs(Fraction(minval)), abs(Fraction(maxval))]) / Fraction(unit2) + 1
    else:
        scale = 1
    try:
        with np.errstate(all="ignore"):
            r = nu.arrscl(x, minval, maxval, **kw)
        r = np.asarray(r)
        return {"err": "none", "shape": list(r.shape),
                "val": [rat(v, scale, unit2, off2, reltol=F4TOL if f4 else ratproj.RELTOL) for v in r.reshape(-1)],
                "kind": kind_of(r.dtype), "frame": bool(x.tobytes() == keep.tobytes()), "fresh": not np.shares_memory(r, x)}
    except Exception as e:  # noqa
        return {"err": errname(e), "shape": [], "val": [], "kind": "", "frame": True, "fresh": True}


def rep_value(c):
    v = c["v"]
    return {"int": v * 7 - 3, "float": v + 0.5, "str": REPSTR[v]}[c["vk"]]


def obs_rep(c, var):
    from esutil import numpy_util as nu
    value = rep_value(c)
    if c["vk"] == "int" and var % 3 == 1:
        value = np.int64(value)
    if c["vk"] == "float" and var % 3 == 1:
        value = np.float64(value)
    sh = c["shape"]
    shape = {"int": (sh[0] if sh else 0), "tuple": tuple(sh), "list": list(sh)}[c["shform"]]
    if c["shform"] == "int" and var % 2:
        shape = np.int64(shape)
    kw = {} if c["dt"] == "none" else {"dtype": c["dt"]}
    try:
        r = nu.replicate(value, shape, **kw)
        want = rep_value(c)

        def code(e):
            if c["vk"] == "str":
                e = e.decode("ascii", "replace") if isinstance(e, bytes) else str(e)
            return c["v"] if e == want else -1
        return {"err": "none", "shape": list(r.shape), "val": [code(e) for e in r.reshape(-1).tolist()], "kind": kind_of(r.dtype)}
    except Exception as e:  # noqa
        return {"err": errname(e), "shape": [], "val": [], "kind": ""}


# structured rows: token t <-> the canonical row of a dtype
ROWDT = {1: np.dtype([("id", "i8"), ("v", "f8")]),
         2: np.dtype([("id", "i8"), ("v", "f8"), ("s", "S3")]),
         3: np.dtype([("id", "i4"), ("w", "f4")])}


def canon_row(dtid, t):
    return {1: (t, t * 0.5 + 0.25), 2: (t, t * 0.5 + 0.25, ("r%d" % t).encode()), 3: (t, t + 0.125)}[dtid]


def build_rows(dtid, rows, rec):
    a = np.array([canon_row(dtid, t) for t in rows], dtype=ROWDT[dtid])
    return a.view(np.recarray) if rec else a


def project_rows(a):
    """-> (dtype id or 0, [token or -1])"""
    dt = np.dtype(a.dtype)
    dtid = next((i for i, d in ROWDT.items() if d == dt), 0)
    if not dtid:
        return 0, [-1] * int(a.size)
    out = []
    for r in np.asarray(a).reshape(-1):
        t = int(r["id"])
        out.append(t if r.tolist() == np.array([canon_row(dtid, t)], dtype=dt)[0].tolist() else -1)
    return dtid, out


def obs_comb(c, var):
    from esutil import numpy_util as nu
    pool = {}
    arrs = []
    for a in c["arrs"]:
        key = (a["dt"], tuple(a["rows"]), a["rec"])
        if key not in pool:                                       # the same abstract array twice = the same object twice
            pool[key] = build_rows(a["dt"], a["rows"], a["rec"])
        arrs.append(pool[key])
    before = [x.tobytes() for x in arrs]
    L = list(arrs)
    arg = L if c["form"] == "list" else tuple(L)
    try:
        r = nu.combine_arrlist(arg, keep=True) if c["keep"] else (nu.combine_arrlist(arg) if var % 2 else nu.combine_arrlist(arg, keep=False))
        dtid, rows = project_rows(r)
        frame = all(x.tobytes() == b for x, b in zip(arrs, before)) and \
            (not c["keep"] or (len(arg) == len(arrs) and all(p is q for p, q in zip(arg, arrs))))
        return {"err": "none", "dt": dtid, "rows": rows, "rec": isinstance(r, np.recarray), "listlen": len(arg), "frame": bool(frame)}
    except Exception as e:  # noqa
        return {"err": errname(e), "dt": 0, "rows": [], "rec": False, "listlen": len(arg), "frame": True}


def dict_value(it):
    if it["t"] == "i":
        return it["v"] * 11 + 1
    if it["t"] == "f":
        return it["v"] + 0.25
    b, ln = divmod(it["v"], 10)
    return chr(ord("p") + b) * ln


def dict_code(kind, e):
    """a stored element -> the value code of the alphabet (or -1)"""
    try:
        if kind[0] in "iu":
            q, r = divmod(int(e) - 1, 11)
            return q if r == 0 and 0 <= q < 100 else -1
        if kind[0] == "f":
            f = Fraction(float(e)) - Fraction(1, 4)
            return int(f) if f.denominator == 1 and 0 <= f < 100 else -1
        s = e.decode("ascii", "replace") if isinstance(e, bytes) else str(e)
        if s and s == s[0] * len(s) and 0 <= ord(s[0]) - ord("p") < 9 and len(s) < 10:
            return (ord(s[0]) - ord("p")) * 10 + len(s)
    except (ValueError, TypeError, OverflowError):
        pass
    return -1


def obs_dict(c, var):
    from esutil import numpy_util as nu
    dicts = [{it["k"]: dict_value(it) for it in d} for d in c["dicts"]]
    kw = {}
    if c["sort"]:
        kw["sort"] = True
    if c["haskeys"]:
        kw["keys"] = list(c["keys"]) if var % 2 else tuple(c["keys"])
    try:
        r = nu.dict2array(dicts[0], **kw) if c["fn"] == "dict2array" else nu.dictlist2array(dicts, **kw)
        fields = []
        for name in (r.dtype.names or ()):
            fdt = r.dtype.fields[name][0]
            k = kind_of(fdt)
            col = np.asarray(r[name]).reshape(-1).tolist()
            fields.append({"name": name, "kind": k[0], "len": int(k[1:]) if k[0] in "SU" else 0,
                           "vals": [dict_code(k, e) for e in col]})
        return {"err": "none", "n": int(r.size) if r.ndim else 1, "fields": fields}
    except Exception as e:  # noqa
        return {"err": errname(e), "n": 0, "fields": []}


def regex_of(p):
    return (".*" if p["pre"] else "") + "".join(LETTERS[v] for v in p["lit"]) + (".*" if p["post"] else "") + ("$" if p["anch"] else "")


def obs_str(c, var):
    from esutil import numpy_util as nu
    strs = ["".join(LETTERS[v] for v in s) for s in c["strs"]]
    a = np.array(strs, dtype="U3").reshape(tuple(c["shape"]))
    try:
        r = np.asarray(nu.strmatch(a, regex_of(c["pat"])))
        return {"err": "none", "shape": list(r.shape), "val": [bool(v) for v in r.reshape(-1)], "kind": kind_of(r.dtype)}
    except Exception as e:  # noqa
        return {"err": errname(e), "shape": [], "val": [], "kind": ""}


def obs_grid(c, var):
    from esutil import numpy_util as nu
    j1, j2 = var % len(CONC2), (var // len(CONC2)) % len(CONC2)
    asint = (var // 16) % 2 == 0
    xr = [c2val(c["x0"], j1, asint), c2val(c["x1"], j1, asint)]
    yr = [c2val(c["y0"], j2, asint), c2val(c["y1"], j2, asint)]
    (u1, o1), (u2, o2) = CONC2[j1], CONC2[j2]
    s1 = max(abs(v) for v in xr) / u1 + 1
    s2 = max(abs(v) for v in yr) / u2 + 1
    try:
        with np.errstate(all="ignore"):
            x, y = nu.make_xy_grid(c["n"], xr if var % 2 else tuple(xr), yr)
        x, y = np.asarray(x).reshape(-1), np.asarray(y).reshape(-1)
        if x.size != y.size:
            return {"err": "none", "pairs": []}
        return {"err": "none", "pairs": [{"x": rat(a, s1, u1, o1), "y": rat(b, s2, u2, o2)} for a, b in zip(x, y)]}
    except Exception as e:  # noqa
        return {"err": errname(e), "pairs": []}


class _Tok(object):
    def __init__(self, i):
        self.i = i

    def __repr__(self):
        return "tok%d" % self.i


def obs_sel(c, var):
    from esutil import misc
    vals = [_Tok(i + 1) for i in range(len(c["keys"]))]
    d = dict(zip(c["keys"], vals))
    snapshot = list(d.items())
    kw = {}
    if c["keepk"]:
        kw["keep"] = list(c["keep"]) if var % 2 else tuple(c["keep"])
    elif var % 3 == 0:
        kw["keep"] = None
    if c["remk"]:
        kw["remove"] = list(c["remove"])
    try:
        r = misc.dict_select(d, **kw)
        items = [{"k": str(k), "v": next((t.i for t in vals if t is v), -1)} for k, v in sorted(r.items(), key=lambda kv: str(kv[0]))]
        frame = list(d.items()) == snapshot and all(a[1] is b[1] for a, b in zip(d.items(), snapshot))
        return {"err": "none", "items": items, "frame": bool(frame), "fresh": r is not d}
    except Exception as e:  # noqa
        return {"err": errname(e), "items": [], "frame": True, "fresh": True}


def obs_key(c, var):
    from esutil import misc
    form = var % 3
    if form == 0:
        data = [{"k": kv, "pos": j} for j, kv in enumerate(c["kv"])]
    elif form == 1:
        data = tuple({"k": kv * 2.5, "pos": j} for j, kv in enumerate(c["kv"]))         # float keys (exact)
    else:
        data = [{"k": "key%d" % kv, "pos": j} for j, kv in enumerate(c["kv"])]

    def unkey(k):
        try:
            if form == 0:
                return int(k)
            if form == 1:
                return int(Fraction(k) / Fraction(5, 2)) if (Fraction(k) / Fraction(5, 2)).denominator == 1 else -1
            return int(str(k)[3:])
        except (ValueError, TypeError):
            return -1
    try:
        r = misc.collect_keyby(data, "k")
        groups = [{"k": unkey(k), "m": [next((j for j, e in enumerate(data) if e is m), -1) for m in ms]} for k, ms in r.items()]
        groups.sort(key=lambda g: g["k"])
        return {"err": "none", "groups": groups}
    except Exception as e:  # noqa
        return {"err": errname(e), "groups": []}


OBSERVE = {"between": obs_interval, "outside": obs_interval, "where1": obs_where, "percentile": obs_perc, "arrscl": obs_scl,
           "replicate": obs_rep, "combine": obs_comb, "dict2array": obs_dict, "dictlist2array": obs_dict, "strmatch": obs_str,
           "grid": obs_grid, "dict_select": obs_sel, "keyby": obs_key}


def run_case(args):
    var, c = args
    return {"kind": "case", "c": c, "obs": OBSERVE[c["fn"]](c, var), "var": var}


# ---------------------------------------------------------------------------------
# the pipeline
# ---------------------------------------------------------------------------------
def pipe_dtype(k):
    return np.dtype([("t", "i8"), ("v", CONC[k][2])])


def pipe_build(rows, k):
    return np.array([(r["t"], cval(r["v"], k)) for r in rows], dtype=pipe_dtype(k))


def pipe_project(L, k):
    out = []
    for a in L:
        if not isinstance(a, np.ndarray) or a.dtype != pipe_dtype(k) or a.ndim != 1:
            out.append([{"t": -1, "v": -999}])
            continue
        out.append([{"t": int(r["t"]), "v": cinv(r["v"], k)} for r in a])
    return out


def pipe_enabled(pre, op):
    if op["op"] == "sel":
        return 1 <= op["k"] <= len(pre)
    if op["op"] == "perc":
        return 1 <= op["k"] <= len(pre) and len(pre[op["k"] - 1]) >= 1
    return len(pre) >= 2


def pipe_step(L, op, k):
    """one step of the pipeline on the real list L (modified in place)"""
    from esutil import numpy_util as nu
    if op["op"] == "sel":
        a = L[op["k"] - 1]
        fn = nu.outside if op["neg"] else nu.between
        w = nu.where1(fn(a["v"], cval(op["lo"], k), cval(op["hi"], k), op["ty"]))
        L[op["k"] - 1] = a[w]
    elif op["op"] == "perc":
        a = L[op["k"] - 1]
        ws = nu.select_percentile(a["v"], [12.5 * q for q in op["q8"]])
        L[op["k"] - 1: op["k"]] = [a[w] for w in ws]
    else:
        r = nu.combine_arrlist(L, keep=True) if op["keep"] else nu.combine_arrlist(L)
        L.append(r)


def run_chain(ini, ops, k):
    L = [pipe_build(ini, k)]
    steps = []
    for op in ops:
        pre = pipe_project(L, k)
        if not pipe_enabled(pre, op):
            continue
        try:
            pipe_step(L, op, k)
            obs = {"err": "none", "lst": pipe_project(L, k)}
        except Exception as e:  # noqa
            obs = {"err": errname(e), "lst": []}
        steps.append({"kind": "step", "pre": pre, "op": op, "obs": obs})
    return steps


def run_chain_batch(batch):
    out, seen, ncalls = [], set(), 0
    for var, ini, ops in batch:
        k = var % len(CONC)
        for i, st in enumerate(run_chain(ini, ops, k)):
            ncalls += 1
            h = hashlib.blake2b(json.dumps(st, sort_keys=True).encode(), digest_size=12).digest()
            if h not in seen:
                seen.add(h)
                out.append((h, st, {"ini": ini, "ops": ops, "var": var, "step": i}))
    return out, ncalls


# ---------------------------------------------------------------------------------
# seeded larger cases (code -> spec)
# ---------------------------------------------------------------------------------
def seeded_cases(rng, n):
    out = []
    bt, ot = ["[]", "[)", "(]", "()"], [")(", "][", "](", ")["]
    for i in range(n):
        fam = rng.choice(["between", "outside", "where1", "percentile", "percentile", "arrscl", "arrscl", "combine", "dictlist2array",
                          "keyby", "dict_select", "strmatch", "replicate"])
        if fam in ("between", "outside"):
            ln = rng.choice([1, 7, 30])
            nv = rng.choice([3, 10, 40])
            lo, hi = rng.randrange(0, nv + 1), rng.randrange(0, nv + 1)
            x = [rng.choice([lo, hi, lo - 1, hi + 1, rng.randrange(-2, nv + 3)]) for _ in range(ln)]
            c = {"fn": fam, "x": x, "shape": [ln], "lo": [lo], "hi": [hi], "loarr": False, "hiarr": False,
                 "ty": rng.choice(bt if fam == "between" else ot)}
        elif fam == "where1":
            ln = rng.choice([0, 1, 9, 60])
            c = {"fn": fam, "x": [rng.choice([0, 0, 1, 3]) for _ in range(ln)], "form": rng.choice(["bool", "int", "list"])}
        elif fam == "percentile":
            ln = rng.choice([1, 2, 5, 9, 17, 24])
            nv = rng.choice([2, 5, 20])
            q = sorted(rng.sample(range(0, 9), rng.choice([1, 1, 2, 3, 4])))
            c = {"fn": fam, "x": [rng.randrange(0, nv + 1) for _ in range(ln)], "q8": q, "scalar": len(q) == 1 and rng.random() < 0.5,
                 "ranges": rng.random() < 0.6, "method": rng.choice(["default", "default", "linear", "lower", "higher", "midpoint"])}
        elif fam == "arrscl":
            ln = rng.choice([1, 2, 6, 15])
            x = [rng.randrange(0, 9) for _ in range(ln)]
            hasmin, hasmax = rng.random() < 0.4, rng.random() < 0.4
            c = {"fn": fam, "x": x, "shape": [ln], "minv": rng.randrange(-6, 7), "maxv": rng.randrange(-6, 7),
                 "hasmin": hasmin, "amin": rng.randrange(-2, 4) if hasmin else 0, "hasmax": hasmax, "amax": rng.randrange(5, 12) if hasmax else 0,
                 "dt": rng.choice(["default", "default", "f8"])}
        elif fam == "combine":
            na = rng.choice([2, 3, 6])
            dt = rng.choice([1, 2, 3])
            tok = iter(range(1, 1000))
            arrs = [{"dt": dt, "rows": [next(tok) for _ in range(rng.choice([0, 1, 3, 8]))], "rec": rng.random() < 0.3} for _ in range(na)]
            c = {"fn": fam, "arrs": arrs, "keep": rng.random() < 0.5, "form": "list"}
        elif fam == "dictlist2array":
            keys = rng.sample(["a", "b", "c", "d", "e"], rng.choice([1, 3, 5]))
            types = {k: rng.choice("ifs") for k in keys}
            dicts = []
            for d in range(rng.choice([1, 2, 5])):
                ks = list(keys)
                rng.shuffle(ks)
                dicts.append([{"k": k, "t": types[k],
                               "v": (rng.randrange(0, 4) * 10 + rng.randrange(1, 6)) if types[k] == "s" else rng.randrange(0, 9),
                               "l": 0} for k in ks])
                for it in dicts[-1]:
                    it["l"] = it["v"] % 10 if it["t"] == "s" else 0
            mode = rng.choice(["plain", "sort", "keys", "subset"])
            ks = list(keys)
            rng.shuffle(ks)
            c = {"fn": fam, "dicts": dicts, "sort": mode == "sort", "haskeys": mode in ("keys", "subset"),
                 "keys": ks if mode == "keys" else ks[:max(1, len(ks) // 2)] if mode == "subset" else []}
        elif fam == "keyby":
            c = {"fn": fam, "kv": [rng.randrange(1, 6) for _ in range(rng.choice([0, 1, 8, 25]))]}
        elif fam == "dict_select":
            keys = rng.sample(["a", "b", "c", "d", "e"], rng.choice([0, 2, 5]))
            keepk, remk = rng.random() < 0.6, rng.random() < 0.6
            c = {"fn": fam, "keys": keys, "keepk": keepk, "keep": rng.sample(["a", "b", "c", "d", "e", "zz"], rng.choice([0, 1, 3])) if keepk else [],
                 "remk": remk, "remove": rng.sample(["a", "b", "c", "d", "e", "zz"], rng.choice([0, 1, 3])) if remk else []}
        elif fam == "strmatch":
            n = rng.choice([1, 4, 12])
            c = {"fn": fam, "strs": [[rng.choice([1, 2]) for _ in range(rng.randrange(0, 4))] for _ in range(n)], "shape": [n],
                 "pat": {"pre": rng.random() < 0.5, "post": rng.random() < 0.5, "anch": rng.random() < 0.5,
                         "lit": [rng.choice([1, 2]) for _ in range(rng.choice([1, 2, 3]))]}}
        else:
            vk = rng.choice(["int", "float", "str"])
            v = rng.randrange(0, 4)
            sh = rng.choice([[5], [2, 3], [1, 1, 4], [0, 3]])
            c = {"fn": fam, "vk": vk, "v": v, "vlen": str(len(REPSTR[v])), "shape": sh, "shform": rng.choice(["tuple", "list"]), "dt": "none"}
        out.append(c)
    return out


def seeded_chains(rng, n):
    out = []
    bt, ot = ["[]", "[)", "(]", "()"], [")(", "][", "](", ")["]
    for i in range(n):
        ln = rng.choice([2, 5, 9])
        nv = rng.choice([3, 6])
        ini = [{"t": j + 1, "v": rng.randrange(1, nv + 1)} for j in range(ln)]
        ops = []
        for _ in range(rng.choice([3, 4, 6])):
            what = rng.choice(["sel", "sel", "perc", "comb"])
            if what == "sel":
                neg = rng.random() < 0.5
                ops.append({"op": "sel", "k": rng.choice([1, 1, 2, 3]), "neg": neg, "ty": rng.choice(ot if neg else bt),
                            "lo": rng.randrange(0, nv + 1), "hi": rng.randrange(1, nv + 2), "q8": [], "keep": False})
            elif what == "perc":
                ops.append({"op": "perc", "k": rng.choice([1, 1, 2]), "neg": False, "ty": "", "lo": 0, "hi": 0,
                            "q8": sorted(rng.sample(range(0, 9), rng.choice([1, 2, 3]))), "keep": False})
            else:
                ops.append({"op": "comb", "k": 0, "neg": False, "ty": "", "lo": 0, "hi": 0, "q8": [], "keep": rng.random() < 0.5})
        out.append((i, ini, ops))
    return out


# ---------------------------------------------------------------------------------
# signatures, judging
# ---------------------------------------------------------------------------------
def struct_class(c):
    """coarse structural class of a case: one defect -> few signatures"""
    fn = c["fn"]
    if fn in ("between", "outside"):
        return c["ty"] + (",empty" if not c["x"] else "")
    if fn == "where1":
        return c["form"]
    if fn == "percentile":
        return "scalar_perc" if c["scalar"] else "list_perc"
    if fn == "arrscl":
        ov = "+".join(n for n, f in (("arrmin", c["hasmin"]), ("arrmax", c["hasmax"])) if f) or "no_override"
        return "size1" if len(c["x"]) == 1 else "sizeN," + ov
    if fn == "replicate":
        return "dtype" if c["dt"] != "none" else "nodtype"
    if fn == "combine":
        n = len(c["arrs"])
        return "%s,%s" % ("empty" if n == 0 else "one" if n == 1 else "many", "keep" if c["keep"] else "consume")
    if fn in ("dict2array", "dictlist2array"):
        first = {it["k"] for it in c["dicts"][0]} if c["dicts"] else set()
        if c["haskeys"]:
            ks = set(c["keys"])
            return "keys=missing" if ks - first else "keys=subset" if ks < first else "keys=all"
        return "sort" if c["sort"] else "plain"
    if fn == "strmatch":
        return "empty" if not c["strs"] else "nonempty"
    if fn == "grid":
        return "n>=2" if c["n"] >= 2 else "n<2"
    if fn == "dict_select":
        return "%s,%s" % ("keep" if c["keepk"] and c["keep"] else "nokeep", "remove" if c["remk"] and c["remove"] else "noremove")
    return "any"


class Recs:
    def __init__(self):
        self.recs = []        # trace records (id = index + 1)
        self.refs = []        # how to replay them
        self.seen = {}
        self.calls = 0

    def add(self, rec, ref):
        h = hashlib.blake2b(json.dumps(rec, sort_keys=True).encode(), digest_size=12).digest()
        if h in self.seen:
            return None
        self.seen[h] = len(self.recs)
        r = dict(rec, id=len(self.recs) + 1)
        self.recs.append(r)
        self.refs.append(ref)
        return r

    def add_cases(self, cases, var0=0):
        new = []
        for r in pmap(run_case, [(var0 + i, c) for i, c in enumerate(cases)]):
            self.calls += 1
            var = r.pop("var")
            x = self.add(r, {"kind": "case", "c": r["c"], "var": var})
            if x:
                new.append(x)
        return new

    def add_chains(self, chains, batch=400):
        new = []
        batches = [chains[i:i + batch] for i in range(0, len(chains), batch)]
        for out, ncalls in pmap(run_chain_batch, batches, chunk=1):
            self.calls += ncalls
            for h, st, ref in out:
                x = self.add(st, dict(ref, kind="chain"))
                if x:
                    new.append(x)
        return new


def judge(ctx, store, recs, what, tally):
    rejects = tracecheck.validate(ctx, "SelectionTrace.tla", recs, what=what, shard_size=6000)
    for rid in sorted(rejects):
        rec, ref = store.recs[rid - 1], store.refs[rid - 1]
        for cl in rejects[rid]:
            if rec["kind"] == "case":
                c = rec["c"]
                if cl.startswith("nongating/"):
                    key = "%s: %s" % (ENTRY[c["fn"]], cl[len("nongating/"):])
                    tally[key] = tally.get(key, 0) + 1
                    continue
                ctx.violation("%s|%s|%s" % (ENTRY[c["fn"]], cl, struct_class(c)),
                              "%s result not allowed by Selection.tla: clause %s" % (ENTRY[c["fn"]], cl),
                              {"kind": "case", "c": c, "var": ref["var"], "observed": rec["obs"]})
            else:
                ctx.violation("pipeline.%s|%s|%s" % (rec["op"]["op"], cl, ("keep" if rec["op"]["keep"] else "consume") if rec["op"]["op"] == "comb" else "any"),
                              "selection pipeline step not allowed by Selection.tla: clause %s" % cl,
                              {"kind": "chain", "ini": ref["ini"], "ops": ref["ops"], "var": ref["var"], "step": ref["step"],
                               "pre": rec["pre"], "op": rec["op"], "observed": rec["obs"]})
    return rejects


# ---------------------------------------------------------------------------------
BOUNDS = {
    "quick":    dict(NV=5, WL=5, ML=3, PVals=4, Rich=False, PL=3, PV=3, PD=3, LeanFrom=1),
    "thorough": dict(NV=7, WL=10, ML=5, PVals=3, Rich=True, PL=4, PV=3, PD=3, LeanFrom=1),
}
SEEDED = {"quick": (1500, 400), "thorough": (30000, 6000)}
INVARIANTS = ["RefAccepted", "CorruptRejected", "Unconstrained", "Laws", "PipeConserved", "PipeStepLaws", "PipeRefAccepted",
              "MechConserves", "MechRefines"]


def selftests(ctx, store, rejected):
    """binding self-test: corrupted observations must be rejected, with the right clause; the originals accepted.
    Probes are taken among the records the trace specification accepted (a defective tree may leave none for a family:
    that probe is skipped, but at least half of them must run)."""
    def find(pred):
        return next((r for r in store.recs if r["id"] not in rejected and pred(r)), None)

    def mut(rec, fn):
        r = json.loads(json.dumps(rec))
        fn(r["obs"])
        return r
    iv = find(lambda r: r["kind"] == "case" and r["c"]["fn"] == "between" and r["c"]["ty"] == "[)" and r["obs"]["err"] == "none"
              and not r["c"]["loarr"] and not r["c"]["hiarr"] and r["c"]["lo"][0] < r["c"]["hi"][0] and r["c"]["lo"][0] in r["c"]["x"])
    pc = find(lambda r: r["kind"] == "case" and r["c"]["fn"] == "percentile" and r["c"]["ranges"] and r["obs"]["err"] == "none"
              and len(r["c"]["q8"]) >= 2 and r["c"]["q8"] == sorted(r["c"]["q8"]) and r["obs"]["idx"] and r["obs"]["idx"][0])
    sc = find(lambda r: r["kind"] == "case" and r["c"]["fn"] == "arrscl" and len(r["c"]["x"]) >= 2 and r["obs"]["err"] == "none"
              and min(r["c"]["x"]) != max(r["c"]["x"]) and not r["c"]["hasmin"] and not r["c"]["hasmax"])
    cb = find(lambda r: r["kind"] == "case" and r["c"]["fn"] == "combine" and r["obs"]["err"] == "none" and len(r["obs"]["rows"]) >= 2
              and len({a["dt"] for a in r["c"]["arrs"]}) == 1 and not r["c"]["keep"] and r["c"]["form"] == "list" and len(r["c"]["arrs"]) >= 2
              and r["obs"]["rows"][0] != r["obs"]["rows"][-1])
    dl = find(lambda r: r["kind"] == "case" and r["c"]["fn"] == "dictlist2array" and r["obs"]["err"] == "none" and r["c"]["sort"]
              and not r["c"]["haskeys"] and len(r["obs"]["fields"]) >= 2 and len(r["c"]["dicts"]) >= 2
              and len({tuple(sorted(it["k"] for it in d)) for d in r["c"]["dicts"]}) == 1
              and all(len({it["t"] for d in r["c"]["dicts"] for it in d if it["k"] == k}) == 1 for k in [it["k"] for it in r["c"]["dicts"][0]]))
    st = find(lambda r: r["kind"] == "step" and r["op"]["op"] == "comb" and not r["op"]["keep"] and r["obs"]["err"] == "none")
    ss = find(lambda r: r["kind"] == "step" and r["op"]["op"] == "sel" and r["obs"]["err"] == "none" and r["obs"]["lst"][r["op"]["k"] - 1])
    plan = [
        (iv, lambda o: o["val"].__setitem__(iv["c"]["x"].index(iv["c"]["lo"][0]), not o["val"][iv["c"]["x"].index(iv["c"]["lo"][0])]), "value:on_low_bound"),
        (pc, lambda o: o["idx"][0].pop(), "piece_below_first_cut"),
        (pc, lambda o: o["ranges"][1][0].update(n=o["ranges"][1][0]["n"] + o["ranges"][1][0]["d"]), "range_cut"),
        (sc, lambda o: o["val"][0].update(k="off"), "value"),
        (sc, lambda o: o.update(frame=False), "input_modified"),
        (cb, lambda o: o.update(rows=o["rows"][1:] + o["rows"][:1]), "rows"),
        (cb, lambda o: o.update(listlen=len(cb["c"]["arrs"])), "list_not_consumed"),
        (dl, lambda o: o.update(fields=o["fields"][1:] + o["fields"][:1]), "field_order"),
        (st, lambda o: o.update(lst=st["pre"] + o["lst"]), "list_not_consumed"),
        (ss, lambda o: o["lst"][ss["op"]["k"] - 1].pop(), "selected_rows"),
    ]
    probes = [(r, None) for r in (iv, pc, sc, cb, dl, st, ss) if r is not None]
    probes += [(mut(r, fn), want) for r, fn, want in plan if r is not None]
    if sum(1 for _, w in probes if w) < len(plan) // 2:
        raise MachineryError("binding self-test: too few accepted records to probe (%d of %d)" % (sum(1 for _, w in probes if w), len(plan)))
    recs = [dict(r, id=i + 1) for i, (r, _) in enumerate(probes)]
    saved = ctx.traces
    rej = tracecheck.validate(ctx, "SelectionTrace.tla", recs, what="self-test: corrupted observations rejected", workers=1)
    ctx.traces = saved
    for i, (r, want) in enumerate(probes):
        got = rej.get(i + 1, [])
        got = [g for g in got if not g.startswith("nongating/")]
        if (want is None and got) or (want is not None and got != [want]):
            raise MachineryError("binding self-test failed: probe %d gave %s, expected %s" % (i + 1, got, want))
    # the projections themselves: a changed data byte loses the row token / the lattice point
    a = build_rows(2, [4, 5], False)
    a["s"][1] = b"zz"
    if project_rows(a) != (2, [4, -1]):
        raise MachineryError("projection self-test failed: a changed row kept its token")
    if rat(0.5000001, 4, 1, 0)["k"] != "off" or rat(0.5, 4, 1, 0) != {"k": "rat", "n": 1, "d": 2}:
        raise MachineryError("projection self-test failed: rational snap")


def run(ctx):
    B = BOUNDS[ctx.tier]
    consts = dict(B, Fams=set(), DoExport=False)
    # 1. design level (laws, reference accepted, corruptions rejected; pipeline invariants) in parallel with
    # 2. the export of every case and every pipeline behaviour
    with ThreadPoolExecutor(3) as ex:
        # self-test of the mechanism model: its exception point (array popped, assignment raised) must be reachable
        f0 = ex.submit(ctx.tlc, "SelectionMC.tla", what="self-test: the exception point of the consuming loop loses the popped array",
                       cfg_text=cfg(constants=dict(consts, Fams={"combine"}, PL=1, PV=1, PD=0), invariants=["MechRaiseKeepsRows"], view="LastView"),
                       workers=1, coverage=False, allow_violation=True, timeout=600)
        f1 = ex.submit(ctx.tlc, "SelectionMC.tla", what="laws + reference accepted + corruptions rejected + pipeline invariants",
                       cfg_text=cfg(constants=consts, invariants=INVARIANTS, view="LastView"), workers=8, coverage=False, timeout=3000)
        f2 = ex.submit(ctx.tlc, "SelectionMC.tla", what="export cases and pipeline behaviours",
                       cfg_text=cfg(constants=dict(consts, DoExport=True), constraints=["Export"]), workers=1, coverage=False, timeout=3000)
        r2 = f2.result()
        cases = r2.records.get("CASE", [])
        chains = r2.records.get("CHAIN", [])
        # vacuity guards: every family and every kind of pipeline step was exported
        fams = {c["fn"] for c in cases}
        opk = {o["op"] + ("+keep" if o["keep"] else "") for ch in chains for o in ch["ops"]}
        if r2.garbled or set(FAMILIES) - fams or {"sel", "perc", "comb", "comb+keep"} - opk:
            raise MachineryError("export incomplete: families %s, pipeline steps %s, %d garbled" % (sorted(fams), sorted(opk), r2.garbled))
        store = Recs()
        tally = {}
        ctx.log("executing %d cases, replaying %d pipeline behaviours" % (len(cases), len(chains)))
        store.add_cases(cases)
        store.add_chains([(i, ch["ini"], ch["ops"]) for i, ch in enumerate(chains)])
        nmodel = len(store.recs)
        for fam in ("percentile", "arrscl", "combine", "dictlist2array"):
            rec = next(r for r in store.recs if r["kind"] == "case" and r["c"]["fn"] == fam and r["obs"]["err"] == "none")
            ctx.sample({"case": rec["c"], "observed": rec["obs"]}, cap=8)
        ctx.sample({"pipeline_initial": chains[len(chains) // 2]["ini"], "operations": chains[len(chains) // 2]["ops"]}, cap=8)
        # 3. larger seeded cases and longer seeded chains
        ncase, nchain = SEEDED[ctx.tier]
        rng = random.Random(ctx.seed)
        store.add_cases(seeded_cases(rng, ncase), var0=rng.randrange(0, 1 << 16))
        store.add_chains([(v + rng.randrange(0, 8), ini, ops) for v, ini, ops in seeded_chains(rng, nchain)])
        f1.result()
        if "MechRaiseKeepsRows" not in f0.result().violated:
            raise MachineryError("self-test failed: the exception point of combine_arrlist's consuming loop was not reached in the model")
    # 4. code -> spec: every distinct record is judged by the trace specification
    rejects = judge(ctx, store, store.recs, "judge every executed case and pipeline step (SelectionTrace)", tally)
    ctx.evaluations += store.calls
    ctx.nontrivial_n += len(store.recs)
    # 5. self-tests
    selftests(ctx, store, set(rejects))
    ctx.rule = ("every case of 13 function families over the bounded alphabets of SelectionMC.tla (interval tests: every lattice value "
                "0..%d against every pair of bounds, 4 documented + 2 undocumented types, 1-d / 2-d / empty, scalar and array bounds; "
                "where1: every boolean array of length <= %d; select_percentile: every array of length <= %d over %d values x %d "
                "percentile sets in eighths of 100 x methods; arrscl: every array of length <= %d over 4 values x %d target ranges x "
                "9 arrmin/arrmax settings; replicate, combine_arrlist (every list of <= %d arrays from a pool of 6), dict2array, "
                "dictlist2array, strmatch (48 patterns x every string of length <= 3), make_xy_grid, dict_select, collect_keyby) "
                "and every behaviour of %d pipeline steps from every initial array of length <= %d over %d values - %d cases and %d "
                "behaviours exported by TLC, each executed against the real code on one of %d dyadic lattices; plus %d seeded larger "
                "cases and %d seeded chains of 3..6 steps; counted: %d real calls / steps, of which the distinct (case | pre-state, "
                "operation, observation) records are the distinct non-trivial cases" %
                (B["NV"], B["WL"], B["ML"], B["PVals"], 16 if B["Rich"] else 11, B["ML"], 6 if B["Rich"] else 4, 4 if B["Rich"] else 3, B["PD"], B["PL"], B["PV"],
                 len(cases), len(chains), len(CONC), ncase, nchain, store.calls))
    ctx.exhaustive = True
    ctx.note(bounds=B, exported_cases=len(cases), exported_behaviours=len(chains), records_from_model=nmodel,
             records_total=len(store.recs), seeded_cases=ncase, seeded_chains=nchain,
             nongating_undocumented_forms_not_matching=tally,
             lead_not_a_verdict="combine_arrlist(keep=False): when the assignment of an array raises (row types that cannot be cast), that array "
                                "has already been popped from the caller's list and is in neither the list nor a result (model: MechRaiseKeepsRows "
                                "is violated; the real code agrees with the mechanism model on every mixed-type list unless tallied above)",
             cases_per_family={f: sum(1 for c in cases if c["fn"] == f) for f in FAMILIES})
    ctx.assumptions = [
        "dyadic lattices: comparisons, np.percentile's interpolation at eighths of 100 and the projections back are exact in binary64; "
        "arrscl / make_xy_grid results are accepted within 16 ulp of the magnitude of the intermediate terms and snapped to the rational with denominator <= 64",
        "array-valued bounds of between/outside, tuple input of combine_arrlist and undocumented interval type strings are exercised and tallied but do not gate",
        "NaN, non-ascending percentiles, empty / non-1-d percentile data, arrmin = arrmax, lists of arrays of different dtypes, dictionaries with "
        "different key sets or mixed value types, make_xy_grid with n < 2 are outside the contract (accepted whatever happens)",
    ]


def replay(ctx, case):
    store = Recs()
    if case.get("kind") == "chain":
        new = store.add_chains([(case["var"], case["ini"], case["ops"])])
    else:
        new = store.add_cases([case["c"]], var0=case["var"])
    for r in new:
        print("replay observed:", json.dumps({k: v for k, v in r.items() if k != "id"})[:1200])
    judge(ctx, store, new, "replay", {})
