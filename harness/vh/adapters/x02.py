"""X02 (extension) - two-dimensional histograms and running averages of esutil.stat.

spec -> code : Hist2dMC.tla enumerates every 2-d case of the bounded space (data x bin
               specification x limits) and every boxcar case; each is concretised on
               dyadic lattices and run through histogram2d in four call forms (plain,
               rev, more, z) and both 1-d engines, and through boxcar_average.
code -> spec : what the calls returned - plus esutil.stat.histogram of each coordinate on
               the same limits (the marginals) and larger seeded cases - is written as
               ndjson and judged by Hist2dTrace.tla (property-level HFailing / BoxFailing of
               Hist2d.tla).
Python never judges a result; it maps abstract <-> concrete, projects real-valued outputs
onto the lattice (Fraction arithmetic, "to rounding") and records.
"""
import random
import warnings
from concurrent.futures import ThreadPoolExecutor
from fractions import Fraction as Fr

import numpy as np

from .. import tracecheck
from ..core import MachineryError
from ..par import pmap
from ..tlc import cfg

NEEDS_EXT = True

# lattice concretisations of one coordinate: value = (v + off) * unit, stored as dtype
CONCRETE = [
    (1, 0, "i8"), (0.5, 0, "f8"), (1, -3, "i4"), (0.125, 7, "f8"), (4.0, 1000, "f4"),
    (2.0 ** -10, -2 ** 10, "f8"), (1, 0, "f8"), (1024.0, -5, "f8"),
]
EPS = {"f4": 2.0 ** -23}
KEYS = ["xlow", "xhigh", "xcenter", "ylow", "yhigh", "ycenter", "nx", "ny", "xbin", "ybin", "xmin", "xmax", "ymin", "ymax"]
ABSENT = [[2, 0]]
MAXCELLS = 4096      # largest table recorded (abstract cases here have at most 15 x 15 cells)
BATCH = 20000        # cases run and judged at a time (bounds the memory of the harness and of each TLC shard)

# call forms: (name, rev, more, z, engine)
FORMS_QUICK = [("plain", False, False, False, "c"), ("rev", True, False, False, "py"),
               ("more", False, True, False, "c"), ("z", False, False, True, "py")]
FORMS_THOROUGH = FORMS_QUICK + [("more+rev+z", True, True, True, "c")]

ABS = 99
BOUNDS = {
    "quick": dict(MaxLen=2, Vals={0, 1, 2}, BinPairs={12, 21}, NbinPairs={12, 21, 32}, BothPairs={21},
                  XMinSet={ABS, 1}, XMaxSet={ABS, 2}, YMinSet={ABS, 1}, YMaxSet={ABS, 1, 3},
                  BoxMaxLen=3, BoxVals={0, 1, 2, 3}, BoxShift=1, BoxWindows={1, 2, 3, 5}),
    "thorough": dict(MaxLen=3, Vals={0, 1, 2}, BinPairs={11, 12, 21}, NbinPairs={12, 21, 22, 32}, BothPairs={21, 12},
                     XMinSet={ABS, 1}, XMaxSet={ABS, 2}, YMinSet={ABS, 1}, YMaxSet={ABS, 1, 3},
                     BoxMaxLen=4, BoxVals={0, 1, 2, 3, 4}, BoxShift=2, BoxWindows={1, 2, 3, 4, 6}),
}
# tiny space for the self-tests of the mechanism switches
SELFTEST = dict(MaxLen=2, Vals={0, 1, 2}, BinPairs={11, 21}, NbinPairs={21, 12}, BothPairs=set(),
                XMinSet={ABS, 1}, XMaxSet={ABS}, YMinSet={ABS}, YMaxSet={ABS, 3},
                BoxMaxLen=1, BoxVals={0}, BoxShift=0, BoxWindows={1})


# ---------------------------------------------------------------------------- mapping
def conc(k):
    cx = CONCRETE[k % len(CONCRETE)]
    cy = CONCRETE[(k // len(CONCRETE) + 3 * (k % len(CONCRETE)) + 1) % len(CONCRETE)]
    return cx, cy


def axis(c, a):
    """the 1-d view of one axis (the same mapping as HAx of Hist2d.tla)"""
    binsize = c["mode"] != "nbin"
    if a == "x":
        return dict(v=c["x"], mode="binsize" if binsize else "nbin", b=c["bx"] if binsize else c["nx"],
                    hasmin=c["hasxmin"], min=c["xmin"], hasmax=c["hasxmax"], max=c["xmax"])
    return dict(v=c["y"], mode="binsize" if binsize else "nbin", b=c["by"] if binsize else c["ny"],
                hasmin=c["hasymin"], min=c["ymin"], hasmax=c["hasymax"], max=c["ymax"])


def efflim(A):
    return (A["min"] if A["hasmin"] else min(A["v"])), (A["max"] if A["hasmax"] else max(A["v"]))


def cval(v, cc):
    unit, off, dt = cc
    return (v + off) * unit


def concretise(c, k):
    cx, cy = conc(k)
    x = np.array([cval(v, cx) for v in c["x"]], dtype=cx[2])
    y = np.array([cval(v, cy) for v in c["y"]], dtype=cy[2])
    kw = {}
    if c["mode"] in ("binsize", "both"):
        kw["xbin"] = c["bx"] * cx[0]
        kw["ybin"] = c["by"] * cy[0]
    if c["mode"] in ("nbin", "both"):
        kw["nx"] = int(c["nx"])
        kw["ny"] = int(c["ny"])
    for nm, cc in (("xmin", cx), ("xmax", cx), ("ymin", cy), ("ymax", cy)):
        if c["has" + nm]:
            kw[nm] = cval(c[nm], cc)
    z = np.array([float(v) for v in c["z"]], dtype="f8")
    return x, y, z, kw


def proj(v, den, cc, scale, offset=True):
    """observed real -> [1, n] with n = (v/unit - off) * den when that is an integer to rounding, else [0, 0]"""
    unit, off, dt = cc
    try:
        fv = float(v)
    except (TypeError, ValueError):
        return [0, 0]
    if fv != fv or fv in (float("inf"), float("-inf")):
        return [0, 0]
    t = (Fr(fv) / Fr(unit) - (off if offset else 0)) * den
    n = round(t)
    tol = 8 * Fr(EPS.get(dt, 2.0 ** -52)) * Fr(scale)
    if abs(t - n) * Fr(unit) / den <= tol and abs(n) < 2 ** 30:
        return [1, int(n)]
    return [0, 0]


def empty_obs(form, err):
    name, rev, more, hasz, engine = form
    return {"err": err, "rev": rev, "more": more, "hasz": hasz, "form": "none", "shape": [0, 0], "hist": [],
            "hasrev": False, "revarr": [], "hasmore": False, "keys": {k: ABSENT for k in KEYS},
            "haszmean": False, "zsum": [], "engine": engine, "call": name, "frame_ok": True}


def observe2d(c, k, form):
    import esutil.stat.util as su
    name, rev, more, hasz, engine = form
    x, y, z, kw = concretise(c, k)
    cx, cy = conc(k)
    saved = su.have_chist
    su.have_chist = (engine == "c") and saved
    before = (x.tobytes(), y.tobytes(), z.tobytes())
    try:
        with warnings.catch_warnings():
            warnings.simplefilter("ignore")
            with np.errstate(all="ignore"):
                args = dict(kw)
                if rev:
                    args["rev"] = True
                if more:
                    args["more"] = True
                if hasz:
                    args["z"] = z
                res = su.histogram2d(x, y, **args)
    except Exception as e:  # noqa
        o = empty_obs(form, type(e).__name__)
        o["frame_ok"] = (x.tobytes(), y.tobytes(), z.tobytes()) == before
        return o
    finally:
        su.have_chist = saved
    o = empty_obs(form, "none")
    o["frame_ok"] = (x.tobytes(), y.tobytes(), z.tobytes()) == before
    d = None
    if isinstance(res, dict):
        o["form"], d = "dict", res
        h, r = res.get("hist"), res.get("rev")
    elif isinstance(res, tuple) and len(res) == 2:
        o["form"] = "tuple"
        h, r = res
    else:
        o["form"] = "array"
        h, r = res, None
    h = np.asarray(h)
    if h.ndim != 2 or h.dtype.kind not in "iu":
        o["err"] = "hist_not_a_2d_integer_table"
        return o
    if h.size > MAXCELLS:      # no case of this check allows that many cells; not recorded, judged as an error outcome
        o["err"] = "table_of_%s_cells" % ("x".join(str(v) for v in h.shape))
        return o
    o["shape"] = [int(h.shape[0]), int(h.shape[1])]
    o["hist"] = [[int(v) for v in row] for row in h]
    if r is not None:
        o["hasrev"] = True
        o["revarr"] = [int(v) for v in np.asarray(r).ravel()]
    if d is not None:
        ax, ay = axis(c, "x"), axis(c, "y")
        for a, A, cc in (("x", ax, cx), ("y", ay, cy)):
            lo, hi = efflim(A)
            den = 2 if A["mode"] == "binsize" else 2 * A["b"]
            width = A["b"] if A["mode"] == "binsize" else Fr(hi - lo, A["b"])
            scale = max(abs(cval(lo, cc)), abs(cval(hi, cc)) + abs(float(width) * cc[0]), abs(cc[0]))
            for nm in ("low", "high", "center"):
                if a + nm in d:
                    o["keys"][a + nm] = [proj(v, den, cc, scale) for v in np.atleast_1d(d[a + nm])]
            if "n" + a in d:
                o["keys"]["n" + a] = [[1, int(d["n" + a])]] if float(d["n" + a]) == int(d["n" + a]) else [[0, 0]]
            if a + "bin" in d:
                o["keys"][a + "bin"] = [proj(d[a + "bin"], den, cc, scale, offset=False)]
            for nm in ("min", "max"):
                if a + nm in d:
                    o["keys"][a + nm] = [proj(d[a + nm], den, cc, scale)]
        o["hasmore"] = all(kk in d for kk in ("xlow", "xhigh", "xcenter"))
        if "zmean" in d:
            zm = np.asarray(d["zmean"])
            if zm.shape == h.shape:
                o["haszmean"] = True
                zs = max(1.0, float(np.max(np.abs(z)))) if z.size else 1.0
                o["zsum"] = [[proj(float(zm[i, j]) * int(h[i, j]), 1, (1, 0, "f8"), zs * max(1, int(h[i, j])))
                              if h[i, j] > 0 else [1, 0] for j in range(h.shape[1])] for i in range(h.shape[0])]
    return o


def observe1d(c, k, a):
    """esutil.stat.histogram of coordinate a over the data inside the OTHER coordinate's limits,
    same bins, effective limits explicit (K9).  Returns {c: Hist.tla case, o: Hist.tla observation}"""
    import esutil.stat.util as su
    A, O = axis(c, a), axis(c, "y" if a == "x" else "x")
    cc = conc(k)[0 if a == "x" else 1]
    lo, hi = efflim(A)
    olo, ohi = efflim(O)
    sel = [j for j in range(len(A["v"])) if olo <= O["v"][j] <= ohi]
    case = {"x": [A["v"][j] for j in sel], "mode": A["mode"], "b": A["b"], "hasmin": True, "min": lo, "hasmax": True, "max": hi}
    if not sel:
        return {"c": case, "o": {"err": "empty", "hist": [], "hasrev": False, "rev": []}}
    data = np.array([cval(v, cc) for v in case["x"]], dtype=cc[2])
    kw = {"binsize": A["b"] * cc[0]} if A["mode"] == "binsize" else {"nbin": int(A["b"])}
    try:
        with warnings.catch_warnings():
            warnings.simplefilter("ignore")
            with np.errstate(all="ignore"):
                h = su.histogram(data, min=cval(lo, cc), max=cval(hi, cc), **kw)
        o = {"err": "none", "hist": [int(v) for v in h], "hasrev": False, "rev": []}
    except Exception as e:  # noqa
        o = {"err": type(e).__name__, "hist": [], "hasrev": False, "rev": []}
    return {"c": case, "o": o}


def run_case(args):
    i, c, forms = args
    obs = [observe2d(c, i, f) for f in forms]
    return {"id": i, "kind": "h2d", "c": c, "obs": obs, "mx": observe1d(c, i, "x"), "my": observe1d(c, i, "y"),
            "concrete": i % (len(CONCRETE) ** 2)}


BOXCONC = [(1, "i8"), (0.5, "f8"), (1, "f8"), (0.125, "f4"), (1024.0, "f8"), (2.0 ** -20, "f8")]


def run_box(args):
    import esutil.stat.util as su
    i, c = args
    unit, dt = BOXCONC[i % len(BOXCONC)]
    x = np.array([v * unit for v in c["x"]], dtype=dt)
    before = x.tobytes()
    n = int(c["n"])
    try:
        with warnings.catch_warnings():
            warnings.simplefilter("ignore")
            res = np.asarray(su.boxcar_average(x, n))
        scale = max(1.0, float(np.max(np.abs(x)))) * n
        # element * N in lattice units; convolve works in binary64 whatever the input dtype
        o = {"err": "none", "sums": [proj(float(v) * n, 1, (unit, 0, "f8"), scale) for v in res.ravel()]}
        if res.ndim != 1:
            o = {"err": "not_1d", "sums": []}
    except Exception as e:  # noqa
        o = {"err": type(e).__name__, "sums": []}
    o["frame_ok"] = x.tobytes() == before
    return {"id": i, "kind": "box", "c": c, "o": o, "concrete": i % len(BOXCONC)}


# ------------------------------------------------------------------------ seeded larger cases
def random_cases(rng, n, maxlen, start_id, forms):
    out = []
    for k in range(n):
        ln = rng.choice([1, 2, 3, 7, maxlen // 2, maxlen])
        nv = rng.choice([1, 2, 3, 6, 12])
        x = [rng.randrange(0, nv + 1) for _ in range(ln)]
        y = [rng.randrange(0, nv + 1) for _ in range(ln)]
        if k % 4 == 0:        # edge-heavy: many data on the extremes
            x = [rng.choice([0, nv, v]) for v in x]
            y = [rng.choice([0, nv, v]) for v in y]
        mode = rng.choice(["binsize", "nbin", "nbin", "both"])
        c = {"x": x, "y": y, "z": [rng.randrange(-9, 10) for _ in range(ln)], "mode": mode,
             "bx": rng.choice([1, 2, 3, 4, 5]) if mode != "nbin" else 0, "by": rng.choice([1, 2, 3, 4, 7]) if mode != "nbin" else 0,
             "nx": rng.choice([1, 2, 3, 4, 5, 6]) if mode != "binsize" else 0, "ny": rng.choice([1, 2, 3, 4, 8]) if mode != "binsize" else 0}
        for nm in ("xmin", "xmax", "ymin", "ymax"):
            has = rng.random() < 0.3
            c["has" + nm] = has
            c[nm] = rng.randrange(0, nv + 2) if has else 0
        out.append((start_id + k, c, forms))
    return out


def random_box(rng, n, start_id):
    out = []
    for k in range(n):
        ln = rng.choice([1, 2, 5, 12, 40])
        out.append((start_id + k, {"x": [rng.randrange(-20, 21) for _ in range(ln)], "n": rng.choice([1, 2, 3, 4, 7, 12, ln, ln + 1])}))
    return out


# ---------------------------------------------------------------------------------- judging
def strip(r):
    if r["kind"] == "box":
        return {"id": r["id"], "kind": "box", "c": r["c"], "o": {"err": r["o"]["err"], "sums": r["o"]["sums"]}}
    obs = [{k: v for k, v in o.items() if k not in ("engine", "call", "frame_ok")} for o in r["obs"]]
    out = {"id": r["id"], "kind": r["kind"], "c": r["c"], "obs": obs}
    if r["kind"] == "h2d":
        out["mx"], out["my"] = r["mx"], r["my"]
    return out


SIGCOUNT = {}


def judge(ctx, recs, what, shard_size=5000):
    rejects = tracecheck.validate(ctx, "Hist2dTrace.tla", [strip(r) for r in recs], what=what, shard_size=shard_size)
    byid = {r["id"]: r for r in recs}
    for rid, failing in rejects.items():
        r = byid[rid]
        for cl in failing:
            if "marginal_case_binding" in cl:
                raise MachineryError("adapter built a 1-d marginal case the spec does not derive from the 2-d case: %s" % r)
            sig = cl.replace("@", "|")
            if r["kind"] == "box":
                sig += "|N%sn" % ("<=" if r["c"]["n"] <= len(r["c"]["x"]) else ">")
            SIGCOUNT[sig] = SIGCOUNT.get(sig, 0) + 1
            if SIGCOUNT[sig] > 40:          # keep the first 40 cases of a signature (memory); all are counted
                continue
            ctx.violation(sig, "result not allowed by Hist2d.tla: clause %s" % cl,
                          {"kind": r["kind"], "c": r["c"], "concrete": r["concrete"],
                           "observed": r["o"] if r["kind"] == "box" else r["obs"]})
    for r in recs:
        frames = [r["o"]] if r["kind"] == "box" else r["obs"]
        if not all(o["frame_ok"] for o in frames):
            ctx.violation("%s|argument_modified" % ("boxcar_average" if r["kind"] == "box" else "histogram2d"),
                          "an array argument was modified", {"kind": r["kind"], "c": r["c"], "concrete": r["concrete"]})
    return rejects


def selftests(ctx, consts):
    """(1) each deviating mechanism switch violates MechRefines; (2) corrupted observations are rejected"""
    st = dict(consts, **SELFTEST)

    def dev(sw):
        return sw, ctx.tlc("Hist2dMC.tla", what="self-test: mechanism with %s=FALSE violates MechRefines" % sw,
                           cfg_text=cfg(constants=dict(st, **{sw: False}), invariants=["MechRefines"]),
                           workers=1, allow_violation=True, coverage=False)     # 1 worker: deterministic state counts
    n0 = len(ctx.tlc_runs)
    with ThreadPoolExecutor(3) as ex:
        for sw, r in ex.map(dev, ["FixedIndex", "FixedEdge", "FixedRev"]):
            if "MechRefines" not in r.violated:
                raise MachineryError("self-test failed: MechRefines not violated with %s=FALSE" % sw)
    ctx.tlc_runs[n0:] = sorted(ctx.tlc_runs[n0:], key=lambda t: t["what"])      # completion order -> fixed order
    # reference observations from the repaired mechanism (independent of the state of the real code)
    r = ctx.tlc("Hist2dMC.tla", what="self-test: export reference observations",
                cfg_text=cfg(constants=dict(st, DoExportRef=True), constraints=["Export"]), workers=1, coverage=False)
    refs = [p for p in r.records.get("REF", []) if p["o"]["err"] == "none" and sum(map(sum, p["o"]["hist"])) >= 2
            and p["c"]["hasxmin"] and len(p["o"]["hist"][0]) >= 2]
    if not refs:
        raise MachineryError("self-test: no reference observation exported")
    p = refs[len(refs) // 2]
    c, good = p["c"], p["o"]

    def mut(f):
        import copy
        o = copy.deepcopy(good)
        f(o)
        return o

    def move_count(o):
        flat = [(i, j) for i in range(len(o["hist"])) for j in range(len(o["hist"][0]))]
        src = next(t for t in flat if o["hist"][t[0]][t[1]] > 0)
        dst = next(t for t in flat if t != src)
        o["hist"][src[0]][src[1]] -= 1
        o["hist"][dst[0]][dst[1]] += 1

    def bad_rev(o):
        nc = len(o["hist"]) * len(o["hist"][0])
        o["revarr"][nc + 1] = (o["revarr"][nc + 1] + 1) % len(c["x"])

    corruptions = [("count moved to another cell", move_count), ("reverse index changed", bad_rev),
                   ("xcenter shifted", lambda o: o["keys"]["xcenter"].__setitem__(0, [1, o["keys"]["xcenter"][0][1] + 1])),
                   ("yhigh off the lattice", lambda o: o["keys"]["yhigh"].__setitem__(0, [0, 0])),
                   ("zmean changed", lambda o: [row.__setitem__(j, [1, row[j][1] + 1]) for row in o["zsum"] for j in range(len(row)) if row[j][1] > 0][:1]),
                   ("table transposed/reshaped", lambda o: (o.__setitem__("shape", [o["shape"][0] * o["shape"][1], 1]),
                                                            o.__setitem__("hist", [[v] for row in o["hist"] for v in row])))]
    recs = [{"id": 1, "kind": "h2d0", "c": c, "obs": [good]}]
    for n, (_, f) in enumerate(corruptions, 2):
        recs.append({"id": n, "kind": "h2d0", "c": c, "obs": [mut(f)]})
    boxc = {"x": [1, -1, 2], "n": 2}
    recs.append({"id": 100, "kind": "box", "c": boxc, "o": {"err": "none", "sums": [[1, 0], [1, 1], [1, 2]]}})
    recs.append({"id": 101, "kind": "box", "c": boxc, "o": {"err": "none", "sums": [[1, 0], [1, 1], [1, 3]]}})
    recs.append({"id": 102, "kind": "box", "c": boxc, "o": {"err": "none", "sums": [[1, 0], [0, 0], [1, 2]]}})
    saved = ctx.traces
    rej = tracecheck.validate(ctx, "Hist2dTrace.tla", recs, what="self-test: corrupted records rejected", workers=1)
    ctx.traces = saved
    want = set(range(2, 2 + len(corruptions))) | {101, 102}
    if set(rej) != want:
        raise MachineryError("binding self-test failed: rejected %s, expected exactly %s (%s)" % (sorted(rej), sorted(want), rej))
    return len(corruptions) + 2


def run(ctx):
    B = BOUNDS[ctx.tier]
    forms = FORMS_QUICK if ctx.quick else FORMS_THOROUGH
    consts = dict(B, FixedIndex=True, FixedEdge=True, FixedRev=True, DoExport=False, DoExportRef=False)
    # 1. design level: the repaired mechanism refines the property; the spec's own theorems; every case of the space
    #    (TLC's coverage accounting is ~20x slower on the recursive acceptance operators: the vacuity guard is a
    #    separate run over the same space without invariants; both runs must visit the same states)
    only = getattr(ctx, "only", None) or {"mc", "selftest", "replay", "seeded"}      # --only: development aid
    if "mc" in only:
      r0 = ctx.tlc("Hist2dMC.tla", what="every action fires over the bounded space (vacuity guard)",
                   cfg_text=cfg(constants=consts), workers=16, timeout=3000,
                   require=["ChooseData", "ChooseSpec", "MSelect", "MIndex", "MFlatten", "MHist1d", "MReturn", "ChooseBox"])
      r1 = ctx.tlc("Hist2dMC.tla", what="mechanism refines property, spec theorems (exhaustive)",
                   cfg_text=cfg(constants=consts, invariants=["MechRefines", "FlatSafe", "RefTheorems", "BoxRefines"]),
                   workers=16, coverage=False, timeout=3000)
      if r0.distinct != r1.distinct:
          raise MachineryError("coverage run and invariant run visited different state spaces (%d / %d)" % (r0.distinct, r1.distinct))
    # 2. self-tests (vacuity of MechRefines, binding of the trace module)
    ncorr = selftests(ctx, consts) if "selftest" in only else 0
    # 3. export every case (spec -> code) and run it
    r2 = ctx.tlc("Hist2dMC.tla", what="export cases",
                 cfg_text=cfg(constants=dict(consts, DoExport=True), next_="NextExport", constraints=["Export"]),
                 workers=1, coverage=False, timeout=3000)
    cases, boxes = r2.records.get("CASE", []), r2.records.get("BOX", [])
    if not cases or not boxes:
        raise MachineryError("no cases exported")
    nrec = 0
    if "replay" in only:
        for b0 in range(0, len(cases), BATCH):
            recs = pmap(run_case, [(i, c, forms) for i, c in enumerate(cases[b0:b0 + BATCH], b0 + 1)])
            for r in recs:
                ctx.count(r["c"])
            if b0 == 0:
                for r in recs[:: max(1, len(recs) // 3)][:3]:
                    ctx.sample({"case": r["c"], "observed": r["obs"][1]})
            judge(ctx, recs, "judge replayed cases %d.. (Hist2dTrace)" % (b0 + 1))
            nrec += len(recs)
            del recs
        brecs = pmap(run_box, list(enumerate(boxes, len(cases) + 1)))
        for r in brecs:
            ctx.count(r["c"])
        ctx.sample({"case": brecs[len(brecs) // 2]["c"], "observed": brecs[len(brecs) // 2]["o"]})
        judge(ctx, brecs, "judge replayed boxcar cases (Hist2dTrace)")
    # 4. larger seeded cases, code -> spec
    nrand, maxlen, nbox = (300, 40, 300) if ctx.quick else (5000, 120, 4000)
    rng = random.Random(ctx.seed)
    base = len(cases) + len(boxes) + 1
    if "seeded" in only:
        rrecs = pmap(run_case, random_cases(rng, nrand, maxlen, base, forms))
        rbox = pmap(run_box, random_box(rng, nbox, base + nrand))
        for r in rrecs + rbox:
            ctx.count(r["c"])
        judge(ctx, rrecs + rbox, "judge seeded larger cases (Hist2dTrace)", shard_size=2000)
    ctx.rule = ("every pair of coordinate arrays of length 1..%d over %d lattice values x every bin-size pair %s / bin-count pair %s "
                "(10*x+y; both given: %s) x every xmin in %s, xmax in %s, ymin in %s, ymax in %s (99 = absent), exported from "
                "Hist2dMC.tla, each concretised on one of %d pairs of dyadic lattices and run in %d call forms (plain, rev, more, z; "
                "both 1-d engines) plus histogram() of each coordinate; every boxcar case of length 1..%d over %d values x windows %s; "
                "plus %d seeded 2-d cases up to length %d and %d boxcar cases; a case is distinct by its abstract record" %
                (B["MaxLen"], len(B["Vals"]), sorted(B["BinPairs"]), sorted(B["NbinPairs"]), sorted(B["BothPairs"]),
                 sorted(B["XMinSet"]), sorted(B["XMaxSet"]), sorted(B["YMinSet"]), sorted(B["YMaxSet"]), len(CONCRETE) ** 2,
                 len(forms), B["BoxMaxLen"], len(B["BoxVals"]), sorted(B["BoxWindows"]), nrand, maxlen, nbox))
    ctx.exhaustive = True
    ctx.note(bounds={k: sorted(v) if isinstance(v, set) else v for k, v in B.items()}, exported_cases=len(cases),
             exported_box_cases=len(boxes), call_forms=[f[0] for f in forms], selftest_corruptions_rejected=ncorr,
             rejected_cases_per_signature=dict(SIGCOUNT))
    ctx.assumptions = [
        "dyadic lattice: the bin index of a lattice datum is exact in binary64/32 unless the real quotient is an integer and the "
        "bin size (or its reciprocal) inexact - there both neighbouring bins are accepted",
        "a datum on an upper limit whose index equals the number of bins may be left out (histogram()'s rule) or counted in the "
        "last bin; any other cell is a violation",
        "real-valued outputs (edges, centres, zmean, window averages) are compared to rounding: 8 ulp of the operand scale in the "
        "precision of the input dtype",
        "weights= (undocumented for histogram2d), non-dyadic data and N < 1 are not covered",
    ]
    ctx.trusted_base = ctx.trusted_base + ["fractions.Fraction arithmetic in the float -> lattice projection"]


def replay(ctx, case):
    k = case.get("concrete", 0)
    if case.get("kind") == "box":
        rec = run_box((k if k else len(BOXCONC), case["c"]))
        rec["id"] = 1
        print("replay observed:", rec["o"])
    else:
        rec = run_case((k if k else len(CONCRETE) ** 2, case["c"], FORMS_THOROUGH))
        rec["id"] = 1
        for o in rec["obs"]:
            print("replay observed [%s]: err=%s hist=%s rev=%s" % (o["call"], o["err"], o["hist"], o["revarr"]))
    judge(ctx, [rec], "replay")
