"""X03 (extension) - file staging, directory stack and path / JSON helpers of esutil.ostools,
esutil.json_util and the type dispatch of esutil.io.

ostools.StagedOutFile, StagedInFile, DirStack, makedirs_fromfile, path_join, expand_path / expand_filename,
json_util.write / read, io.read / io.write (choice of the reader / writer only).

spec -> code : StagingMC.tla explores every history of calls up to a depth over a small file system (six
               directories, two names, five content tokens, staged-file objects, directory stacks) and checks
               the theorems of Staging.tla on it (exit-normally moves the temporary file and leaves none, an
               unstaged object touches nothing, the source of a staged-in file is never touched, popping
               everything restores the working directory, and - under the strict reading only - a block that
               raised never reaches the final path).  Its behaviours are exported (every behaviour of a length
               per protocol family, a transition tour of the combined graph, -simulate walks) and each is
               executed step by step on the real classes in a fresh scratch directory under /tmp/X03-*, with
               real `with` blocks (a generator holds the block open, `raise` inside it is an explicit action).
               The cases of the pure calls (path_join trees, expand_path component sequences, JSON value trees,
               file-name extension chains) are enumerated by the same module and executed one by one.
code -> spec : after every call the scratch directory and the process are projected onto the model's state
               (content token of every modelled path, existing directories, cwd, getstack() of every stack,
               number of stray entries) and the recorded (call, result, projection) traces - those replays and
               seeded random call sequences that do not follow the protocol - are judged by StagingTrace.tla,
               which re-uses Staging's actions.  TLC names the clause(s) no allowed outcome satisfies.
Python never judges: it spells abstract paths concretely (absolute, relative to the real cwd, ~, $VAR, .., via
a symbolic link, trailing slash), records, and builds signatures from what TLC reports.
"""
import json
import multiprocessing as mp
import os
import random
import re
import shutil
import sys
import tempfile

from .. import tlc as _tlc
from ..core import MachineryError, jsonable
from ..tlc import cfg

NEEDS_EXT = True      # "import esutil" needs the compiled extensions (the build is cached)

# ---------------------------------------------------------------------------------------------------
# the abstract world and its concrete spelling
# ---------------------------------------------------------------------------------------------------
DIRS = ["r", "a", "t", "n", "m", "b"]
REL = {"r": "", "a": "a", "t": "t", "n": "n", "m": "n/m", "b": "blk/sub"}
NAMES = {"f": "f.json", "g": "g.out"}
NAME_IDS = sorted(NAMES)
TEXT = {"c1": "content one\n", "c2": "the second, longer content\n" * 3, "p1": "partial: 12 of 512 by"}
JDOC = {"j1": {"a": [1, 2.5, "x"], "b": {"c": None, "d": True}}, "j2": [1, {"k": "v"}, []]}
FIXTURES = {"a", "t", "n", "n/m", "blk", "la", "lt"}
NOPATH = ["none", "none"]
NSTACKS = 2
TRACE_CONSTS = {"Objs": {1, 2, 3}, "Stacks": {1, 2}, "Names": set(NAME_IDS)}

STATE_OPS = ["so_create", "so_write", "so_exit", "so_stageout", "si_create", "si_exit", "si_cleanup", "put", "rmdir",
             "push", "pop", "getstack", "mk", "jwrite", "jread"]
PURE_OPS = ["pjoin", "expand", "jrt", "dispatch"]
EV_FIELDS = ("op", "o", "k", "d", "nm", "td", "must", "c", "exc", "af")
PURE_FIELDS = {"pjoin": ("op", "args"), "expand": ("op", "comps"), "jrt": ("op", "v"), "dispatch": ("op", "parts", "kw", "dir")}

EX_ENV = {"HOME": "x03home", "X03A": "vala", "X03B": "valb", "X03T": "~", "X03V": "$X03A"}
EX_UNSET = ["X03UNSET", "X03Apost"]
STR_TOKENS = {"esc": "a\"b\\c\n\t/é {}[],:", "uni": "☃\U0001f600\x00\x7f퟿"}
STR_BACK = {v: k for k, v in STR_TOKENS.items()}


class Boom(Exception):
    """the exception the user's code raises inside a with-block"""


def ev(op, **kw):
    e = {"op": op, "o": 0, "k": 0, "d": "none", "nm": "none", "td": "none", "must": False, "c": "none", "exc": False,
         "af": False}
    e.update(kw)
    return e


class World:
    """one scratch directory + the objects living in one trace"""

    def __init__(self):
        # one root per worker chunk, *reset* to the pristine fixture before every trace (rmdir costs 1-2 ms on this file
        # system, so a brand-new tree per trace would dominate the run): reset() verifies that the tree is pristine
        self.root = os.path.realpath(tempfile.mkdtemp(prefix="X03-%d-" % os.getpid(), dir="/tmp"))
        self.by_dir = {self.dirpath(d): d for d in DIRS}
        self.by_name = {v: k for k, v in NAMES.items()}
        self.objs, self.stacks, self.rng = {}, {}, None

    def reset(self, seed, tid):
        R = self.root
        self.close_blocks()
        keep = {"a", "t", "blk", "la", "lt"}
        for base, dnames, fnames in os.walk(R, topdown=False):
            for x in fnames + dnames:
                p = os.path.join(base, x)
                if os.path.relpath(p, R) in keep:
                    continue
                if os.path.isdir(p) and not os.path.islink(p):
                    os.rmdir(p)
                else:
                    os.unlink(p)
        for d in ("a", "t"):
            if not os.path.isdir(os.path.join(R, d)):
                os.mkdir(os.path.join(R, d))
        if not os.path.isfile(os.path.join(R, "blk")):
            with open(os.path.join(R, "blk"), "w") as f:
                f.write("a regular file: nothing can be made below it\n")
        for l in ("a", "t"):
            if not os.path.islink(os.path.join(R, "l" + l)):
                os.symlink(l, os.path.join(R, "l" + l))
        self.rng = random.Random("%d/%d" % (seed, tid))
        self.objs = {}          # o -> dict(kind, obj, gen)
        self.stacks = {}        # k -> DirStack
        os.chdir(R)
        p = self.project()
        if (sorted(os.listdir(R)) != ["a", "blk", "la", "lt", "t"] or p["dirs"] != ["r", "a", "t"] or p["extra"] or p["cwd"] != "r"
                or any(t != "absent" for fs in p["files"].values() for t in fs.values())):
            raise MachineryError("scratch directory is not pristine after reset: %s %s" % (os.listdir(R), p))

    # ---- paths ---------------------------------------------------------------------------------
    def dirpath(self, d):
        return os.path.join(self.root, REL[d]) if REL[d] else self.root

    def fpath(self, d, nm):
        return os.path.join(self.dirpath(d), NAMES[nm])

    def spell(self, path, allow, is_dir=False):
        """one of the spellings of an absolute path that the call under test documents to accept"""
        R = self.root
        rel = os.path.relpath(path, R)
        rel = "" if rel == "." else rel
        styles = ["abs", "abs"]
        if "rel" in allow:
            styles.append("rel")
        if "expand" in allow:
            styles += ["tilde", "var", "bvar"]
        via = next((x for x in ("a", "t") if os.path.isdir(os.path.join(R, x))), None)
        if "dots" in allow and os.path.isdir(os.path.dirname(path)) and rel and via:
            styles.append("dots")
        if "link" in allow and rel.split("/")[0] in ("a", "t"):
            styles.append("link")
        if is_dir and "slash" in allow:
            styles.append("slash")
        s = self.rng.choice(styles)
        if s == "rel":
            return os.path.relpath(path, os.getcwd())
        if s == "tilde":
            return "~/" + rel if rel else "~"
        if s == "var":
            return "$X03ROOT/" + rel if rel else "$X03ROOT"
        if s == "bvar":
            return "${X03ROOT}/" + rel
        if s == "dots":
            head, tail = os.path.split(path)
            return os.path.join(head, "..", os.path.basename(head), tail) if head != R else os.path.join(R, via, "..", tail)
        if s == "link":
            return os.path.join(R, "l" + rel)
        if s == "slash":
            return path + "/"
        return path

    def ident(self, path):
        """absolute path -> [dir id, name id]"""
        p = os.path.realpath(path)
        return [self.by_dir.get(os.path.dirname(p), "other"), self.by_name.get(os.path.basename(p), "other")]

    # ---- projection of the scratch directory and the process onto the model's state -------------
    def token(self, path):
        if not os.path.lexists(path):
            return "absent"
        if not os.path.isfile(path):
            return "other"
        with open(path, "rb") as f:
            raw = f.read()
        try:
            text = raw.decode()
        except UnicodeDecodeError:
            return "other"
        for k, v in TEXT.items():
            if text == v:
                return k
        try:
            doc = json.loads(text)
        except ValueError:
            return "other"
        for k, v in JDOC.items():
            if doc == v and type(doc) is type(v):
                return k
        return "other"

    def project(self):
        R = self.root
        files = {d: {nm: (self.token(self.fpath(d, nm)) if d != "b" else "absent") for nm in NAME_IDS} for d in DIRS}
        dirs = [d for d in DIRS if os.path.isdir(self.dirpath(d)) and not os.path.islink(self.dirpath(d))]
        known = set(FIXTURES)
        for d in DIRS:
            if d != "b":
                for nm in NAME_IDS:
                    known.add(os.path.relpath(self.fpath(d, nm), R))
        extra = 0
        for base, dnames, fnames in os.walk(R):
            for x in dnames + fnames:
                if os.path.relpath(os.path.join(base, x), R) not in known:
                    extra += 1
        try:
            cwd = self.by_dir.get(os.path.realpath(os.getcwd()), "other")
        except OSError:
            cwd = "other"
        stacks = []
        for k in range(1, NSTACKS + 1):
            s = self.stacks.get(k)
            stacks.append([self.by_dir.get(os.path.realpath(p), "other") for p in list(s.getstack())] if s else [])
        return {"files": files, "dirs": dirs, "cwd": cwd, "stacks": stacks, "extra": extra}

    def close_blocks(self):
        for rec in self.objs.values():
            g = rec.get("gen")
            if g is not None:
                try:
                    g.close()
                except BaseException:
                    pass

    def cleanup(self):
        self.close_blocks()
        shutil.rmtree(self.root, ignore_errors=True)


def _block(obj):
    """holds a real with-block open: the caller sends "exit" (the block completes) or "raise" (the block raises)"""
    with obj as sf:
        cmd = yield sf
        while True:
            if cmd == "raise":
                raise Boom("raised inside the with-block")
            if cmd == "exit":
                return
            cmd = yield None


def _leave(gen, exc):
    """-> (err, exception text): "none" = the block ended as the caller expects (normal exit, or Boom came out)"""
    try:
        gen.send("raise" if exc else "exit")
    except StopIteration:
        return ("suppressed", "the exception raised inside the block did not propagate") if exc else ("none", "")
    except Boom:
        return ("none", "") if exc else ("rejected", "Boom")
    except Exception as e:            # raised by __exit__
        return "rejected", "%s: %s" % (type(e).__name__, str(e)[:80])
    return "rejected", "the block did not end"


def _call(fn, *a, **k):
    try:
        return "none", fn(*a, **k), ""
    except Exception as e:
        return "rejected", None, "%s: %s" % (type(e).__name__, str(e)[:80])


ENTRY = {"so_create": "ostools.StagedOutFile", "so_write": "open(sf.path,'w')", "so_exit": "StagedOutFile.__exit__",
         "so_stageout": "StagedOutFile.stage_out", "si_create": "ostools.StagedInFile", "si_exit": "StagedInFile.__exit__",
         "si_cleanup": "StagedInFile.cleanup", "put": "open(path,'w')", "rmdir": "os.rmdir", "push": "DirStack.push",
         "pop": "DirStack.pop", "getstack": "DirStack.getstack", "mk": "ostools.makedirs_fromfile",
         "jwrite": "json_util.write", "jread": "json_util.read", "pjoin": "ostools.path_join",
         "expand": "ostools.expand_path", "jrt": "json_util.write+read", "dispatch": "io.read/write"}


# ---------------------------------------------------------------------------------------------------
# executing one event on the real code
# ---------------------------------------------------------------------------------------------------
def write_token(W, path, c, how=None):
    from esutil import json_util
    import esutil.io as eio
    if c in TEXT:
        with open(path, "w") as f:
            f.write(TEXT[c])
        return "open"
    how = how or W.rng.choice(["name", "name", "fileobj", "io", "io_fileobj", "notpretty"])
    if how == "fileobj":
        with open(path, "w") as f:
            json_util.write(JDOC[c], f)
    elif how == "io_fileobj":
        with open(path, "w") as f:
            eio.write(f, JDOC[c], **({} if path.endswith(".json") else {"type": "json"}))
    elif how == "io":
        if path.endswith(".json") and W.rng.random() < 0.5:
            eio.write(path, JDOC[c])
        else:
            eio.write(path, JDOC[c], type="json")
    elif how == "notpretty":
        json_util.write(JDOC[c], path, pretty=False)
    else:
        json_util.write(JDOC[c], path)
    return how


def exec_state(W, e, events, idx):
    """-> (res, info) or None when the event is outside the model's scope in the real state (skipped)"""
    from esutil import ostools, json_util
    import esutil.io as eio
    op, o = e["op"], e["o"]
    res = {"err": "none", "path": list(NOPATH), "stack": [], "val": "none"}
    info = {}
    if op in ("so_create", "si_create"):
        if o in W.objs:
            return None
        fname = W.spell(W.fpath(e["d"], e["nm"]), {"rel", "expand", "dots", "link"})
        kw = {}
        if e["td"] != "none":
            kw["tmpdir"] = W.spell(W.dirpath(e["td"]), {"rel", "expand", "link", "slash"}, is_dir=True)
        elif W.rng.random() < 0.5:
            kw["tmpdir"] = None
        if op == "so_create" and (e["must"] or W.rng.random() < 0.3):
            kw["must_exist"] = e["must"]
        cls = ostools.StagedOutFile if op == "so_create" else ostools.StagedInFile
        info["call"] = "%s(%r, %s)" % (cls.__name__, fname, ", ".join("%s=%r" % kv for kv in sorted(kw.items())))
        err, obj, exc = _call(cls, fname, **kw)
        res["err"] = err
        if err != "none":
            info["exc"] = exc
            return res, info
        exit_op = "so_exit" if op == "so_create" else "si_exit"
        use_with = any(x["op"] == exit_op and x["o"] == o for x in events[idx + 1:])
        rec = {"kind": op[:2], "obj": obj, "gen": None}
        if use_with:
            rec["gen"] = _block(obj)
            sf = next(rec["gen"])
            if sf is not obj:
                info["enter_returned_other"] = True
        W.objs[o] = rec
        res["path"] = W.ident(obj.path)
        return res, info
    if op in ("so_write", "so_exit", "so_stageout", "si_exit", "si_cleanup"):
        rec = W.objs.get(o)
        if rec is None or rec["kind"] != op[:2]:
            return None
        obj = rec["obj"]
        if op == "so_write":
            if not os.path.isdir(os.path.dirname(obj.path)) or os.path.isdir(obj.path):
                return None
            try:
                info["how"] = write_token(W, obj.path, e["c"])
            except Exception as x:            # json_util.write / io.write failed on a writable path
                res["err"] = "rejected"
                info["exc"] = "%s: %s" % (type(x).__name__, str(x)[:80])
            return res, info
        if op in ("so_exit", "si_exit"):
            if rec["gen"] is None or rec.get("exited"):
                return None
            rec["exited"] = True
            res["err"], exc = _leave(rec["gen"], e["exc"])
            if exc:
                info["exc"] = exc
            return res, info
        res["err"], _, exc = _call(obj.stage_out if op == "so_stageout" else obj.cleanup)
        if exc:
            info["exc"] = exc
        return res, info
    if op == "put":
        if not os.path.isdir(W.dirpath(e["d"])) or e["d"] == "b":
            return None
        write_token(W, W.fpath(e["d"], e["nm"]), e["c"], how="name")
        return res, info
    if op == "rmdir":
        p = W.dirpath(e["d"])
        if e["d"] in ("r", "b") or not os.path.isdir(p) or os.listdir(p) or os.path.realpath(os.getcwd()) == p:
            return None
        os.rmdir(p)
        return res, info
    if op in ("push", "pop", "getstack"):
        k = e["k"]
        if k not in W.stacks:
            verbose = W.rng.random() < 0.3
            W.stacks[k] = ostools.DirStack(verbose=True) if verbose else ostools.DirStack()
        s = W.stacks[k]
        if op == "push":
            arg = W.spell(W.dirpath(e["d"]), {"rel", "expand", "link", "slash", "dots"}, is_dir=True)
            info["call"] = "push(%r)" % arg
            res["err"], _, exc = _call(s.push, arg)
        elif op == "pop":
            res["err"], _, exc = _call(s.pop)
        else:
            res["err"], got, exc = _call(s.getstack)
            if res["err"] == "none":
                res["stack"] = [W.by_dir.get(os.path.realpath(p), "other") for p in list(got)]
        if exc:
            info["exc"] = exc
        return res, info
    if op == "mk":
        if e["d"] == "none":
            arg = NAMES[e["nm"]]
        else:
            arg = W.spell(W.fpath(e["d"], e["nm"]), {"rel", "dots"})
        kw = {}
        if e["af"] or W.rng.random() < 0.3:
            kw["allow_fail"] = e["af"]
        if W.rng.random() < 0.2:
            kw["verbose"] = True
        info["call"] = "makedirs_fromfile(%r, %s)" % (arg, kw)
        res["err"], _, exc = _call(ostools.makedirs_fromfile, arg, **kw)
        if exc:
            info["exc"] = exc
        return res, info
    if op == "jwrite":
        if not os.path.isdir(W.dirpath(e["d"])) or e["d"] == "b":
            return None
        path = W.spell(W.fpath(e["d"], e["nm"]), {"rel"})
        try:
            info["how"] = write_token(W, path, e["c"])
        except Exception as x:
            res["err"] = "rejected"
            info["exc"] = "%s: %s" % (type(x).__name__, str(x)[:80])
        return res, info
    if op == "jread":
        path = W.spell(W.fpath(e["d"], e["nm"]), {"rel"})
        how = W.rng.choice(["name", "name", "fileobj", "io", "io_fileobj"])
        if how in ("fileobj", "io_fileobj") and not os.path.isfile(path):
            how = "name"
        info["how"] = how
        if how == "fileobj":
            with open(path) as f:
                err, got, exc = _call(json_util.read, f)
        elif how == "io_fileobj":
            with open(path) as f:
                err, got, exc = _call(eio.read, f, **({} if path.endswith(".json") else {"type": "json"}))
        elif how == "io":
            err, got, exc = _call(eio.read, path, **({} if path.endswith(".json") else {"type": "json"}))
        else:
            err, got, exc = _call(json_util.read, path)
        res["err"] = err
        if exc:
            info["exc"] = exc
        if err == "none":
            res["val"] = next((k for k, v in JDOC.items() if got == v and type(got) is type(v)), "other")
        return res, info
    raise MachineryError("unknown op %r" % op)


# ---- pure calls ----------------------------------------------------------------------------------
def pj_value(W, n):
    if n["t"] == "s":
        return n["s"]
    if n["t"] == "l":
        return [pj_value(W, k) for k in n["k"]]
    if n["t"] == "t":
        return tuple(pj_value(W, k) for k in n["k"])
    return W.rng.choice([3, None, b"bytes", 1.5, {"a": 1}])


def j_value(n):
    import numpy as np
    t = n["t"]
    if t == "int":
        return int(n["s"])
    if t == "float":
        return float(n["s"])
    if t == "str":
        return STR_TOKENS.get(n["s"], n["s"])
    if t == "bool":
        return n["s"] == "true"
    if t == "null":
        return None
    if t == "list":
        return [j_value(k) for k in n["k"]]
    if t == "tuple":
        return tuple(j_value(k) for k in n["k"])
    if t == "dict":
        return {key: j_value(k) for key, k in zip(n["keys"], n["k"])}
    if t == "npint":
        return np.int64(int(n["s"]))
    if t == "npfloat":
        return np.float64(float(n["s"]))
    if t == "nparr":
        return np.arange(3)
    if t == "floatx":
        return float(n["s"])
    if t == "ikeydict":
        return {1: "a", 2: "b"}
    raise MachineryError("unknown json node type %r" % t)


def j_node(v):
    """what json_util.read returned -> node (the inverse of j_value on the types JSON has)"""
    leaf = lambda t, s: {"t": t, "s": s, "keys": [], "k": []}
    if v is None:
        return leaf("null", "")
    if v is True or v is False:
        return leaf("bool", "true" if v else "false")
    if type(v) is int:
        return leaf("int", str(v))
    if type(v) is float:
        return leaf("float", repr(v)) if v == v and v not in (float("inf"), float("-inf")) else leaf("floatx", repr(v))
    if type(v) is str:
        return leaf("str", STR_BACK.get(v, v))
    if type(v) is list:
        return {"t": "list", "s": "", "keys": [], "k": [j_node(x) for x in v]}
    if type(v) is tuple:
        return {"t": "tuple", "s": "", "keys": [], "k": [j_node(x) for x in v]}
    if type(v) is dict and all(type(k) is str for k in v):
        keys = sorted(v)
        return {"t": "dict", "s": "", "keys": keys, "k": [j_node(v[k]) for k in keys]}
    return leaf("other:" + type(v).__name__, "")


class _Recorder:
    def __init__(self):
        self.calls = []

    def stub(self, name):
        def f(*a, **k):
            self.calls.append((name, a[:2]))
            return "X03-SENTINEL"
        return f


def observe_dispatch(W, e):
    """io.read / io.write with every reader / writer replaced by a recording stub: which one is chosen"""
    import types
    import esutil.io as eio
    rec = _Recorder()
    names = ["read_fits", "read_yaml", "read_rec", "read_xml", "read_pyobj", "write_fits", "write_yaml", "write_rec",
             "write_xml", "write_pyobj", "json_util"]
    saved = {n: getattr(eio, n) for n in names}
    kind = {"read_fits": "fits", "read_yaml": "yaml", "read_rec": "rec", "read_xml": "xml", "read_pyobj": "pyobj"}
    try:
        for n in names[:-1]:
            setattr(eio, n, rec.stub(n.split("_")[1]))
        eio.json_util = types.SimpleNamespace(read=rec.stub("json"), write=rec.stub("json"))
        fname = os.path.join(W.root, "base" + "".join("." + p for p in e["parts"]))
        kw = {}
        if e["kw"] != "none":
            kw["typ" if (e["dir"] == "read" and W.rng.random() < 0.3) else "type"] = e["kw"]
        elif e["dir"] == "write" and W.rng.random() < 0.3:
            kw["type"] = None
        spelled = W.spell(fname, {"rel", "expand"})
        if e["dir"] == "read":
            err, got, exc = _call(eio.read, spelled, **kw)
        else:
            err, got, exc = _call(eio.write, spelled, {"x": 1}, **kw)
    finally:
        for n, v in saved.items():
            setattr(eio, n, v)
    val = "none"
    if err == "none":
        if len(rec.calls) != 1:
            val = "calls=%d" % len(rec.calls)
        else:
            val = rec.calls[0][0]
            arg = rec.calls[0][1][1 if (e["dir"] == "write" and val == "json") else 0]   # json_util.write(data, fobj)
            if not (isinstance(arg, str) and os.path.realpath(os.path.expanduser(os.path.expandvars(arg))) == os.path.realpath(fname)):
                val = "wrong_file_argument"
            if e["dir"] == "read" and val in set(kind.values()) | {"json"} and got != "X03-SENTINEL":
                val = "result_not_returned"
    return err, val, exc, "io.%s(%r%s)" % (e["dir"], spelled, "".join(", %s=%r" % kv for kv in kw.items()))


def exec_pure(W, e):
    from esutil import ostools, json_util
    import esutil.io as eio
    op = e["op"]
    res = {"err": "none", "path": list(NOPATH), "stack": [], "val": "none"}
    info = {}
    if op == "pjoin":
        args = [pj_value(W, n) for n in e["args"]]
        info["call"] = "path_join(%s)" % ", ".join(repr(a) for a in args)
        res["err"], got, exc = _call(ostools.path_join, *args)
        if res["err"] == "none":
            res["val"] = got if isinstance(got, str) else "not a string: %r" % (got,)
    elif op == "expand":
        path = "/".join(e["comps"])
        saved = {k: os.environ.get(k) for k in list(EX_ENV) + EX_UNSET}
        try:
            os.environ.update(EX_ENV)
            for k in EX_UNSET:
                os.environ.pop(k, None)
            fn = ostools.expand_filename if W.rng.random() < 0.3 else ostools.expand_path
            info["call"] = "%s(%r)" % (fn.__name__, path)
            res["err"], got, exc = _call(fn, path)
        finally:
            for k, v in saved.items():
                if v is None:
                    os.environ.pop(k, None)
                else:
                    os.environ[k] = v
        if res["err"] == "none":
            res["val"] = got.split("/") if isinstance(got, str) else ["not a string"]
    elif op == "jrt":
        v = j_value(e["v"])
        path = os.path.join(W.root, "x03-jrt.json")
        how_w = W.rng.choice(["name", "fileobj", "io", "io_fileobj", "notpretty"])
        how_r = W.rng.choice(["name", "fileobj", "io", "io_fileobj"])
        info["how"] = [how_w, how_r]
        try:
            if how_w == "fileobj":
                with open(path, "w") as f:
                    err, _, exc = _call(json_util.write, v, f)
            elif how_w == "io":
                err, _, exc = _call(eio.write, path, v)
            elif how_w == "io_fileobj":
                with open(path, "w") as f:
                    err, _, exc = _call(eio.write, f, v)
            elif how_w == "notpretty":
                err, _, exc = _call(json_util.write, v, path, pretty=False)
            else:
                err, _, exc = _call(json_util.write, v, path)
            got = None
            if err == "none":
                if how_r == "fileobj":
                    with open(path) as f:
                        err, got, exc = _call(json_util.read, f)
                elif how_r == "io":
                    err, got, exc = _call(eio.read, path)
                elif how_r == "io_fileobj":
                    with open(path) as f:
                        err, got, exc = _call(eio.read, f)
                else:
                    err, got, exc = _call(json_util.read, path)
        finally:
            if os.path.lexists(path):
                os.unlink(path)
        res["err"] = err
        if err == "none":
            res["val"] = j_node(got)
        else:
            res["val"] = j_node(None)
    elif op == "dispatch":
        res["err"], res["val"], exc, info["call"] = observe_dispatch(W, e)
    else:
        raise MachineryError("unknown op %r" % op)
    if exc:
        info["exc"] = exc
    return res, info


_QUIET = False


def _quiet():
    """the library prints progress on stdout (DirStack(verbose=True) through a `stdout` bound at import): in a worker
    process fd 1 and 2 go to /dev/null"""
    global _QUIET
    if not _QUIET:
        sys.stdout.flush()
        sys.stderr.flush()
        null = os.open(os.devnull, os.O_WRONLY)
        os.dup2(null, 1)
        os.dup2(null, 2)
        os.close(null)
        _QUIET = True


def run_trace(job, W=None):
    """job = (id, events, seed) -> {"id", "events", "seed", "done": [event + res + obs + info]}"""
    tid, events, seed = job
    cwd0 = os.getcwd()
    env0 = {k: os.environ.get(k) for k in ("HOME", "X03ROOT")}
    own = W is None
    if own:
        W = World()
    done = []
    try:
        os.environ["HOME"] = W.root
        os.environ["X03ROOT"] = W.root
        W.reset(seed, tid)
        for idx, e in enumerate(events):
            out = exec_pure(W, e) if e["op"] in PURE_OPS else exec_state(W, e, events, idx)
            if out is None:
                continue
            res, info = out
            info = {k: (v.replace(W.root, "<R>") if isinstance(v, str) else v) for k, v in info.items()}
            d = dict(e)
            d["res"] = res
            d["obs"] = W.project()
            d["info"] = info
            done.append(d)
    finally:
        os.chdir(cwd0)
        for k, v in env0.items():
            if v is None:
                os.environ.pop(k, None)
            else:
                os.environ[k] = v
        W.close_blocks()
        if own:
            W.cleanup()
    return {"id": tid, "events": events, "seed": seed, "done": done}


def _worker(chunk):
    _quiet()
    W = World()
    try:
        return [run_trace(j, W) for j in chunk]
    finally:
        W.cleanup()


def make_pool():
    """forked workers, created while the process is still single-threaded (the TLC runs are driven by threads later)"""
    nproc = max(1, min(16, os.cpu_count() or 1, int(os.environ.get("VH_MAX_WORKERS", "16"))))
    sys.stdout.flush()
    return mp.get_context("fork").Pool(nproc), nproc


def close_pool(pool):
    """stop the workers and remove whatever scratch directory a worker that was stopped mid-trace left behind"""
    import glob
    pids = [p.pid for p in getattr(pool, "_pool", [])]
    pool.terminate()
    pool.join()
    for pid in pids:
        for d in glob.glob("/tmp/X03-%d-*" % pid):
            shutil.rmtree(d, ignore_errors=True)


def pool_map(pool, nproc, jobs):
    jobs = list(jobs)
    if not jobs:
        return []
    size = max(1, min(400, len(jobs) // (nproc * 4) or 1))
    chunks = [jobs[i:i + size] for i in range(0, len(jobs), size)]
    out = []
    for part in pool.imap(_worker, chunks):
        out.extend(part)
    return out


def fork_map(jobs):
    """always in forked children: the replays change the working directory and the environment of their process"""
    pool, nproc = make_pool()
    try:
        return pool_map(pool, nproc, jobs)
    finally:
        close_pool(pool)


# ---------------------------------------------------------------------------------------------------
# judging: StagingTrace.tla under TLC
# ---------------------------------------------------------------------------------------------------
def tla_event(e):
    fields = PURE_FIELDS.get(e["op"], EV_FIELDS)
    out = {k: e[k] for k in fields}
    out["res"] = e["res"]
    out["obs"] = e["obs"]
    return out


def _validate_once(ctx, records, what, strict, workers):
    fd, path = tempfile.mkstemp(prefix="X03-trace-", suffix=".ndjson", dir="/tmp")
    try:
        with os.fdopen(fd, "w") as f:
            for r in records:
                f.write(json.dumps(r, separators=(",", ":"), default=jsonable))
                f.write("\n")
        consts = dict(TRACE_CONSTS, StrictExc=bool(strict))
        r = ctx.tlc("StagingTrace.tla", what=what, cfg_text=cfg(constants=consts, constraints=["Check"]), workers=workers,
                    env={"TRACE_FILE": path}, timeout=1800, coverage=False, jvm=["-Xmx3g", "-XX:ParallelGCThreads=2"])
        if r.distinct < len(records) + 1:
            raise MachineryError("trace validation visited %d states for %d records" % (r.distinct, len(records)))
        if r.garbled:
            if workers == 1:
                raise MachineryError("unparsed lines in TLC output:\n" + r.tail(20))
            return _validate_once(ctx, records, what, strict, 1)
        accepted = {x["id"] for x in r.records.get("ACCEPT", [])}
        rejects = {}
        for x in r.records.get("REJECT", []):
            if x["id"] not in accepted:          # a trace is rejected when NO resolution of the specification's
                rejects.setdefault(x["id"], []).append(sorted(x["failing"]))   # nondeterminism reaches its end
        missing = {rec["id"] for rec in records} - accepted - set(rejects)
        if missing:
            raise MachineryError("trace validation neither accepted nor rejected traces %s" % sorted(missing)[:5])
        # several failing resolutions: report the one that got furthest
        return {i: max(fs, key=lambda f: max([int(v) for k, v in f if k == "step"] or [0])) for i, fs in rejects.items()}
    finally:
        try:
            os.unlink(path)
        except OSError:
            pass


def validate(ctx, records, what, strict=False, count=True):
    from concurrent.futures import ThreadPoolExecutor
    if not records:
        return {}
    nsh = max(1, min(4, (len(records) + 3999) // 4000))
    if nsh == 1:
        rejects = _validate_once(ctx, records, what, strict, 4)
    else:
        parts = [records[i::nsh] for i in range(nsh)]
        with ThreadPoolExecutor(nsh) as ex:
            futs = [ex.submit(_validate_once, ctx, p, "%s [shard %d/%d]" % (what, i + 1, nsh), strict, 3)
                    for i, p in enumerate(parts)]
            rejects = {}
            for f in futs:
                rejects.update(f.result())
    if count:
        ctx.traces += len(records) - len(rejects)
    return rejects


CLAUSE_ORDER = ["exception_swallowed", "unexpected_error", "not_rejected", "sf_path", "final_path", "temp_path", "files",
                "dirs", "cwd", "stack", "returned_stack", "stray_files", "value", "combination", "spec_invariant",
                "out_of_scope"]
CLAUSE_TEXT = {
    "exception_swallowed": "the context manager swallowed the exception raised inside the with-block",
    "unexpected_error": "the call raised although the documentation requires it to succeed",
    "not_rejected": "the call succeeded although the documentation requires an error (must_exist 'or an IOError is thrown'; "
                    "push to a missing directory; inputs that 'must be strings or sequences'; an unsupported file type)",
    "sf_path": "sf.path is not where the documentation puts it ('If not sent, or None, the final path is used')",
    "final_path": "content of the final / source path after the call ('staging files from temporary directories to a final "
                  "destination'; 'make a local copy': the original is never touched)",
    "temp_path": "content of sf.path after the call ('move the file to its final destination'; cleanup removes the copy)",
    "files": "a file the call has no business with changed",
    "dirs": "'Extract the directory from a file name and create it if it doesn't exist' / directories created or removed",
    "cwd": "'Change to the indicated dir' / 'change to that directory': the working directory after the call",
    "stack": "'push the current working directory onto the stack' / 'Pop the last directory from the stack'",
    "returned_stack": "getstack: 'Return the current stack'",
    "stray_files": "an entry outside the documented paths was left in the directory tree",
    "value": "the returned value is not one the documentation allows",
}


def parse_failing(failing):
    d = {}
    for k, v in failing:
        d.setdefault(k, []).append(v)
    clauses = sorted(d.get("clause", []), key=lambda c: CLAUSE_ORDER.index(c) if c in CLAUSE_ORDER else 99)
    step = int(d["step"][0]) if "step" in d else 0
    cls = {k: v[0] for k, v in d.items() if k not in ("clause", "step")}
    return step, clauses, cls


def pure_class(e):
    """structural class of a pure case (for the signature)"""
    op = e["op"]
    if op == "pjoin":
        def walk(n, depth):
            out = set()
            if n["t"] in ("l", "t"):
                out.add("list" if n["t"] == "l" else "tuple")
                if not n["k"]:
                    out.add("empty")
                if depth >= 1:
                    out.add("nested")
                for k in n["k"]:
                    out |= walk(k, depth + 1)
            elif n["t"] == "x":
                out.add("nonstring")
            elif n["s"] == "" or n["s"].endswith("/"):
                out.add("oddleaf")
            return out
        s = set()
        for i, n in enumerate(e["args"]):
            s |= walk(n, 0)
            if i > 0 and n["t"] == "s" and n["s"].startswith("/"):
                s.add("oddleaf")
        return "nargs=%s,%s" % (min(len(e["args"]), 3), "+".join(sorted(s)) or "strings")
    if op == "expand":
        kinds = set()
        for i, c in enumerate(e["comps"]):
            if c.startswith("~"):
                kinds.add("tilde_first" if i == 0 else "tilde_inside")
            if "$" in c:
                kinds.add("unset_var" if ("UNSET" in c or c == "$X03Apost") else "var")
        return "+".join(sorted(kinds)) or "literal"
    if op == "jrt":
        types = set()

        def walk(n):
            types.add(n["t"])
            for k in n["k"]:
                walk(k)
        walk(e["v"])
        return "+".join(sorted(types))
    if op == "dispatch":
        doc = {"fits", "rec", "xml", "json", "yaml", "pyobj"}

        def k(x):
            return ("documented" if x in doc else "compression" if x in ("gz", "bz", "bz2") else
                    "synonym" if x.lower() in doc | {"fit", "pya"} else "unknown")
        parts = e["parts"]
        ext = "none" if not parts else k(parts[-1]) + ("(%s)" % k(parts[-2]) if k(parts[-1]) == "compression" and len(parts) > 1 else "")
        return "%s,%s" % (e["dir"], "ext=" + ext if e["kw"] == "none" else "type=" + k(e["kw"]))
    return ""


def judge(ctx, recs, what, report=True):
    """hand the recorded traces to StagingTrace.tla; turn what TLC rejects into violations"""
    recs = [r for r in recs if r["done"]]
    rejects = validate(ctx, [{"id": r["id"], "ev": [tla_event(e) for e in r["done"]]} for r in recs], what)
    byid = {r["id"]: r for r in recs}
    for r in recs:
        r["rejected"] = r["id"] in rejects
    for rid, failing in sorted(rejects.items()):
        rec = byid[rid]
        step, clauses, cls = parse_failing(failing)
        if "spec_invariant" in clauses:
            raise MachineryError("Staging invariant violated while validating a trace: %s" % failing)
        if "out_of_scope" in clauses:
            raise MachineryError("harness produced an event outside the specification's scope: trace %s step %s %s" %
                                 (rid, step, {k: v for k, v in rec["done"][step - 1].items() if k not in ("obs",)}))
        if not report:
            continue
        e = rec["done"][step - 1]
        if clauses[0] == "exception_swallowed":
            cls = {"exc": "yes"}
        elif clauses[0] in ("unexpected_error", "not_rejected"):
            cls = {k: v for k, v in cls.items() if k != "finalfile"}
        else:
            cls = {k: v for k, v in cls.items() if k != "must"}
        c = pure_class(e) if e["op"] in PURE_OPS else ",".join("%s=%s" % kv for kv in sorted(cls.items()))
        sig = "%s|%s|%s" % (ENTRY[e["op"]], clauses[0], c)
        call = {k: e[k] for k in PURE_FIELDS.get(e["op"], EV_FIELDS) if e[k] not in ("none", 0, False)}
        obs = e["obs"]
        shown = {"files": {d + "/" + nm: t for d, fs in obs["files"].items() for nm, t in fs.items() if t != "absent"},
                 "dirs": obs["dirs"], "cwd": obs["cwd"], "stacks": obs["stacks"], "extra": obs["extra"]}
        whatv = ("step %d %s %s: not allowed by Staging.tla, clause(s) %s - %s; observed res=%s%s state=%s" %
                 (step, ENTRY[e["op"]], json.dumps(call, sort_keys=True)[:300], "+".join(clauses),
                  CLAUSE_TEXT.get(clauses[0], clauses[0]),
                  json.dumps({k: v for k, v in e["res"].items() if v not in ("none", [], NOPATH)}, sort_keys=True)[:300],
                  " (%s)" % e["info"]["exc"] if e["info"].get("exc") else "", json.dumps(shown, sort_keys=True)))
        ctx.violation(sig, whatv, {"kind": "trace", "seed": rec["seed"], "id": rec["id"], "events": rec["events"],
                                   "failing_step": step, "clauses": clauses, "class": cls})
    return rejects


# ---------------------------------------------------------------------------------------------------
# tiers
# ---------------------------------------------------------------------------------------------------
SO_ACTS = {"so_create", "so_write", "so_exit", "so_raise", "so_stageout", "put"}
SI_ACTS = {"si_create", "si_exit", "si_raise", "si_cleanup", "put"}
DS_ACTS = {"push", "pop", "getstack", "rmdir", "mk"}
JS_ACTS = {"jwrite", "jread", "put", "so_create", "so_write", "so_exit"}
ALL_ACTS = SO_ACTS | SI_ACTS | DS_ACTS | {"jwrite", "jread"}
REQUIRE = ["MSOCreate", "MSOWrite", "MSOExit", "MSORaise", "MSOStageOut", "MSICreate", "MSIExit", "MSIRaise", "MSICleanup",
           "MPut", "MRmDir", "MPush", "MPop", "MGetStack", "MMk", "MJWrite", "MJRead"]
INVS = ["FsInv", "ObjInv", "PopAllRestores", "BottomIsBase"]

PURE_NONE = dict(PJLeaves=set(), PJMode="nest", EXAlphabet=set(), EXMaxLen=0, JLeafIds=set(), JDepth=0, DPExts=set(),
                 DPKws=set(), DPMaxLen=0)
SMALL = dict(Objs={1}, Stacks={1}, Names={"f"}, FinDirs={"a", "n"}, TmpDirs={"none", "same", "t", "m"},
             PushDirs={"a", "t", "n", "b"}, MkDirs={"none", "a", "m", "b"}, PutDirs={"a", "t"}, Conts={"c1", "p1", "j1"})
WIDE = dict(Objs={1, 2, 3}, Stacks={1, 2}, Names={"f", "g"}, FinDirs={"r", "a", "n", "m", "b"},
            TmpDirs={"none", "same", "t", "n", "m", "b", "r"}, PushDirs={"r", "a", "t", "n", "m", "b"},
            MkDirs={"none", "r", "a", "n", "m", "b"}, PutDirs={"r", "a", "t", "n", "m"}, Conts={"c1", "c2", "p1", "j1", "j2"})
EX_ALPHABET = {"~", "$X03A", "${X03A}", "$X03B", "pre$X03A", "${X03A}post", "$X03A.$X03B", "$X03T", "$X03V", "$X03UNSET",
               "${X03UNSET}", "$X03Apost", "~x03nouser", "lit", "", "a.b-c_d"}
J_LEAVES = {"i0", "ineg", "ibig", "ihuge", "f01", "fbig", "fnz", "f1", "fsub", "sempty", "sesc", "suni", "snum", "btrue",
            "bfalse", "null", "npint", "npfloat", "nparr", "nan", "inf", "ikeydict"}
DP_EXTS = {"fits", "fit", "rec", "pya", "json", "yaml", "xml", "pyobj", "gz", "bz", "bz2", "txt", "FITS", "Json", "REC", "",
           "dat"}
DP_KWS = {"none", "json", "rec", "REC", "bogus", "pyobj", "fit"}

TIERS = {
    "quick": dict(
        models=[("1 object, 1 stack, depth 4", dict(SMALL, MaxDepth=4)),
                ("2 objects, staging only, depth 3", dict(SMALL, Objs={1, 2}, MaxDepth=3, Acts=SO_ACTS | SI_ACTS))],
        strict=dict(SMALL, MaxDepth=5, Acts=SO_ACTS, Conts={"c1", "p1"}),
        families=[("StagedOutFile", SO_ACTS, dict(SMALL, MaxDepth=3, Conts={"c1", "p1"}, PutDirs={"a"}), 3),
                  ("StagedInFile", SI_ACTS, dict(SMALL, MaxDepth=3, Conts={"c1"}, PutDirs={"a"}), 3),
                  ("DirStack + makedirs_fromfile", DS_ACTS, dict(SMALL, MaxDepth=3, PushDirs={"a", "n", "b"},
                                                                 MkDirs={"none", "m", "b"}), 3)],
        family_keep=5000,
        tour=dict(SMALL, MaxDepth=3), tour_keep=800,
        simulate=dict(num=60, depth=10, keep=400, consts=WIDE),
        random=300,
        pure=[dict(PJLeaves={"/tmp", "test", "file.txt"}, PJMode="nest", EXAlphabet=EX_ALPHABET, EXMaxLen=2,
                   JLeafIds=J_LEAVES, JDepth=1, DPExts=DP_EXTS, DPKws=DP_KWS, DPMaxLen=2),
              dict(PJLeaves={"/tmp", "test", "", "dir/", "/usr"}, PJMode="flat", JLeafIds={"i0", "sesc", "npint"}, JDepth=2,
                   Acts={"pjoin", "jrt"})],
        pure_keep=3000,
    ),
    "thorough": dict(
        models=[("1 object, 1 stack, depth 6", dict(SMALL, MaxDepth=6)),
                ("2 objects, 2 stacks, depth 4", dict(SMALL, Objs={1, 2}, Stacks={1, 2}, MaxDepth=4)),
                ("2 objects, 2 names, staging only, depth 4",
                 dict(SMALL, Objs={1, 2}, Names={"f", "g"}, MaxDepth=4, Acts=SO_ACTS | SI_ACTS)),
                ("2 objects, all directories, staging only, depth 3",
                 dict(WIDE, Objs={1, 2}, Stacks={1}, Names={"f"}, MaxDepth=3, Acts=SO_ACTS | SI_ACTS, Conts={"c1", "p1"}))],
        strict=dict(SMALL, Objs={1, 2}, MaxDepth=6, Acts=SO_ACTS, Conts={"c1", "p1"}),
        families=[("StagedOutFile", SO_ACTS, dict(SMALL, MaxDepth=4, Conts={"c1", "p1"}, PutDirs={"a"}), 4),
                  ("StagedInFile", SI_ACTS, dict(SMALL, MaxDepth=4, Conts={"c1"}, PutDirs={"a"}), 4),
                  ("DirStack + makedirs_fromfile", DS_ACTS, dict(SMALL, MaxDepth=4, PushDirs={"a", "n", "b"},
                                                                 MkDirs={"none", "m", "b"}), 4),
                  ("json_util on staged paths", JS_ACTS, dict(SMALL, MaxDepth=4, Conts={"c1", "j1"}, PutDirs={"a"},
                                                              TmpDirs={"none", "t"}, FinDirs={"a"}), 4)],
        family_keep=16000,
        tour=dict(SMALL, MaxDepth=5), tour_keep=10000,
        simulate=dict(num=1500, depth=14, keep=6000, consts=WIDE),
        random=4000,
        pure=[dict(PJLeaves={"/tmp", "test", "file.txt", "test1"}, PJMode="nest", EXAlphabet=EX_ALPHABET, EXMaxLen=3,
                   JLeafIds=J_LEAVES, JDepth=1, DPExts=DP_EXTS, DPKws=DP_KWS, DPMaxLen=3),
              dict(PJLeaves={"/tmp", "test", "file.txt", "", "dir/", "/usr"}, PJMode="flat",
                   JLeafIds={"i0", "f01", "sesc", "null", "npint"}, JDepth=2, Acts={"pjoin", "jrt"})],
        pure_keep=24000,
    ),
}


def mc_constants(c, keep=False, export_at=0, acts=None, strict=False):
    out = dict(PURE_NONE)
    out.update(c)
    out.setdefault("Acts", set(acts if acts is not None else ALL_ACTS))
    if acts is not None:
        out["Acts"] = set(acts)
    out.update(KeepHist=keep, ExportAt=export_at, StrictExc=strict)
    return out


def clean_events(beh):
    """events as exported by StagingMC: keep the call, drop the model's outcome"""
    return [{k: e[k] for k in PURE_FIELDS.get(e["op"], EV_FIELDS)} for e in beh]


def dedupe(behs):
    seen, out = set(), []
    for b in behs:
        evs = clean_events(b)
        k = json.dumps(evs, sort_keys=True)
        if k not in seen:
            seen.add(k)
            out.append(evs)
    return out


def maximal(behs):
    """drop histories that are a proper prefix of another exported history"""
    keys = [[json.dumps(e, sort_keys=True) for e in b] for b in behs]
    prefixes = set()
    for k in keys:
        for n in range(1, len(k)):
            prefixes.add("\x00".join(k[:n]))
    return [b for b, k in zip(behs, keys) if "\x00".join(k) not in prefixes]


def sample(items, keep, seed):
    if len(items) <= keep:
        return items
    rng = random.Random(seed)
    return [items[i] for i in sorted(rng.sample(range(len(items)), keep))]


def sample_by_call(cases, keep, seed):
    """all cases of the calls with few cases, a seeded sample of the others (same share each)"""
    by = {}
    for b in cases:
        by.setdefault(b[0]["op"], []).append(b)
    left, out = keep, []
    for n, op in enumerate(sorted(by, key=lambda o: len(by[o]))):
        share = left // (len(by) - n)
        got = sample(by[op], share, seed + n)
        left -= len(got)
        out += got
    return out


def tally_silent(all_recs):
    """what the real code did where the documentation is silent (bookkeeping for the evidence file, no judgement)"""
    T = {}

    def add(k, v):
        T.setdefault(k, {})
        T[k][v] = T[k].get(v, 0) + 1
    init = {"files": {d: {nm: "absent" for nm in NAME_IDS} for d in DIRS}, "dirs": ["r", "a", "t"], "stacks": [[], []]}
    for r in all_recs:
        made = {}
        for i, e in enumerate(r["done"]):
            before = r["done"][i - 1]["obs"] if i else init
            op = e["op"]
            if op == "so_create" and e["res"]["err"] == "none":
                made[e["o"]] = dict(e)
            if (op in ("so_create", "si_create") and e["td"] not in ("none", "b", e["d"]) and e["td"] not in before["dirs"]
                    and (op == "so_create" or (e["d"] != "b" and before["files"][e["d"]][e["nm"]] != "absent"))):
                add(ENTRY[op] + ": tmpdir does not exist",
                    "rejected" if e["res"]["err"] != "none" else "created" if e["td"] in e["obs"]["dirs"] else "not created")
            if op == "so_exit" and e["exc"] and e["o"] in made:
                c = made[e["o"]]
                tp = e_path = c["res"]["path"]
                if tp[0] != c["d"] and tp[0] in before["files"] and before["files"][tp[0]][tp[1]] != "absent":
                    now_t = e["obs"]["files"][tp[0]][tp[1]]
                    add("StagedOutFile: with-block raised, temporary file present",
                        "temporary file kept" if now_t != "absent" else
                        "staged out to the final path" if e["obs"]["files"][c["d"]][c["nm"]] == before["files"][tp[0]][tp[1]]
                        else "discarded")
                if tp[0] != c["d"] and tp[0] in before["files"] and before["files"][tp[0]][tp[1]] == "absent" and c["must"]:
                    add("StagedOutFile(must_exist=True): with-block raised, no temporary file",
                        "the block's exception propagates" if e["res"]["err"] == "none" else "replaced by " + e["info"].get("exc", "?").split(":")[0])
            if op == "pop":
                st = before["stacks"][e["k"] - 1]
                if not st:
                    add("DirStack.pop on an empty stack", "returns" if e["res"]["err"] == "none" else "raises")
                elif st[-1] not in before["dirs"]:
                    add("DirStack.pop to a directory that no longer exists",
                        ("raises" if e["res"]["err"] != "none" else "returns") + ", entry " +
                        ("lost" if len(e["obs"]["stacks"][e["k"] - 1]) < len(st) else "kept"))
            if op == "mk" and e["d"] == "b":
                add("makedirs_fromfile(allow_fail=%s), directory cannot be made" % e["af"],
                    "raises" if e["res"]["err"] != "none" else "returns silently")
            if op in ("so_stageout", "so_exit") and e["o"] in made:
                c = made[e["o"]]
                tp = c["res"]["path"]
                had = tp[0] != c["d"] and tp[0] in before["files"] and before["files"][tp[0]][tp[1]] != "absent"
                again = c.get("moved", False)
                if had and e["obs"]["files"][tp[0]][tp[1]] == "absent" and e["res"]["err"] == "none":
                    c["moved"] = True
                if op == "so_stageout" and had and again:
                    add("StagedOutFile.stage_out again, temporary file rewritten",
                        "ignored (temporary file stays)" if e["obs"]["files"][tp[0]][tp[1]] != "absent" else "staged out again")
    return {k: dict(sorted(v.items())) for k, v in sorted(T.items())}


def count_trace(ctx, r):
    ops = {e["op"] for e in r["done"]}
    ctx.count({"e": [{k: v for k, v in e.items() if k in EV_FIELDS or k in ("args", "comps", "v", "parts", "kw", "dir")}
                     for e in r["done"]], "i": [e["info"].get("call") or e["info"].get("how") for e in r["done"]]},
              nontrivial=bool(ops - {"getstack", "jread", "put", "rmdir"}))


# ---- seeded random call sequences that need not follow the protocol (code -> spec) -----------------
def random_events(rng):
    n = rng.choice([5, 8, 12, 16])
    out = []
    live = []
    next_o = 1
    for _ in range(n):
        r = rng.random()
        d = rng.choice(["r", "a", "a", "t", "n", "m", "b"])
        nm = rng.choice(NAME_IDS)
        if r < 0.18 and next_o <= 3:
            td = rng.choice(["none", "t", "t", d, "n", "m", "b", "a"])
            op = rng.choice(["so_create", "so_create", "si_create"])
            out.append(ev(op, o=next_o, d=d, nm=nm, td=td, must=(op == "so_create" and rng.random() < 0.4)))
            live.append((next_o, op[:2]))
            next_o += 1
        elif r < 0.50 and live:
            o, kind = rng.choice(live)
            if kind == "so":
                q = rng.random()
                if q < 0.45:
                    out.append(ev("so_write", o=o, c=rng.choice(["c1", "c2", "p1", "j1", "j2"])))
                elif q < 0.75:
                    out.append(ev("so_exit", o=o, exc=rng.random() < 0.4))
                else:
                    out.append(ev("so_stageout", o=o))
            else:
                out.append(ev("si_exit", o=o, exc=rng.random() < 0.4) if rng.random() < 0.6 else ev("si_cleanup", o=o))
        elif r < 0.62:
            out.append(ev("put", d=d, nm=nm, c=rng.choice(["c1", "c2", "j1"])))
        elif r < 0.78:
            k = rng.choice([1, 1, 2])
            out.append(rng.choice([ev("push", k=k, d=d), ev("push", k=k, d=d), ev("pop", k=k), ev("pop", k=k),
                                   ev("getstack", k=k)]))
        elif r < 0.86:
            out.append(ev("mk", d=rng.choice(["none", d]), nm=nm, af=rng.random() < 0.5))
        elif r < 0.90:
            out.append(ev("rmdir", d=rng.choice(["n", "m", "a", "t"])))
        elif r < 0.95:
            out.append(ev("jwrite", d=d, nm=nm, c=rng.choice(["j1", "j2"])))
        else:
            out.append(ev("jread", d=d, nm=nm))
    return out


# ---- binding self-test -----------------------------------------------------------------------------
def _corrupt(rec, rng, only_kind=None):
    """-> (corrupted tla record, step, expected clause) or None"""
    evs = [tla_event(e) for e in rec["done"]]
    evs = json.loads(json.dumps(evs))
    cands = []
    for i, e in enumerate(evs):
        if e["op"] in ("so_exit", "so_stageout") and e["res"]["err"] == "none":
            for d, fs in e["obs"]["files"].items():
                for nm, t in fs.items():
                    if t in ("c1", "c2", "j1"):
                        cands.append((i, "content", d, nm))
        if e["op"] in ("si_exit", "si_cleanup"):
            cands.append((i, "stray", None, None))
        if e["op"] in ("push", "pop") and e["res"]["err"] == "none":
            cands.append((i, "cwd", None, None))
            cands.append((i, "stack", None, None))
        if e["op"] == "mk" and e["res"]["err"] == "none" and "n" in e["obs"]["dirs"]:
            cands.append((i, "dirs", None, None))
        # (only cases the specification constrains: no empty sequence / non-string in path_join, JSON-native values)
        if (e["op"] == "pjoin" and e["res"]["err"] == "none" and e["res"]["val"]
                and not ({"empty", "nonstring"} & set(re.split("[,+]", pure_class(e))))):
            cands.append((i, "value", None, None))
        if (e["op"] == "jrt" and e["res"]["err"] == "none" and e["res"]["val"]["t"] == "list" and e["res"]["val"]["k"]
                and set(pure_class(e).split("+")) <= {"int", "float", "str", "bool", "null", "list", "tuple", "dict"}):
            cands.append((i, "jvalue", None, None))
        if e["op"] == "dispatch" and e["res"]["err"] == "none" and e["res"]["val"] == "json":
            cands.append((i, "dvalue", None, None))
        if e["op"] == "expand" and e["res"]["err"] == "none" and "x03home" in e["res"]["val"] and e["comps"][0] == "~":
            cands.append((i, "evalue", None, None))
    if only_kind == "?":
        return {c[1] for c in cands}
    cands = [c for c in cands if only_kind in (None, c[1])]
    if not cands:
        return None
    i, kind, d, nm = rng.choice(cands)
    e = evs[i]
    if kind == "content":
        e["obs"]["files"][d][nm] = "p1"
        want = {"final_path", "temp_path", "files"}
    elif kind == "stray":
        e["obs"]["extra"] = 1
        want = {"stray_files"}
    elif kind == "cwd":
        e["obs"]["cwd"] = "m" if e["obs"]["cwd"] != "m" else "r"
        want = {"cwd"}
    elif kind == "stack":
        e["obs"]["stacks"][e["k"] - 1] = e["obs"]["stacks"][e["k"] - 1] + ["b"]
        want = {"stack"}
    elif kind == "dirs":
        e["obs"]["dirs"] = [x for x in e["obs"]["dirs"] if x != "n"]
        want = {"dirs"}
    elif kind == "value":
        e["res"]["val"] = e["res"]["val"] + "/"
        want = {"value"}
    elif kind == "jvalue":
        e["res"]["val"]["k"] = e["res"]["val"]["k"][:-1]
        want = {"value"}
    elif kind == "dvalue":
        e["res"]["val"] = "rec"
        want = {"value"}
    else:
        e["res"]["val"] = [("~" if x == "x03home" else x) for x in e["res"]["val"]]
        want = {"value"}
    return evs[:i + 1], i + 1, want, kind


def selftest(ctx, all_recs):
    """corrupt one recorded observation of traces TLC accepted: TLC must reject exactly the corrupted copies, at that
    step, naming the corrupted clause"""
    rng = random.Random(ctx.seed * 31 + 7)
    recs, expect = [], {}
    pool = [r for r in all_recs if not r.get("rejected") and r["done"]]
    rng.shuffle(pool)
    KINDS = ["content", "stray", "cwd", "stack", "dirs", "value", "jvalue", "dvalue", "evalue"]
    per_kind = {}
    k = 0
    for kind in KINDS:
        for r in pool:
            if per_kind.get(kind, 0) >= 6:
                break
            if kind not in _corrupt(r, rng, "?"):
                continue
            evs, step, want, _ = _corrupt(r, rng, kind)
            per_kind[kind] = per_kind.get(kind, 0) + 1
            k += 1
            recs.append({"id": 2 * k, "ev": evs})
            expect[2 * k] = (step, want, kind)
            recs.append({"id": 2 * k + 1, "ev": [tla_event(e) for e in r["done"]][:step]})
    missing = set(KINDS) - set(per_kind)
    if missing:
        raise MachineryError("self-test: no accepted trace to corrupt for %s" % sorted(missing))
    rej = validate(ctx, recs, "self-test: corrupted observations rejected", count=False)
    for i, (step, want, kind) in sorted(expect.items()):
        if i + 1 in rej:
            raise MachineryError("binding self-test: an accepted trace was rejected when validated again: %s" % rej[i + 1])
        if i not in rej:
            raise MachineryError("binding self-test failed: corrupted observation (%s) accepted" % kind)
        st, clauses, _ = parse_failing(rej[i])
        if st != step or not (want & set(clauses)):
            raise MachineryError("binding self-test: corruption %s at step %d reported as %s at step %d" %
                                 (kind, step, clauses, st))
    ctx.note(selftest_corruptions={k: v for k, v in sorted(per_kind.items())})


# ---- the check -----------------------------------------------------------------------------------------
ASSUMPTIONS = [
    "contract = docstrings of esutil/ostools.py, json_util.py, io.py and RELEASE_NOTES (clauses O1-O5, I1-I3, D1-D3, M1, P1, "
    "E1, J1, T1 at the top of spec/Staging.tla); where they are silent every outcome is accepted",
    "a with-block left by an exception: staged out as on a normal exit, temporary file kept, or temporary file discarded "
    "are all accepted (the strict reading is evaluated as a lead only)",
    "missing tmpdir / final directory: created or the call rejected; stage_out a second time: nothing or staged again; pop "
    "on an empty stack: nothing or rejected; pop to a vanished directory: rejected, entry kept or lost",
    "makedirs_fromfile(allow_fail=): docstring and RELEASE_NOTES contradict each other - when the directory cannot be made "
    "raising and returning silently are both accepted for both values",
    "path_join with empty sequences, expand_path of an unknown ~user, json of numpy types / nan / inf / non-string keys, io "
    "dispatch on undocumented synonyms, upper-case extensions and compression suffixes (intended type or rejection): "
    "unconstrained",
    "crash points inside stage_out (between os.remove of the old final file and shutil.move) are not modelled; concurrent "
    "processes are not modelled (one call at a time); hdfs paths and exec_process are out of scope",
    "io dispatch is observed with every reader / writer replaced by a recording stub (only the choice is judged); real "
    "round trips through io.read / io.write are made for json only",
]


def execute_and_judge(ctx, T, R, part, pool, nproc):
    # ---- the groups of call sequences to execute, in a fixed order --------------------------------------------------
    groups = []          # (label, kind, [event lists])
    # 2. spec -> code: every behaviour of a length, per protocol family
    for name, acts, consts, depth in T["families"]:
        if "fam:" + name in R:
            behs = sample(R["fam:" + name], T["family_keep"], ctx.seed * 2750159 + 13)
            groups.append(("%s behaviour of length %d: %s" % ("every" if len(behs) == len(R["fam:" + name]) else
                                                              "%d of %d" % (len(behs), len(R["fam:" + name])), depth, name),
                           "fam:" + name, behs))
            ctx.note(**{"behaviours_" + name.split()[0]: len(R["fam:" + name]),
                        "behaviours_" + name.split()[0] + "_replayed": len(behs)})
    # 3. spec -> code: transition tour of the combined graph
    if "tour" in R:
        nedges, nmax, keep = R["tour"]
        groups.append(("transition tour", "tour", keep))
        ctx.note(tour_edges=nedges, tour_maximal_histories=nmax, tour_histories_replayed=len(keep))
    # 4. spec -> code: long simulated behaviours of the wide model
    if "sim:0" in R:
        sims = R["sim:0"][1] + R["sim:1"][1]
        groups.append(("simulated behaviours", "sim", sims))
        ctx.note(simulated_behaviours_exported=R["sim:0"][0] + R["sim:1"][0], simulated_behaviours_replayed=len(sims))
    # 5. code -> spec: seeded random call sequences that need not follow the protocol
    if part("random"):
        rng = random.Random(ctx.seed * 1000003 + 17)
        groups.append(("seeded random call sequences", "random", [random_events(rng) for _ in range(T["random"])]))
        ctx.note(random_sequences=T["random"])
    # 6. the pure calls: every enumerated case (a sample of them when there are more than pure_keep)
    if "pure:0" in R:
        cases = [b for i in range(len(T["pure"])) for b in R["pure:%d" % i]]
        ncases = len(cases)
        cases = sample_by_call(cases, T["pure_keep"], ctx.seed * 15485863 + 3)
        groups.append(("pure calls", "pure", cases))
        ctx.note(pure_cases_enumerated=ncases, pure_cases_executed=len(cases),
                 pure_cases_by_call={op: sum(1 for b in cases if b[0]["op"] == op) for op in PURE_OPS})

    # ---- execute everything on the real code (forked workers), then judge everything with StagingTrace.tla ----------
    jobs, owner = [], []
    for label, kind, behs in groups:
        for evs in behs:
            jobs.append((len(jobs) + 1, evs, ctx.seed))
            owner.append(kind)
    all_recs = pool_map(pool, nproc, jobs)
    ctx.log("executed %d call sequences (%d calls) on the real code" % (len(all_recs), sum(len(r["done"]) for r in all_recs)))
    for r, kind in zip(all_recs, owner):
        r["group"] = kind
        count_trace(ctx, r)
    ctx.note(observed_where_documentation_is_silent=tally_silent(all_recs))
    rejects = judge(ctx, all_recs, "judge the recorded traces (StagingTrace)")
    for label, kind, behs in groups:
        ctx.log("%-50s %6d traces, %d rejected" % (label, len(behs), sum(1 for r in all_recs if r["group"] == kind and r.get("rejected"))))
    return all_recs, groups


def run(ctx):
    from concurrent.futures import ThreadPoolExecutor
    T = TIERS[ctx.tier]
    only = getattr(ctx, "only", None) or set()

    def part(name):
        return not only or name in only

    # ---- TLC runs: the design-level checks and the exports are independent of each other: a few at a time -------------
    def model(what, consts):
        acts = consts.get("Acts")
        req = REQUIRE if acts is None else [a for a in REQUIRE if _act_of(a) in acts]
        ctx.tlc("StagingMC.tla", what="Staging histories: " + what,
                cfg_text=cfg(constants=mc_constants(consts), constraints=["Bounded"], invariants=INVS,
                             properties=["StagingProps"]),
                workers=16, require=req, timeout=3000)

    def strict_holds(S):
        # the strict reading (a block that raised never reaches the final path) has the theorem FinalNeverPartial ...
        ctx.tlc("StagingMC.tla", what="strict reading: FinalNeverPartial holds (depth %d)" % S["MaxDepth"],
                cfg_text=cfg(constants=mc_constants(S, strict=True), constraints=["Bounded"], invariants=["FsInv", "ObjInv"],
                             properties=["StagingProps", "FinalNeverPartial"]),
                workers=16, require=["MSORaise", "MSOExit", "MSOStageOut", "MSOWrite"], timeout=3000)

    def lenient_violates(S):
        # ... the documented reading does not: shown by a violated run (self-test of the theorem)
        r = ctx.tlc("StagingMC.tla", what="documented reading: FinalNeverPartial is NOT a theorem (violated)",
                    cfg_text=cfg(constants=mc_constants(S, strict=False), constraints=["Bounded"],
                                 properties=["FinalNeverPartial"]),
                    workers=1, allow_violation=True, coverage=False, timeout=3000)
        if not any("FinalNeverPartial" in v for v in r.violated):
            raise MachineryError("self-test: the lenient reading does not violate FinalNeverPartial")

    def export_family(name, acts, consts, depth):
        r = ctx.tlc("StagingMC.tla", what="export every behaviour of length %d: %s" % (depth, name),
                    cfg_text=cfg(constants=mc_constants(consts, keep=True, export_at=depth, acts=acts),
                                 constraints=["Bounded", "Export"]),
                    workers=1, coverage=False, timeout=3000)
        behs = dedupe(r.records.get("BEH", []))
        if not behs:
            raise MachineryError("no behaviours exported for %s" % name)
        return behs

    def export_tour(U):
        r = ctx.tlc("StagingMC.tla", what="export transition tour (depth %d)" % U["MaxDepth"],
                    cfg_text=cfg(constants=mc_constants(U, keep=True, export_at=0), constraints=["Bounded", "Export"],
                                 view="View"),
                    workers=1, coverage=False, timeout=3000)
        edges = dedupe(r.records.get("BEH", []))
        keep = maximal(edges)       # an edge history that is a proper prefix of another one is replayed as part of it
        if not keep:
            raise MachineryError("empty transition tour")
        return len(edges), len(keep), sample(keep, T["tour_keep"], ctx.seed * 7919 + 11)

    def export_sim(S, k, acts, label):
        r = ctx.tlc("StagingMC.tla", what="simulate %d behaviours of depth %d (%s)" % (S["num"], S["depth"], label),
                    cfg_text=cfg(constants=mc_constants(dict(S["consts"], MaxDepth=S["depth"]), keep=True,
                                                        export_at=S["depth"], acts=acts),
                                 constraints=["Export"]),
                    workers=1, coverage=False, timeout=3000, simulate="num=%d" % S["num"],
                    extra=["-depth", str(S["depth"] + 1), "-seed", str(ctx.seed + 1 + k)])
        got = dedupe(r.records.get("BEH", []))
        if len(got) < S["num"] // 2:
            raise MachineryError("simulation exported only %d behaviours" % len(got))
        return len(got), sample(got, S["keep"] // 2, ctx.seed * 104729 + 5 + k)

    def export_pure(i, P):
        acts = P.get("Acts", set(PURE_OPS))
        consts = dict(SMALL, MaxDepth=1)
        consts.update({k: v for k, v in P.items() if k != "Acts"})
        r = ctx.tlc("StagingMC.tla", what="enumerate the cases of the pure calls (%d: %s)" % (i + 1, ", ".join(sorted(acts))),
                    cfg_text=cfg(constants=mc_constants(consts, keep=True, export_at=1, acts=acts), next_="PureNext",
                                 invariants=["PureInv"], constraints=["Bounded", "Export"]),
                    workers=1, coverage=False, timeout=3000)
        got = dedupe(r.records.get("BEH", []))
        missing = acts - {b[0]["op"] for b in got}
        if missing:
            raise MachineryError("no cases exported for %s" % sorted(missing))
        return got

    first_run = len(ctx.tlc_runs)
    pool, nproc = make_pool()
    ex = ThreadPoolExecutor(5)
    try:
        F, M = {}, {}
        if part("behaviours"):
            for name, acts, consts, depth in T["families"]:
                F["fam:" + name] = ex.submit(export_family, name, acts, consts, depth)
        if part("tour"):
            F["tour"] = ex.submit(export_tour, T["tour"])
        if part("simulate"):
            for k, (acts, label) in enumerate([(ALL_ACTS, "all calls"),
                                               (SO_ACTS | SI_ACTS | {"push", "pop", "mk"}, "staging + directory stack")]):
                F["sim:%d" % k] = ex.submit(export_sim, T["simulate"], k, acts, label)
        if part("pure"):
            for i, P in enumerate(T["pure"]):
                F["pure:%d" % i] = ex.submit(export_pure, i, P)
        if part("mc"):
            # 1. design level: the theorems of Staging.tla on every bounded history (the reading used for verdicts:
            #    StrictExc = FALSE); these runs go on while the exported behaviours are executed and judged
            for what, consts in T["models"]:
                M["mc:" + what] = ex.submit(model, what, consts)
            M["mc:strict"] = ex.submit(strict_holds, T["strict"])
            M["mc:lenient"] = ex.submit(lenient_violates, T["strict"])
        R = {k: f.result() for k, f in F.items()}
        all_recs, groups = execute_and_judge(ctx, T, R, part, pool, nproc)
        for f in M.values():
            f.result()
    finally:
        ex.shutdown(wait=True, cancel_futures=True)
        close_pool(pool)
    ctx.tlc_runs[first_run:] = sorted(ctx.tlc_runs[first_run:], key=lambda r: r["what"])   # completion order -> fixed order
    if only:
        return

    # 7. binding self-test  8. the strict reading as a lead (never a verdict): how the real code behaves when a with-block raises
    so_recs = [r for r in all_recs if r["group"] == "fam:StagedOutFile"]
    raised = [r for r in so_recs if any(e["op"] == "so_exit" and e["exc"] for e in r["done"]) and not r.get("rejected")]
    first_run = len(ctx.tlc_runs)
    with ThreadPoolExecutor(2) as ex:
        f1 = ex.submit(selftest, ctx, all_recs)
        f2 = ex.submit(validate, ctx, [{"id": r["id"], "ev": [tla_event(e) for e in r["done"]]} for r in raised],
                       "lead: traces with a raising with-block under the strict reading", True, False)
        f1.result()
        rej = f2.result()
    ctx.tlc_runs[first_run:] = sorted(ctx.tlc_runs[first_run:], key=lambda r: r["what"])
    partial_final = 0
    for r in raised:
        for e in r["done"]:
            if e["op"] == "so_exit" and e["exc"]:
                o = next(x for x in r["done"] if x["op"] == "so_create" and x["o"] == e["o"])
                if o["td"] not in ("none", o["d"]) and e["obs"]["files"][o["d"]][o["nm"]] == "p1":
                    partial_final += 1
    ctx.note(lead_strict_reading={"traces_with_raising_block": len(raised), "rejected_by_strict_reading": len(rej),
                                  "partial_file_at_final_path_after_raise": partial_final,
                                  "note": "StagedOutFile.__exit__ ignores the exception and stages out whatever is at "
                                          "sf.path; the documentation does not say what should happen, so this is "
                                          "reported as a lead, not as a violation"})

    for kind in ("fam:StagedOutFile", "fam:StagedInFile", "sim", "random", "pure"):
        r = next((r for r in all_recs if r["group"] == kind and len(r["done"]) >= 1), None)
        if r:
            ctx.sample({"group": kind, "events": [compact(e) for e in r["done"][:4]]})
    ctx.exhaustive = True
    x = ctx.extra
    ctx.rule = ("Staging.tla actions SOCreate/SOWrite/SOExit(exc)/SOStageOut, SICreate/SIExit(exc)/SICleanup, UserPut/RmDir, "
                "DPush/DPop/DGetStack, MkFromFile, JWrite/JRead and the pure PathJoin/Expand/JRoundTrip/Dispatch; TLC explores "
                "every history up to the depths in `models` (invariants FsInv ObjInv PopAllRestores BottomIsBase, action "
                "properties StagingProps; FinalNeverPartial under the strict reading, shown violated under the documented "
                "one); replayed into the real classes in a scratch directory /tmp/X03-* reset to the pristine fixture before "
                "every sequence, with real with-blocks: every behaviour of length n per protocol family (%s; at most %d replayed per family), a "
                "transition "
                "tour of the depth-%d graph (%d edges = %d maximal histories, %d replayed), %d of %d -simulate behaviours of "
                "depth %d over 3 objects / 2 stacks / 2 names / 6 directories, %d seeded random call sequences of 5-16 calls "
                "that need not follow the protocol, and %d of %d enumerated pure cases (%s); every path argument spelled in "
                "one of 8 ways (absolute, relative to the real cwd, ~, $VAR, ${VAR}, .., through a symbolic link, trailing "
                "slash) where the call documents expansion; after every call the scratch tree, cwd and every getstack() are "
                "projected onto the model state and the trace is judged by StagingTrace.tla; a case is distinct by (event "
                "list, concrete spelling)" %
                (", ".join("%s: %d at n=%d" % (n.split()[0], x.get("behaviours_" + n.split()[0], 0), d)
                           for n, _, _, d in T["families"]), T["family_keep"],
                 T["tour"]["MaxDepth"], x.get("tour_edges", 0), x.get("tour_maximal_histories", 0),
                 x.get("tour_histories_replayed", 0), x.get("simulated_behaviours_replayed", 0),
                 x.get("simulated_behaviours_exported", 0), T["simulate"]["depth"], T["random"],
                 x.get("pure_cases_executed", 0), x.get("pure_cases_enumerated", 0), x.get("pure_cases_by_call", {})))
    ctx.note(models=[{"what": w, "constants": _fmt(c)} for w, c in T["models"]])
    ctx.assumptions = ASSUMPTIONS
    ctx.trusted_base.append("x03 adapter: spelling of abstract paths, content-token <-> file text tables, projection of the "
                            "scratch tree / cwd / getstack() onto the model state, JSON value <-> node encoding")


def _act_of(mname):
    table = {"MSOCreate": "so_create", "MSOWrite": "so_write", "MSOExit": "so_exit", "MSORaise": "so_raise",
             "MSOStageOut": "so_stageout", "MSICreate": "si_create", "MSIExit": "si_exit", "MSIRaise": "si_raise",
             "MSICleanup": "si_cleanup", "MPut": "put", "MRmDir": "rmdir", "MPush": "push", "MPop": "pop",
             "MGetStack": "getstack", "MMk": "mk", "MJWrite": "jwrite", "MJRead": "jread"}
    return table[mname]


def _fmt(c):
    return {k: (sorted(v) if isinstance(v, (set, frozenset)) else v) for k, v in c.items()}


def compact(e):
    """an executed event written out for the evidence file"""
    obs = e["obs"]
    return {"call": {k: e[k] for k in PURE_FIELDS.get(e["op"], EV_FIELDS) if e[k] not in ("none", 0, False)},
            "concrete": e["info"].get("call") or e["info"].get("how"),
            "res": {k: v for k, v in e["res"].items() if v not in ("none", [], NOPATH)},
            "state": {"files": {d + "/" + nm: t for d, fs in obs["files"].items() for nm, t in fs.items() if t != "absent"},
                      "dirs": obs["dirs"], "cwd": obs["cwd"], "stacks": obs["stacks"], "extra": obs["extra"]}}


def replay(ctx, case):
    if case.get("kind") != "trace":
        raise MachineryError("unknown replay case kind %r" % case.get("kind"))
    recs = fork_map([(case.get("id", 1), case["events"], case["seed"])])
    for e in recs[0]["done"]:
        call = {k: e[k] for k in PURE_FIELDS.get(e["op"], EV_FIELDS) if e[k] not in ("none", 0, False)}
        print("replay %-26s %s -> %s%s" % (ENTRY[e["op"]], e["info"].get("call") or json.dumps(call, sort_keys=True)[:200],
                                          json.dumps({k: v for k, v in e["res"].items() if v not in ("none", [], NOPATH)})[:200],
                                          " (%s)" % e["info"]["exc"] if e["info"].get("exc") else ""))
        obs = e["obs"]
        print("       files=%s dirs=%s cwd=%s stacks=%s extra=%d" %
              ({d + "/" + nm: t for d, fs in obs["files"].items() for nm, t in fs.items() if t != "absent"}, obs["dirs"],
               obs["cwd"], obs["stacks"], obs["extra"]))
    judge(ctx, recs, "replay")
